(* C05: the scalar maps of FSQ and LFQ over the reals.  tanh / atanh are written with exp / ln (the form the
   `interval` tactic certifies); the kernels are the ones regenerated from the source.  No proofs here. *)
From Coq Require Import ZArith Reals List Bool.
From Flocq Require Import Core.
From VQ Require Import Num Model.Vec.
From VQ.Gen Require Import k_fsq_bound k_fsq_sym_bound k_lfq_quantize.
Import ListNotations.
Open Scope R_scope.

Definition th (x : R) : R := (exp (2 * x) - 1) / (exp (2 * x) + 1).      (* tanh *)
Definition ath (y : R) : R := / 2 * ln ((1 + y) / (1 - y)).              (* atanh *)

Definition fsq_offset (L : Z) : R := if Z.even L then / 2 else 0.          (* torch.where(levels % 2 == 0, 0.5, 0.0) *)
Definition fsq_half_l (eps : R) (L : Z) : R := (IZR L - 1) * (1 + eps) / 2.
Definition fsq_shift (eps : R) (L : Z) : R := ath (fsq_offset L / fsq_half_l eps L).
(* FSQ.bound, exactly the regenerated kernel *)
Definition fsq_bound (eps : R) (L : Z) (z : R) : R := k_fsq_bound R_ops ath th z eps (IZR L) (fsq_offset L).
(* torch.round = round half to even *)
Definition rnd (x : R) : Z := ZnearestE x.
(* FSQ.quantize (evaluation branch): round_ste(bound(z)) / (L // 2) *)
Definition fsq_q (eps : R) (L : Z) (z : R) : R := IZR (rnd (fsq_bound eps L z)) / IZR (L / 2).
(* level index (0 .. L-1) the codec assigns to that value: round(q * (L//2) + L//2) *)
Definition fsq_level (eps : R) (L : Z) (z : R) : Z := (rnd (fsq_bound eps L z) + L / 2)%Z.
(* symmetry-preserving mode, exactly the regenerated kernel with floor *)
Definition fsq_sym_q (L : Z) (z : R) : R := k_fsq_sym_bound R_ops th (fun x => IZR (Zfloor x)) z (IZR L).
Definition fsq_sym_level (L : Z) (z : R) : Z := Zfloor ((IZR L - 1) * (th z + 1) / 2 + / 2).
(* LFQ eq. 3, the regenerated kernel *)
Definition lfq_q (s x : R) : R := k_lfq_quantize R_ops x s.

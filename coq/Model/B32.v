(* IEEE binary32 executable model on top of the standard library's SpecFloat
   (prec 24, emax 128).  Used where the *bits* of float32 arithmetic decide an
   index: FSQ / LatentQuantize codes_to_indices. *)
From Coq Require Import ZArith List Bool SpecFloat.
From VQ Require Import Model.Vec Model.Codec.
Import ListNotations.
Open Scope Z_scope.

Definition prec := 24.
Definition emax := 128.
Notation sf := spec_float.

Definition b32_of_Z (z : Z) : sf := binary_normalize prec emax z 0 false.
(* float with value m * 2^e (exact when representable) *)
Definition b32_of_dy (m e : Z) : sf := binary_normalize prec emax m e false.
Definition b32_add := SFadd prec emax.
Definition b32_sub := SFsub prec emax.
Definition b32_mul := SFmul prec emax.
Definition b32_div := SFdiv prec emax.

Definition sf_eqb (a b : sf) : bool :=
  match a, b with
  | S754_zero s1, S754_zero s2 => Bool.eqb s1 s2
  | S754_infinity s1, S754_infinity s2 => Bool.eqb s1 s2
  | S754_nan, S754_nan => true
  | S754_finite s1 m1 e1, S754_finite s2 m2 e2 =>
      Bool.eqb s1 s2 && Pos.eqb m1 m2 && Z.eqb e1 e2
  | _, _ => false
  end.
Definition sf_finite (a : sf) : bool :=
  match a with S754_zero _ | S754_finite _ _ _ => true | _ => false end.

(* .to(int32): truncation toward zero;   .round(): half to even *)
Definition sf_trunc (a : sf) : Z :=
  match a with
  | S754_finite s m e =>
      let v := match e with
               | Z0 => Zpos m
               | Zpos p => Zpos m * Z.pow_pos 2 p
               | Zneg p => Zpos m / Z.pow_pos 2 p
               end in
      if s then - v else v
  | _ => 0
  end.
Definition sf_round_he (a : sf) : Z :=
  match a with
  | S754_finite s m e =>
      let v := match e with
               | Z0 => Zpos m
               | Zpos p => Zpos m * Z.pow_pos 2 p
               | Zneg p =>
                   let den := Z.pow_pos 2 p in
                   let q := Zpos m / den in
                   let r := Zpos m mod den in
                   match Z.compare (2 * r) den with
                   | Lt => q
                   | Gt => q + 1
                   | Eq => if Z.even q then q else q + 1
                   end
               end in
      if s then - v else v
  | _ => 0
  end.

(* ---- FSQ codec exactly as the code computes it in float32 ---- *)
(* _scale_and_shift_inverse on an integer level index: (k - hw) / hw  (int - int is exact,
   true division of ints produces a float32 quotient) *)
Definition fsq_code_b32 (L k : Z) : sf :=
  b32_div (b32_of_Z (k - half_width L)) (b32_of_Z (half_width L)).
(* _scale_and_shift: zhat * hw + hw *)
Definition fsq_scale_shift_b32 (L : Z) (c : sf) : sf :=
  b32_add (b32_mul c (b32_of_Z (half_width L))) (b32_of_Z (half_width L)).

(* preserve_symmetry:  zhat * (2. / (L - 1)) - 1.   and   (zn + 1.) / (2. / (L - 1)) *)
Definition sym_step_b32 (L : Z) : sf := b32_div (b32_of_Z 2) (b32_of_Z (L - 1)).
Definition fsq_sym_code_b32 (L k : Z) : sf :=
  b32_sub (b32_mul (b32_of_Z k) (sym_step_b32 L)) (b32_of_Z 1).
Definition fsq_sym_scale_shift_b32 (L : Z) (c : sf) : sf :=
  b32_div (b32_add c (b32_of_Z 1)) (sym_step_b32 L).

(* LatentQuantize: (k - hw) / hw / 2   and   zhat * 2 * hw + hw *)
Definition lq_code_b32 (L k : Z) : sf :=
  b32_div (b32_div (b32_of_Z (k - half_width L)) (b32_of_Z (half_width L))) (b32_of_Z 2).
Definition lq_scale_shift_b32 (L : Z) (c : sf) : sf :=
  b32_add (b32_mul (b32_mul c (b32_of_Z 2)) (b32_of_Z (half_width L))) (b32_of_Z (half_width L)).

(* how a float level is turned into an integer digit *)
Inductive conv := ConvTrunc | ConvRound.
Definition to_digit (c : conv) (a : sf) : Z :=
  match c with ConvTrunc => sf_trunc a | ConvRound => sf_round_he a end.

(* codes_to_indices, pinned (buggy) form: float32 multiply-add per level, float32 sum,
   then one conversion *)
Definition sf_sum (l : list sf) : sf := fold_left b32_add l (S754_zero false).
Definition fsq_codes_to_index_floatsum (c : conv) (levels : list Z) (code : list sf) : Z :=
  to_digit c (sf_sum (map2 (fun x b => b32_mul x (b32_of_Z b))
                           (map2 fsq_scale_shift_b32 levels code) (basis levels))).
(* repaired form: each level converted to an integer digit, integer mixed-radix sum *)
Definition fsq_codes_to_index_intsum (c : conv) (levels : list Z) (code : list sf) : Z :=
  enc levels (map (to_digit c) (map2 fsq_scale_shift_b32 levels code)).
Definition lq_codes_to_index_intsum (c : conv) (levels : list Z) (code : list sf) : Z :=
  enc levels (map (to_digit c) (map2 lq_scale_shift_b32 levels code)).

Definition fsq_index_to_code_b32 (levels : list Z) (i : Z) : list sf :=
  map2 fsq_code_b32 levels (dec levels i).
Definition fsq_sym_codes_to_index (c : conv) (levels : list Z) (code : list sf) : Z :=
  enc levels (map (to_digit c) (map2 fsq_sym_scale_shift_b32 levels code)).
Definition fsq_sym_index_to_code_b32 (levels : list Z) (i : Z) : list sf :=
  map2 fsq_sym_code_b32 levels (dec levels i).
Definition lq_index_to_code_b32 (levels : list Z) (i : Z) : list sf :=
  map2 lq_code_b32 levels (dec levels i).

(* round trips over a whole codebook / a whole level *)
Definition zrange (n : Z) : list Z := map Z.of_nat (seq 0 (Z.to_nat n)).
Definition fsq_level_roundtrip_ok (c : conv) (L : Z) : bool :=
  forallb (fun k => to_digit c (fsq_scale_shift_b32 L (fsq_code_b32 L k)) =? k) (zrange L).
Definition fsq_sym_level_roundtrip_ok (c : conv) (L : Z) : bool :=
  forallb (fun k => to_digit c (fsq_sym_scale_shift_b32 L (fsq_sym_code_b32 L k)) =? k) (zrange L).
Definition lq_level_roundtrip_ok (c : conv) (L : Z) : bool :=
  forallb (fun k => to_digit c (lq_scale_shift_b32 L (lq_code_b32 L k)) =? k) (zrange L).
Definition fsq_codebook_roundtrip_ok (c : conv) (levels : list Z) : bool :=
  forallb (fun i => fsq_codes_to_index_intsum c levels (fsq_index_to_code_b32 levels i) =? i)
          (zrange (prod levels)).

(* C17: the documented loss formulas, over the reals (proofs) - written from the documentation, not from the code.
   The correspondence recomputes them independently on the implementation's inputs.  No proofs here. *)
From Coq Require Import ZArith Reals List Bool.
From VQ Require Import Num Model.Vec.
From VQ.Gen Require Import g_vq_commit.
Import ListNotations.
Open Scope R_scope.

Definition rsum (l : list R) : R := fold_right Rplus 0 l.
Definition rmean (l : list R) : R := rsum l / INR (length l).
(* mean squared error over all entries *)
Definition mse_all (a b : list R) : R := rmean (map2 (fun x y => (x - y) ^ 2) a b).
(* VQ loss: commitment_weight * mse(input, selected code) + orthogonal_reg_weight * penalty *)
Definition vq_loss (cw ow : R) (x q : list R) (orth : R) : R := cw * mse_all q x + ow * orth.
(* orthogonality penalty of n unit-normalised codes (one head): sum_ij <c_i, c_j>^2 / n^2 - 1/n *)
Definition orth_penalty (codes : list (list R)) : R :=
  let n := INR (length codes) in
  rsum (map (fun ci => rsum (map (fun cj => (dot R_ops ci cj) ^ 2) codes)) codes) / (n * n) - 1 / n.
(* SimVQ: commitment_weight * (mse(code, stopped input) + w * mse(input, stopped code)) -- same value for both terms *)
Definition simvq_loss (cw w : R) (x q : list R) : R := cw * (mse_all x q + w * mse_all x q).
(* clamped entropy: - sum p ln(max(p, eps)) *)
Definition centropy (eps : R) (p : list R) : R := - rsum (map (fun pi => pi * ln (Rmax pi eps)) p).
Definition mean_dist (ps : list (list R)) : list R :=
  match ps with
  | [] => []
  | p0 :: _ => map (fun j => rmean (map (fun p => nth j p 0) ps)) (seq 0 (length p0))
  end.
(* LFQ: entropy_loss_weight * (mean per-token entropy - gamma * entropy of the mean distribution) + commitment *)
Definition lfq_aux (ew gamma cw eps : R) (ps : list (list R)) (commit : R) : R :=
  ew * (rmean (map (centropy eps) ps) - gamma * centropy eps (mean_dist ps)) + cw * commit.
(* every loss term is zero in evaluation mode: the commitment term is added only under the guard of the source
   (since /repo 440ad65 a call with `indices=` computes it too and then returns the cross-entropy loss instead of the aggregate) *)
Definition commit_term (has_commit training : bool) (cw mse : R) : R :=
  if g_vq_commit has_commit training then cw * mse else 0.
Definition is_dist (p : list R) : Prop := Forall (fun x => 0 <= x) p /\ rsum p = 1.

(* pinned source text of Gen item pat_fsq_decode (tools/mkpin.py); the item itself is regenerated from /repo on every run *)
From Coq Require Import List String.
From VQ.Gen Require Import pat_fsq_decode.
Import ListNotations.
Open Scope string_scope.
Definition pinned_pat_fsq_decode : list (string * string) :=
  [("rearrange", "... c d -> ... (c d)");
   ("rearrange", "b ... d -> b d ...")].
Lemma pin_pat_fsq_decode : pat_fsq_decode = pinned_pat_fsq_decode.
Proof. reflexivity. Qed.

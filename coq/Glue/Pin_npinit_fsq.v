(* pinned source text of Gen item npinit_fsq (tools/mkpin.py); the item itself is regenerated from /repo on every run *)
From Coq Require Import List String.
From VQ.Gen Require Import npinit_fsq.
Import ListNotations.
Open Scope string_scope.
Definition pinned_npinit_fsq : list string :=
  ["_basis=_basis";
   "_levels=_levels";
   "implicit_codebook=implicit_codebook";
   "local _levels=torch.tensor(levels, dtype=int32)";
   "local _basis=torch.cumprod(torch.tensor([1] + levels[:-1]), dim=0, dtype=int32)";
   "local implicit_codebook=self._indices_to_codes(torch.arange(self.codebook_size))";
   "local self.codebook_size=self._levels.prod().item()"].
Lemma pin_npinit_fsq : npinit_fsq = pinned_npinit_fsq.
Proof. reflexivity. Qed.

(* pinned source text of Gen item p_decode (tools/mkpin.py); the item itself is regenerated from /repo on every run *)
From Coq Require Import List String.
From VQ.Gen Require Import p_decode.
Import ListNotations.
Open Scope string_scope.
Definition pinned_p_decode : list string :=
  ["VectorQuantize.get_codes_from_indices:codebook = self.codebook";
   "VectorQuantize.get_codes_from_indices:is_multiheaded = codebook.ndim > 2";
   "VectorQuantize.get_codes_from_indices:if not is_multiheaded:     codes = codebook[indices]     if self.heads > 1:         codes = rearrange(codes, '... h d -> ... (h d)') else:     indices, unpack_one = pack_one(indices, 'b * h')     indices = rearrange(indices, 'b n h -> b h n')     indices = repeat(indices, 'b h n -> b h n d', d=codebook.shape[-1])     codebook = repeat(codebook, 'h n d -> b h n d', b=indices.shape[0])     codes = codebook.gather(2, indices)     codes = rearrange(codes, 'b h n d -> b n (h d)')     codes = unpack_one(codes, 'b * d')";
   "VectorQuantize.get_codes_from_indices:if not self.channel_last:     codes = rearrange(codes, 'b ... d -> b d ...')";
   "VectorQuantize.get_codes_from_indices:return codes";
   "VectorQuantize.get_output_from_indices:codes = self.get_codes_from_indices(indices)";
   "VectorQuantize.get_output_from_indices:if self.channel_last:     return self.project_out(codes)";
   "VectorQuantize.get_output_from_indices:codes = rearrange(codes, 'b d ... -> b ... d')";
   "VectorQuantize.get_output_from_indices:return rearrange(self.project_out(codes), 'b ... d -> b d ...')";
   "SimVQ.indices_to_codes:implicit_codebook = self.codebook";
   "SimVQ.indices_to_codes:frozen_codes = get_at('[c] d, b ... -> b ... d', self.frozen_codebook, indices)";
   "SimVQ.indices_to_codes:quantized = self.code_transform(frozen_codes)";
   "SimVQ.indices_to_codes:if self.channel_first:     quantized = rearrange(quantized, 'b ... d -> b d ...')";
   "SimVQ.indices_to_codes:return quantized";
   "FSQ.indices_to_codes:assert exists(indices)";
   "FSQ.indices_to_codes:is_img_or_video = indices.ndim >= 3 + int(self.keep_num_codebooks_dim)";
   "FSQ.indices_to_codes:codes = self._indices_to_codes(indices)";
   "FSQ.indices_to_codes:if self.keep_num_codebooks_dim:     codes = rearrange(codes, '... c d -> ... (c d)')";
   "FSQ.indices_to_codes:codes = self.project_out(codes)";
   "FSQ.indices_to_codes:if is_img_or_video or self.channel_first:     codes = rearrange(codes, 'b ... d -> b d ...')";
   "FSQ.indices_to_codes:return codes";
   "LFQ.indices_to_codes:is_img_or_video = indices.ndim >= 3 + int(self.keep_num_codebooks_dim)";
   "LFQ.indices_to_codes:should_transpose = default(self.channel_first, is_img_or_video)";
   "LFQ.indices_to_codes:if not self.keep_num_codebooks_dim:     indices = rearrange(indices, '... -> ... 1')";
   "LFQ.indices_to_codes:bits = (indices[..., None].int() & self.mask != 0).to(self.dtype)";
   "LFQ.indices_to_codes:codes = self.bits_to_codes(bits)";
   "LFQ.indices_to_codes:codes = self.maybe_l2norm(codes)";
   "LFQ.indices_to_codes:codes = rearrange(codes, '... c d -> ... (c d)')";
   "LFQ.indices_to_codes:if project_out:     codes = self.project_out(codes)";
   "LFQ.indices_to_codes:if should_transpose:     codes = rearrange(codes, 'b ... d -> b d ...')";
   "LFQ.indices_to_codes:return codes";
   "LatentQuantize.indices_to_codes:indices = rearrange(indices, '... -> ... 1')";
   "LatentQuantize.indices_to_codes:codes_non_centered = indices // self._basis % self._levels";
   "LatentQuantize.indices_to_codes:codes = self._scale_and_shift_inverse(codes_non_centered)";
   "LatentQuantize.indices_to_codes:if self.keep_num_codebooks_dim:     codes = rearrange(codes, '... c d -> ... (c d)')";
   "LatentQuantize.indices_to_codes:if project_out:     codes = self.project_out(codes)";
   "LatentQuantize.indices_to_codes:codes = rearrange(codes, 'b ... d -> b d ...')";
   "LatentQuantize.indices_to_codes:return codes"].
Lemma pin_p_decode : p_decode = pinned_p_decode.
Proof. reflexivity. Qed.

(* pinned source text of Gen item p_fsq_quantize (tools/mkpin.py); the item itself is regenerated from /repo on every run *)
From Coq Require Import List String.
From VQ.Gen Require Import p_fsq_quantize.
Import ListNotations.
Open Scope string_scope.
Definition pinned_p_fsq_quantize : list string :=
  ["sym:self.symmetry_preserving_bound(z)";
   "plain:round_ste(self.bound(z)) / half_width";
   "eval-return-guard:not self.training";
   "round_ste:z + (zhat - z).detach()|z.round()";
   "floor_ste:z + (zhat - z).detach()|z.floor()";
   "preserve_symmetry=self.preserve_symmetry"].
Lemma pin_p_fsq_quantize : p_fsq_quantize = pinned_p_fsq_quantize.
Proof. reflexivity. Qed.

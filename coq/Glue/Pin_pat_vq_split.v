(* pinned source text of Gen item pat_vq_split (tools/mkpin.py); the item itself is regenerated from /repo on every run *)
From Coq Require Import List String.
From VQ.Gen Require Import pat_vq_split.
Import ListNotations.
Open Scope string_scope.
Definition pinned_pat_vq_split : list (string * string) :=
  [("rearrange", "f'b n (h d) -> {ein_rhs_eq}'")].
Lemma pin_pat_vq_split : pat_vq_split = pinned_pat_vq_split.
Proof. reflexivity. Qed.

(* pinned source text of Gen item npinit_lfq (tools/mkpin.py); the item itself is regenerated from /repo on every run *)
From Coq Require Import List String.
From VQ.Gen Require Import npinit_lfq.
Import ListNotations.
Open Scope string_scope.
Definition pinned_npinit_lfq : list string :=
  ["codebook=codebook.float()";
   "zero=torch.tensor(0.0)";
   "local codebook=self.bits_to_codes(bits)";
   "local bits=(all_codes[..., None].int() & self.mask != 0).float()";
   "local all_codes=torch.arange(codebook_size)"].
Lemma pin_npinit_lfq : npinit_lfq = pinned_npinit_lfq.
Proof. reflexivity. Qed.

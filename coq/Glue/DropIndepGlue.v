From Coq Require Import Bool String List Arith.
From VQ Require Import Model.GroupCat Model.DropIndep.
From VQ.Gen Require Import o_dropped_branch.
Import ListNotations.
Open Scope string_scope.

(* in /repo's CURRENT source the dropped branch of every residual stack mentions the output lists and the null constants only, and ends in `continue` *)
Theorem source_dropped_branches_pure :
  branch_pure "rvq" true o_dropped_branch && branch_pure "rfsq" false o_dropped_branch && branch_pure "rlfq" true o_dropped_branch && branch_pure "rsvq" true o_dropped_branch = true.
Proof. vm_compute. reflexivity. Qed.

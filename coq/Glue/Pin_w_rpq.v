(* pinned source text of Gen item w_rpq (tools/mkpin.py); the item itself is regenerated from /repo on every run *)
From Coq Require Import List String.
From VQ.Gen Require Import w_rpq.
Import ListNotations.
Open Scope string_scope.
Definition pinned_w_rpq : list string :=
  ["RandomProjectionQuantizer.forward:self.vq:eval()"].
Lemma pin_w_rpq : w_rpq = pinned_w_rpq.
Proof. reflexivity. Qed.

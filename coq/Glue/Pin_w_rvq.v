(* pinned source text of Gen item w_rvq (tools/mkpin.py); the item itself is regenerated from /repo on every run *)
From Coq Require Import List String.
From VQ.Gen Require Import w_rvq.
Import ListNotations.
Open Scope string_scope.
Definition pinned_w_rvq : list string :=
  ["ResidualVQ.forward:shared_layer:expire_codes_"].
Lemma pin_w_rvq : w_rvq = pinned_w_rvq.
Proof. reflexivity. Qed.

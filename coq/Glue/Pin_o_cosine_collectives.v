(* pinned source text of Gen item o_cosine_collectives (tools/mkpin.py); the item itself is regenerated from /repo on every run *)
From Coq Require Import List String.
From VQ.Gen Require Import o_cosine_collectives.
Import ListNotations.
Open Scope string_scope.
Definition pinned_o_cosine_collectives : list (string * string) :=
  [("self.init_embed_", "flatten");
   ("self.gumbel_sample", "dist");
   ("self.all_reduce_fn", "bins");
   ("ema_inplace", "self.cluster_size.data, bins, self.decay");
   ("self.all_reduce_fn", "embed_sum");
   ("ema_inplace", "self.embed_avg.data, embed_sum, self.decay");
   ("self.update_ema", "");
   ("self.expire_codes_", "x")].
Lemma pin_o_cosine_collectives : o_cosine_collectives = pinned_o_cosine_collectives.
Proof. reflexivity. Qed.

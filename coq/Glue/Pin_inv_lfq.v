(* pinned source text of Gen item inv_lfq (tools/mkpin.py); the item itself is regenerated from /repo on every run *)
From Coq Require Import List String.
From VQ Require Import Model.Inventory.
From VQ.Gen Require Import inv_lfq.
Import ListNotations.
Open Scope string_scope.
Definition pinned_inv_lfq : list (string * kind * bool) :=
  [("codebook", Buffer, false);
   ("mask", Buffer, true);
   ("zero", Buffer, false)].
Lemma pin_inv_lfq : inv_lfq = pinned_inv_lfq.
Proof. reflexivity. Qed.

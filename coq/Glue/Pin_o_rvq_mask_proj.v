(* pinned source text of Gen item o_rvq_mask_proj (tools/mkpin.py); the item itself is regenerated from /repo on every run *)
From Coq Require Import List String.
From VQ.Gen Require Import o_rvq_mask_proj.
Import ListNotations.
Open Scope string_scope.
Definition pinned_o_rvq_mask_proj : list (string * string) :=
  [("x.masked_fill", "~rearrange(mask, 'b n -> b n 1'), 0.0");
   ("self.project_in", "x")].
Lemma pin_o_rvq_mask_proj : o_rvq_mask_proj = pinned_o_rvq_mask_proj.
Proof. reflexivity. Qed.

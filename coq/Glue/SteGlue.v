(* Glue for the straight-through estimators, regenerated from the source as value kernels with `detach` abstract (Gen/k_*_ste.v ...):
   (1) VALUE: with detach = identity the expression evaluates to the quantized value (the forward value of the output is the selected code);
   (2) GRADIENT SHAPE: with the detached sub-expression frozen at a constant d (what autograd does), the expression is  input + d :
       affine in the input with slope one and independent of the code - the identity Jacobian the C07 theorems assume. *)
From Coq Require Import Reals Lra.
From VQ Require Import Num.
From VQ.Gen Require Import k_vq_ste k_vq_sync_update k_fsq_round_ste k_simvq_ste k_lq_ste k_gumbel_st k_lfq_ste.
Open Scope R_scope.

Lemma glue_vq_ste_value (x q : R) : k_vq_ste R_ops (fun v => v) x q = q.
Proof. unfold k_vq_ste; cbn; lra. Qed.
Lemma glue_vq_ste_slope (x q d : R) : k_vq_ste R_ops (fun _ => d) x q = x + d.
Proof. unfold k_vq_ste; cbn; lra. Qed.

(* synchronous update (21): value unchanged; with the detached copy frozen at c the map is q + v (q - c), slope 1 + v in the code *)
Lemma glue_vq_sync_value (q v : R) : k_vq_sync_update R_ops (fun t => t) q v = q.
Proof. unfold k_vq_sync_update; cbn; lra. Qed.
Lemma glue_vq_sync_slope (q v c : R) : k_vq_sync_update R_ops (fun _ => c) q v = (1 + v) * q - v * c.
Proof. unfold k_vq_sync_update; cbn; lra. Qed.

Lemma glue_fsq_round_ste_value (rnd : R -> R) (z : R) : k_fsq_round_ste R_ops rnd (fun v => v) z = rnd z.
Proof. unfold k_fsq_round_ste; cbn; lra. Qed.
Lemma glue_fsq_round_ste_slope (rnd : R -> R) (z d : R) : k_fsq_round_ste R_ops rnd (fun _ => d) z = z + d.
Proof. unfold k_fsq_round_ste; cbn; lra. Qed.

Lemma glue_simvq_ste_value (x q : R) : k_simvq_ste R_ops (fun v => v) x q = q.
Proof. unfold k_simvq_ste; cbn; lra. Qed.
Lemma glue_simvq_ste_slope (x q d : R) : k_simvq_ste R_ops (fun _ => d) x q = x + d.
Proof. unfold k_simvq_ste; cbn; lra. Qed.

Lemma glue_lq_ste_value (x q : R) : k_lq_ste R_ops (fun v => v) x q = q.
Proof. unfold k_lq_ste; cbn; lra. Qed.
Lemma glue_lq_ste_slope (x q d : R) : k_lq_ste R_ops (fun _ => d) x q = x + d.
Proof. unfold k_lq_ste; cbn; lra. Qed.

Lemma glue_lfq_ste_slope (a q d : R) : k_lfq_ste R_ops (fun _ => d) a q = a + d.
Proof. unfold k_lfq_ste; cbn; lra. Qed.

(* straight-through Gumbel one-hot: the value is the hard one-hot, the gradient flows through the soft probabilities *)
Lemma glue_gumbel_st_value (h p : R) : k_gumbel_st R_ops (fun v => v) h p = h.
Proof. unfold k_gumbel_st; cbn; lra. Qed.
Lemma glue_gumbel_st_slope (h p c : R) : k_gumbel_st R_ops (fun _ => c) h p = p + (h - c).
Proof. unfold k_gumbel_st; cbn; lra. Qed.

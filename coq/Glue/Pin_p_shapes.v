(* pinned source text of Gen item p_shapes (tools/mkpin.py); the item itself is regenerated from /repo on every run *)
From Coq Require Import List String.
From VQ.Gen Require Import p_shapes.
Import ListNotations.
Open Scope string_scope.
Definition pinned_p_shapes : list string :=
  ["rotate_to.squeeze_args=1|";
   "rotate_to.pack=pack_one(src, '* d')";
   "rotate_to.return=inverse(rotated)";
   "rotation.e=rearrange(e, 'b d -> b 1 d')";
   "fsq.index_dtype=(zhat.round().to(int32) * self._basis).sum(dim=-1).to(int32)";
   "lq.index_dtype=(zhat.round().to(int32) * self._basis).sum(dim=-1).to(int32)";
   "lfq.indices=reduce((quantized > 0).int() * self.mask.int(), 'b n c d -> b n c', 'sum')";
   "ResidualVQ.null_indices_shape = (x.shape[0], *x.shape[-2:]) if self.accept_image_fmap else tuple(x.shape[:2])";
   "ResidualVQ.null_indices = torch.full(null_indices_shape, -1.0, device=device, dtype=torch.long)";
   "ResidualVQ.null_loss = torch.full((1,), 0.0, device=device, dtype=x.dtype)";
   "ResidualFSQ.null_indices = torch.full(x.shape[:2], -1.0, device=device, dtype=torch.long)";
   "ResidualLFQ.null_indices = torch.full(x.shape[:2], -1.0, device=device, dtype=torch.long)";
   "ResidualLFQ.null_loss = torch.tensor(0.0, device=device, dtype=x.dtype)";
   "ResidualSimVQ.null_indices_shape = (x.shape[0], *x.shape[2:]) if self.channel_first else tuple(x.shape[:2])";
   "ResidualSimVQ.null_indices = torch.full(null_indices_shape, -1.0, device=device, dtype=torch.long)";
   "ResidualSimVQ.null_loss = torch.full((), 0.0, device=device, dtype=x.dtype)";
   "vq.only_one = x.ndim == 2";
   "vq.loss = torch.tensor([0.0], device=device, requires_grad=self.training)"].
Lemma pin_p_shapes : p_shapes = pinned_p_shapes.
Proof. reflexivity. Qed.

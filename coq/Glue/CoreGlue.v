(* Tie between what vlib/srcgen.py regenerates from /repo (Gen) and the codebook model.  Arithmetic kernels are
   compared semantically (ring / field / case analysis), guards by exhaustive case analysis on their atoms, so an
   equivalent rewrite of the source keeps compiling while a semantic change breaks the lemma. *)
From Coq Require Import ZArith List Bool String Reals Lra Lia.
From VQ Require Import Num Model.Vec Model.Core.
From VQ.Gen Require Import k_cdist k_ema_inplace k_laplace k_expire_cmp k_update_ema_denom k_safe_div
  g_euclid_ema g_euclid_update_ema g_euclid_expire g_euclid_replace g_euclid_kmeans g_euclid_mask_onehot
  g_cosine_ema g_cosine_update_ema g_cosine_expire g_cosine_replace g_cosine_kmeans g_cosine_mask_onehot
  g_gumbel_noise g_rvq_shared_update g_rvq_shared_expire g_rvq_shared_opt g_vq_inplace_opt g_vq_inplace_step
  o_euclid_collectives o_cosine_collectives o_kmeans_collectives.
Import ListNotations.

Open Scope R_scope.
(* ---------------- scalar kernels *)
Lemma glue_ema_inplace (old new decay : R) : k_ema_inplace R_ops old new decay = decay * old + (1 - decay) * new.
Proof. unfold k_ema_inplace, lerp; cbn. ring. Qed.

Lemma glue_laplace (x n eps denom : R) : denom + n * eps <> 0 ->
  k_laplace R_ops x n eps denom = (x + eps) / (denom + n * eps).
Proof. intros H. unfold k_laplace; cbn. reflexivity. Qed.

Lemma glue_cdist (x2 y2 xy : R) : k_cdist R_ops sqrt x2 y2 xy = sqrt (Rmax 0 (x2 + y2 - 2 * xy)).
Proof.
  unfold k_cdist, fmax; cbn. unfold Rleb. f_equal.
  destruct (Rle_dec (x2 + y2 + xy * -2) 0) as [H|H].
  - rewrite Rmax_left; lra.
  - rewrite Rmax_right; lra.
Qed.

Lemma glue_expire_cmp (c thr : R) : k_expire_cmp R_ops c thr = true <-> c < thr.
Proof. unfold k_expire_cmp; cbn. apply Rltb_true. Qed.

Lemma glue_safe_div (num den eps : R) : k_safe_div R_ops num den eps = num / Rmax den eps.
Proof.
  unfold k_safe_div, fmax; cbn. unfold Rleb. f_equal.
  destruct (Rle_dec den eps) as [H|H]; [rewrite Rmax_right | rewrite Rmax_left]; lra.
Qed.
Close Scope R_scope.

(* ---------------- guards: value for every assignment of the atoms, and the atoms themselves *)
Open Scope string_scope.
Lemma glue_ema_guard (freeze ema training : bool) :
  g_euclid_ema freeze ema training = (training && ema && negb freeze)%bool /\
  g_cosine_ema freeze ema training = (training && ema && negb freeze)%bool.
Proof. destruct freeze, ema, training; split; reflexivity. Qed.
Lemma glue_ema_guard_atoms :
  g_euclid_ema_atoms = ["freeze_codebook"; "self_ema_update"; "self_training"] /\
  g_cosine_ema_atoms = ["freeze_codebook"; "self_ema_update"; "self_training"].
Proof. split; reflexivity. Qed.

Lemma glue_update_guard (freeze ema manual training : bool) :
  g_euclid_update_ema freeze ema manual training = (training && ema && negb freeze && negb manual)%bool /\
  g_cosine_update_ema freeze ema manual training = (training && ema && negb freeze && negb manual)%bool /\
  g_euclid_expire freeze ema manual training = (training && ema && negb freeze && negb manual)%bool /\
  g_cosine_expire freeze ema manual training = (training && ema && negb freeze && negb manual)%bool.
Proof. destruct freeze, ema, manual, training; repeat split; reflexivity. Qed.
Lemma glue_update_guard_atoms :
  g_euclid_update_ema_atoms = ["freeze_codebook"; "self_ema_update"; "self_manual_ema_update"; "self_training"] /\
  g_cosine_update_ema_atoms = ["freeze_codebook"; "self_ema_update"; "self_manual_ema_update"; "self_training"] /\
  g_euclid_expire_atoms = ["freeze_codebook"; "self_ema_update"; "self_manual_ema_update"; "self_training"] /\
  g_cosine_expire_atoms = ["freeze_codebook"; "self_ema_update"; "self_manual_ema_update"; "self_training"].
Proof. repeat split; reflexivity. Qed.

Lemma glue_replace_guard (thr0 anyexp : bool) :
  g_euclid_replace thr0 anyexp = (negb thr0 && anyexp)%bool /\ g_cosine_replace thr0 anyexp = (negb thr0 && anyexp)%bool.
Proof. destruct thr0, anyexp; split; reflexivity. Qed.
Lemma glue_replace_guard_atoms :
  g_euclid_replace_atoms = ["self_threshold_ema_dead_code_eq_0"; "torch_any_expired_codes"] /\
  g_cosine_replace_atoms = ["self_threshold_ema_dead_code_eq_0"; "torch_any_expired_codes"].
Proof. split; reflexivity. Qed.

Lemma glue_kmeans_guard (init : bool) : g_euclid_kmeans init = negb init /\ g_cosine_kmeans init = negb init.
Proof. destruct init; split; reflexivity. Qed.
Lemma glue_kmeans_guard_atoms : g_euclid_kmeans_atoms = ["self_initted"] /\ g_cosine_kmeans_atoms = ["self_initted"].
Proof. split; reflexivity. Qed.

Lemma glue_mask_onehot_guard (has_mask freeze ema training : bool) :
  g_euclid_mask_onehot has_mask freeze ema training = (training && ema && negb freeze && has_mask)%bool /\
  g_cosine_mask_onehot has_mask freeze ema training = (training && ema && negb freeze && has_mask)%bool.
Proof. destruct has_mask, freeze, ema, training; split; reflexivity. Qed.
Lemma glue_mask_onehot_guard_atoms :
  g_euclid_mask_onehot_atoms = ["exists_mask"; "freeze_codebook"; "self_ema_update"; "self_training"] /\
  g_cosine_mask_onehot_atoms = ["exists_mask"; "freeze_codebook"; "self_ema_update"; "self_training"].
Proof. split; reflexivity. Qed.

Lemma glue_gumbel_guard (stochastic temp_pos training : bool) :
  g_gumbel_noise stochastic temp_pos training = (training && stochastic && temp_pos)%bool.
Proof. destruct stochastic, temp_pos, training; reflexivity. Qed.
Lemma glue_gumbel_guard_atoms : g_gumbel_noise_atoms = ["stochastic"; "temperature_gt_0"; "training"].
Proof. reflexivity. Qed.

Lemma glue_shared_guards (freeze shared training : bool) :
  g_rvq_shared_update freeze shared training = (training && shared && negb freeze)%bool /\
  g_rvq_shared_expire freeze shared training = (training && shared && negb freeze)%bool /\
  g_rvq_shared_opt freeze shared training = (training && shared && negb freeze)%bool.
Proof. destruct freeze, shared, training; repeat split; reflexivity. Qed.
Lemma glue_shared_guards_atoms :
  g_rvq_shared_update_atoms = ["freeze_codebook"; "self_shared_codebook"; "self_training"] /\
  g_rvq_shared_expire_atoms = ["freeze_codebook"; "self_shared_codebook"; "self_training"] /\
  g_rvq_shared_opt_atoms = ["freeze_codebook"; "self_shared_codebook"; "self_training"].
Proof. repeat split; reflexivity. Qed.

Lemma glue_inplace_guards (freeze manual training should : bool) :
  g_vq_inplace_opt freeze training should = (should && training && negb freeze)%bool /\
  g_vq_inplace_step freeze manual training should = (should && training && negb freeze && negb manual)%bool.
Proof. destruct freeze, manual, training, should; split; reflexivity. Qed.
Lemma glue_inplace_guards_atoms :
  g_vq_inplace_opt_atoms = ["freeze_codebook"; "self_training"; "should_inplace_optimize"] /\
  g_vq_inplace_step_atoms = ["freeze_codebook"; "self_manual_in_place_optimizer_update"; "self_training"; "should_inplace_optimize"].
Proof. split; reflexivity. Qed.

(* ---------------- pinned dataflow: the order of statistics, normalisation and expiry inside the codebook forward *)
Definition step_order : list string :=
  ["self.init_embed_"; "self.gumbel_sample"; "self.all_reduce_fn"; "ema_inplace"; "self.all_reduce_fn"; "ema_inplace"; "self.update_ema"; "self.expire_codes_"].
Lemma glue_step_order : map fst o_euclid_collectives = step_order /\ map fst o_cosine_collectives = step_order.
Proof. split; reflexivity. Qed.
Lemma glue_update_ema_expr : k_update_ema_denom =
  ["laplace_smoothing(self.cluster_size, self.codebook_size, self.eps) * self.cluster_size.sum(dim=-1, keepdim=True)";
   "self.embed_avg / rearrange(cluster_size, '... -> ... 1')"].
Proof. reflexivity. Qed.

(* ---------------- pinned selection dataflow: score expressions, argmax / argmin sites, lookup *)
From VQ.Gen Require Import p_select o_rpq_eval.
Lemma glue_select_pinned : p_select =
  ["gumbel.ind=sampling_logits.argmax(dim=dim)";
   "gumbel.sampling_logits=logits / temperature + gumbel_noise(logits)";
   "gumbel.sampling_logits=logits";
   "EuclideanCodebook.embed=self.embed if self.learnable_codebook else self.embed.detach()";
   "EuclideanCodebook.embed=(embed - self.codebook_mean) * (batch_std / codebook_std) + self.batch_mean";
   "EuclideanCodebook.dist=unpack_one(dist, 'h * d')";
   "EuclideanCodebook.dist=-F.pairwise_distance(broadcastable_input, transformed_embed)";
   "EuclideanCodebook.dist=-cdist(flatten, embed)";
   "EuclideanCodebook.quantize=einsum('h b n c, h b n c d -> h b n d', unpacked_onehot, transformed_embed)";
   "EuclideanCodebook.quantize=einsum('h b n c, h c d -> h b n d', unpacked_onehot, embed)";
   "EuclideanCodebook.quantize=einx.get_at('h b n [c] d, h b n -> h b n d', transformed_embed, embed_ind)";
   "EuclideanCodebook.quantize=einx.get_at('h [c] d, h b n -> h b n d', embed, embed_ind)";
   "EuclideanCodebook.select=self.gumbel_sample(dist, dim=-1, temperature=sample_codebook_temp, training=self.training)";
   "CosineSimCodebook.embed=self.embed if self.learnable_codebook else self.embed.detach()";
   "CosineSimCodebook.dist=unpack_one(dist, 'h * d')";
   "CosineSimCodebook.dist=einsum('h n d, h n c d -> h n c', flatten, transformed_embed)";
   "CosineSimCodebook.dist=einsum('h n d, h c d -> h n c', flatten, embed)";
   "CosineSimCodebook.quantize=einsum('h b n c, h b n c d -> h b n d', unpacked_onehot, transformed_embed)";
   "CosineSimCodebook.quantize=einsum('h b n c, h c d -> h b n d', unpacked_onehot, embed)";
   "CosineSimCodebook.quantize=einx.get_at('h b n [c] d, h b n -> h b n d', transformed_embed, embed_ind)";
   "CosineSimCodebook.quantize=einx.get_at('h [c] d, h b n -> h b n d', embed, embed_ind)";
   "CosineSimCodebook.select=self.gumbel_sample(dist, dim=-1, temperature=sample_codebook_temp, training=self.training)";
   "cosine.transform_input=l2norm";
   "euclid.transform_input=identity";
   "simvq.dist=torch.cdist(x, implicit_codebook)";
   "simvq.indices=dist.argmin(dim=-1)";
   "simvq.indices=inverse_pack(indices, 'b *')";
   "simvq.quantized=get_at('[c] d, b n -> b n d', implicit_codebook, indices)";
   "latent.index=torch.stack([torch.argmin(distance(z[..., i, None], self.values_per_latent[i]), dim=-1) for i in range(self.codebook_dim)], dim=-1)";
   "latent.quantize=torch.stack([self.values_per_latent[i][index[..., i]] for i in range(self.codebook_dim)], dim=-1)";
   "latent.distance=torch.abs(x - y)"].
Proof. reflexivity. Qed.
Lemma glue_rpq_forces_eval : map fst o_rpq_eval = ["self.vq.eval"; "self.vq"].
Proof. reflexivity. Qed.

(* pinned source text of Gen item pat_rvq_decode (tools/mkpin.py); the item itself is regenerated from /repo on every run *)
From Coq Require Import List String.
From VQ.Gen Require Import pat_rvq_decode.
Import ListNotations.
Open Scope string_scope.
Definition pinned_pat_rvq_decode : list (string * string) :=
  [("pack", "b * q");
   ("get_at", "q [c] d, b n q -> q b n d");
   ("get_at", "b n [c] d, b n -> b n d");
   ("get_at", "[c] d, b n -> b n d");
   ("rearrange", "b n q -> q b n 1");
   ("unpack", "q b * d")].
Lemma pin_pat_rvq_decode : pat_rvq_decode = pinned_pat_rvq_decode.
Proof. reflexivity. Qed.

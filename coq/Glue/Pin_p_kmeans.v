(* pinned source text of Gen item p_kmeans (tools/mkpin.py); the item itself is regenerated from /repo on every run *)
From Coq Require Import List String.
From VQ.Gen Require Import p_kmeans.
Import ListNotations.
Open Scope string_scope.
Definition pinned_p_kmeans : list string :=
  ["kmeans.init:sample_fn(samples, num_clusters)";
   "kmeans.loop:range(num_iters)";
   "kmeans.body:if use_cosine_sim:     dists = samples @ rearrange(means, 'h n d -> h d n') else:     dists = -cdist(samples, means)";
   "kmeans.body:buckets = torch.argmax(dists, dim=-1)";
   "kmeans.body:bins = batched_bincount(buckets, minlength=num_clusters)";
   "kmeans.body:all_reduce_fn(bins)";
   "kmeans.body:zero_mask = bins == 0";
   "kmeans.body:bins_min_clamped = bins.masked_fill(zero_mask, 1)";
   "kmeans.body:new_means = buckets.new_zeros(num_codebooks, num_clusters, dim, dtype=dtype)";
   "kmeans.body:new_means.scatter_add_(1, repeat(buckets, 'h n -> h n d', d=dim), samples)";
   "kmeans.body:new_means = new_means / rearrange(bins_min_clamped, '... -> ... 1')";
   "kmeans.body:all_reduce_fn(new_means)";
   "kmeans.body:if use_cosine_sim:     new_means = l2norm(new_means)";
   "kmeans.body:means = torch.where(rearrange(zero_mask, '... -> ... 1'), means, new_means)";
   "kmeans.return:(means, bins)";
   "bincount:batch, dtype, device = (x.shape[0], x.dtype, x.device)";
   "bincount:target = torch.zeros(batch, minlength, dtype=dtype, device=device)";
   "bincount:values = torch.ones_like(x)";
   "bincount:target.scatter_add_(-1, x, values)";
   "bincount:return target";
   "EuclideanCodebook.init:if self.initted:     return";
   "EuclideanCodebook.init:if exists(mask):     c = data.shape[0]     data = rearrange(data[mask], '(c n) d -> c n d', c=c)";
   "EuclideanCodebook.init:embed, cluster_size = kmeans(data, self.codebook_size, self.kmeans_iters, sample_fn=self.sample_fn, all_reduce_fn=self.kmeans_all_reduce_fn)";
   "EuclideanCodebook.init:embed_sum = embed * rearrange(cluster_size, '... -> ... 1')";
   "EuclideanCodebook.init:self.embed.data.copy_(embed)";
   "EuclideanCodebook.init:self.embed_avg.data.copy_(embed_sum)";
   "EuclideanCodebook.init:self.cluster_size.data.copy_(cluster_size)";
   "EuclideanCodebook.init:self.initted.data.copy_(torch.Tensor([True]))";
   "EuclideanCodebook.initted_buffer:self.register_buffer('initted', torch.Tensor([not kmeans_init]))";
   "EuclideanCodebook.call:self.init_embed_(flatten, mask=mask)";
   "CosineSimCodebook.init:if self.initted:     return";
   "CosineSimCodebook.init:if exists(mask):     c = data.shape[0]     data = rearrange(data[mask], '(c n) d -> c n d', c=c)";
   "CosineSimCodebook.init:embed, cluster_size = kmeans(data, self.codebook_size, self.kmeans_iters, use_cosine_sim=True, sample_fn=self.sample_fn, all_reduce_fn=self.kmeans_all_reduce_fn)";
   "CosineSimCodebook.init:embed_sum = embed * rearrange(cluster_size, '... -> ... 1')";
   "CosineSimCodebook.init:self.embed.data.copy_(embed)";
   "CosineSimCodebook.init:self.embed_avg.data.copy_(embed_sum)";
   "CosineSimCodebook.init:self.cluster_size.data.copy_(cluster_size)";
   "CosineSimCodebook.init:self.initted.data.copy_(torch.Tensor([True]))";
   "CosineSimCodebook.initted_buffer:self.register_buffer('initted', torch.Tensor([not kmeans_init]))";
   "CosineSimCodebook.call:self.init_embed_(flatten, mask=mask)"].
Lemma pin_p_kmeans : p_kmeans = pinned_p_kmeans.
Proof. reflexivity. Qed.

(* pinned source text of Gen item inv_fsq (tools/mkpin.py); the item itself is regenerated from /repo on every run *)
From Coq Require Import List String.
From VQ Require Import Model.Inventory.
From VQ.Gen Require Import inv_fsq.
Import ListNotations.
Open Scope string_scope.
Definition pinned_inv_fsq : list (string * kind * bool) :=
  [("_basis", Buffer, false);
   ("_levels", Buffer, false);
   ("implicit_codebook", Buffer, false)].
Lemma pin_inv_fsq : inv_fsq = pinned_inv_fsq.
Proof. reflexivity. Qed.

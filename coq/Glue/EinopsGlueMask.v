(* Glue: einops patterns regenerated from /repo (Gen/pr_vq.v), interpreted by Model/Einops.v, denote the index maps of Model/Layout.v.
   One file per group of sites so that a changed pattern breaks only the obligations of the properties that depend on that site. *)
From Coq Require Import String List Arith Lia.
From VQ Require Import Model.Einops Model.Layout Glue.EinopsGlueBase.
From VQ.Gen Require Import pr_vq.
Import ListNotations.
Open Scope string_scope.

Section Glue.
Context {A : Type}.

(* ---- mask replication into the flattened (codebook, (batch head), tokens) layout: token (b, h, n) is valid iff mask[b][n] *)
Lemma einops_mask_repeat : exists p, role_pattern pr_vq "VectorQuantize.forward:loss_mask" "repeat" 0 = Some p /\ wf_repeat p = true /\
  forall (e : env) (M : nat -> nat -> A) c bh n,
    0 < e "h" -> c < e "c" -> bh < e "b" * e "h" -> n < e "n" ->
    rearr p e (of2 M) [c; bh; n] = M (bh / e "h") n.
Proof. glue. Qed.

(* both occurrences (in-place optimiser loss, commitment loss) use the same replication *)
Lemma einops_mask_repeat_same : find_role pr_vq "VectorQuantize.forward:loss_mask" "repeat" 0 = find_role pr_vq "VectorQuantize.forward:loss_mask" "repeat" 1.
Proof. vm_compute; reflexivity. Qed.

End Glue.

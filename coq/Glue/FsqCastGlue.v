(* FSQ.forward computes the flat index from the float32 codes before the cast back to the activation dtype (regenerated call sequence). *)
From Coq Require Import List Bool String Arith.
From VQ Require Import Model.NonFinite.
From VQ.Gen Require Import o_fsq_index_cast.
Import ListNotations.
Open Scope string_scope.

Definition index_before_cast (calls : list (string * string)) : bool :=
  match first_pos ["self.codes_to_indices"] calls 0, first_pos ["codes.to"; "codes.type"; "self.quantize(z).to"] calls 0, first_pos ["self.quantize"] calls 0 with
  | Some i, Some c, Some q => Nat.ltb q i && Nat.ltb i c
  | Some i, None, Some q => Nat.ltb q i
  | _, _, _ => false
  end.
Lemma fsq_index_before_cast : index_before_cast o_fsq_index_cast = true.
Proof. vm_compute. reflexivity. Qed.

(* pinned source text of Gen item p_grad (tools/mkpin.py); the item itself is regenerated from /repo on every run *)
From Coq Require Import List String.
From VQ.Gen Require Import p_grad.
Import ListNotations.
Open Scope string_scope.
Definition pinned_p_grad : list string :=
  ["vq:maybe_detach = torch.detach if not self.learnable_codebook or freeze_codebook else identity";
   "vq:commit_quantize = maybe_detach(quantize)";
   "vq:loss = F.mse_loss(quantize, x.detach(), reduction='none')";
   "vq:loss = F.mse_loss(quantize, x.detach())";
   "vq:quantize = quantize + self.sync_update_v * (quantize - quantize.detach())";
   "vq:quantize = x + (quantize - x).detach()";
   "rotate_to:rotated = rotated_tgt * safe_div(norm_tgt, norm_src).detach()";
   "rotation:w = l2norm(u + q, dim=1).detach()";
   "rotation:return e - 2 * (e @ rearrange(w, 'b d -> b d 1') @ rearrange(w, 'b d -> b 1 d')) + 2 * (e @ rearrange(u, 'b d -> b d 1').detach() @ rearrange(q, 'b d -> b 1 d').detach())";
   "euclid:embed = self.embed if self.learnable_codebook else self.embed.detach()";
   "cosine:embed = self.embed if self.learnable_codebook else self.embed.detach()";
   "gumbel:one_hot = one_hot + π1 - π1.detach()";
   "simvq:with torch.no_grad(): dist = torch.cdist(x, implicit_codebook) ; indices = dist.argmin(dim=-1)";
   "simvq:commit_loss = F.mse_loss(x.detach(), quantized) + F.mse_loss(x, quantized.detach()) * self.input_to_quantize_commit_loss_weight";
   "simvq:quantized = (quantized - x).detach() + x";
   "round_ste:return z + (zhat - z).detach()";
   "floor_ste:return z + (zhat - z).detach()";
   "lfq:x = x + (quantized - x).detach()";
   "lfq:commit_loss = F.mse_loss(original_input, quantized.detach(), reduction='none')";
   "latent:quantize = z + (quantize - z).detach()";
   "latent:return F.mse_loss(zhat.detach(), z, reduction=reduce)";
   "latent:return F.mse_loss(z.detach(), zhat, reduction=reduce)";
   "ResidualVQ:residual = residual - quantized.detach()";
   "ResidualFSQ:residual = residual - quantized.detach()";
   "ResidualLFQ:residual = residual - quantized.detach()";
   "ResidualSimVQ:residual = residual - quantized.detach()";
   "vq.rotate_call:rotate_to(x, quantize)";
   "vq.sync_update:quantize = quantize + self.sync_update_v * (quantize - quantize.detach())"].
Lemma pin_p_grad : p_grad = pinned_p_grad.
Proof. reflexivity. Qed.

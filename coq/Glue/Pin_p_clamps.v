(* pinned source text of Gen item p_clamps (tools/mkpin.py); the item itself is regenerated from /repo on every run *)
From Coq Require Import List String.
From VQ.Gen Require Import p_clamps.
Import ListNotations.
Open Scope string_scope.
Definition pinned_p_clamps : list string :=
  ["l2norm:F.normalize(t, p=2, dim=dim, eps=eps) | defaults -1, 1e-06";
   "safe_div:num / den.clamp(min=eps) | defaults 1e-06";
   "cdist:(rearrange(x2, 'b i -> b i 1') + rearrange(y2, 'b j -> b 1 j') + xy).clamp(min=0).sqrt()";
   "log:torch.log(t.clamp(min=eps)) | defaults 1e-20";
   "entropy:(-prob * log(prob, eps=eps)).sum(dim=-1) | defaults 1e-05";
   "laplace:(x + eps) / (denom + n_categories * eps) | defaults 1e-05, -1";
   "kmeans.clamp:bins.masked_fill(zero_mask, 1) ; bins == 0";
   "lfq.log:t.clamp(min=eps).log() | defaults 1e-05";
   "fsq.bound:half_l = (self._levels - 1) * (1 + eps) / 2 ; offset = torch.where(self._levels % 2 == 0, 0.5, 0.0) ; shift = (offset / half_l).atanh() ; return (z + shift).tanh() * half_l - offset | eps default 0.001";
   "lfq.cosine_sim_linear:x = F.normalize(x, dim=-1) ; w = F.normalize(self.weight, dim=0) ; return x @ w * self.scale";
   "rotate_to:norm_src = src.norm(dim=-1, keepdim=True) ; norm_tgt = tgt.norm(dim=-1, keepdim=True) ; rotated_tgt = efficient_rotation_trick_transform(safe_div(src, norm_src), safe_div(tgt, norm_tgt), src).squeeze(1) ; rotated = rotated_tgt * safe_div(norm_tgt, norm_src).detach()"].
Lemma pin_p_clamps : p_clamps = pinned_p_clamps.
Proof. reflexivity. Qed.

(* pinned source text of Gen item pat_vq_forward (tools/mkpin.py); the item itself is regenerated from /repo on every run *)
From Coq Require Import List String.
From VQ.Gen Require Import pat_vq_forward.
Import ListNotations.
Open Scope string_scope.
Definition pinned_pat_vq_forward : list (string * string) :=
  [("rearrange", "b d -> b 1 d");
   ("rearrange", "b c h w -> b (h w) c");
   ("rearrange", "b d n -> b n d");
   ("einx.where", "b n, b n d, -> b n d");
   ("repeat", "b n -> c (b h) n");
   ("rearrange", "$dist_einops_eq");
   ("rearrange", "h b n -> b n h");
   ("rearrange", "1 (b h) n -> b n h");
   ("reduce", "... n l -> n l");
   ("repeat", "b n -> b n h");
   ("repeat", "b n -> c (b h) n");
   ("rearrange", "b (h w) ... -> b h w ...");
   ("rearrange", "b 1 ... -> b ...");
   ("rearrange", "h b n d -> b n (h d)");
   ("rearrange", "1 (b h) n d -> b n (h d)");
   ("rearrange", "b n d -> b d n");
   ("rearrange", "b (h w) c -> b c h w");
   ("rearrange", "b 1 d -> b d");
   ("einx.where", "b n, b n d, b n d -> b n d");
   ("einx.where", "b n, b n ..., -> b n ...")].
Lemma pin_pat_vq_forward : pat_vq_forward = pinned_pat_vq_forward.
Proof. reflexivity. Qed.

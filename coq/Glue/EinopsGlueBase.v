(* Glue (common definitions and tactics): the einops patterns REGENERATED from /repo (Gen/pr_vq.v, Gen/pr_scalar.v: role of the result, call, pattern string), parsed and
   interpreted by Model/Einops.v, denote exactly the index maps of Model/Layout.v on which the layout theorems (C10, C01 public-level
   selection, C02 / C05 codebook split and merge, C09 mask replication) are proved.  A change of a pattern in the source - '(b h)' into
   '(h b)', a swapped axis, a different grouping - makes the corresponding lemma false, i.e. breaks an obligation. *)
From Coq Require Import String List Arith Lia.
From VQ Require Import Model.Einops Model.Layout.
Import ListNotations.
Open Scope string_scope.

Definition of2 {A} (X : nat -> nat -> A) : list nat -> A := fun l => X (nth 0 l 0) (nth 1 l 0).
Definition of3 {A} (X : nat -> nat -> nat -> A) : list nat -> A := fun l => X (nth 0 l 0) (nth 1 l 0) (nth 2 l 0).
Definition of4 {A} (X : nat -> nat -> nat -> nat -> A) : list nat -> A := fun l => X (nth 0 l 0) (nth 1 l 0) (nth 2 l 0) (nth 3 l 0).
(* tensors with a leading unit axis ('1 (b h) n d') *)
Definition of1_3 {A} (X : nat -> nat -> nat -> A) : list nat -> A := fun l => X (nth 1 l 0) (nth 2 l 0) (nth 3 l 0).
Definition of1_2 {A} (X : nat -> nat -> A) : list nat -> A := fun l => X (nth 1 l 0) (nth 2 l 0).

Definition fwd := "VectorQuantize.forward".

Ltac glue_start :=
  eexists; split; [vm_compute; reflexivity | split; [vm_compute; reflexivity |]]; intros;
  unfold rearr, index_map, of2, of3, of4, of1_2, of1_3,
    img_in, img_out, img_idx_out, cfirst_in, cfirst_out, heads_sep_in, heads_sep_out, heads_sep_idx,
    heads_shared_in, heads_shared_out, heads_shared_idx, cb_split, cb_merge;
  cbn -[Nat.modulo Nat.div Nat.mul Nat.add];
  rewrite ?Nat.mul_0_l, ?Nat.add_0_l.

Lemma div_lt_mul : forall x a b, x < a * b -> x / b < a.
Proof. intros x a b H. apply Nat.div_lt_upper_bound; [ intro; subst; lia | lia ]. Qed.

Ltac glue_mod :=
  repeat match goal with
  | |- context [ (?x / ?d) mod ?m ] => rewrite (Nat.mod_small (x / d) m) by (apply div_lt_mul; lia)
  | |- context [ ?x mod ?m ] => rewrite (Nat.mod_small x m) by lia
  end.

Ltac glue := glue_start; glue_mod; try reflexivity; f_equal; lia.


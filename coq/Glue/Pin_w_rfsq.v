(* pinned source text of Gen item w_rfsq (tools/mkpin.py); the item itself is regenerated from /repo on every run *)
From Coq Require Import List String.
From VQ.Gen Require Import w_rfsq.
Import ListNotations.
Open Scope string_scope.
Definition pinned_w_rfsq : list string :=
  [].
Lemma pin_w_rfsq : w_rfsq = pinned_w_rfsq.
Proof. reflexivity. Qed.

(* pinned source text of Gen item pat_fsq_forward (tools/mkpin.py); the item itself is regenerated from /repo on every run *)
From Coq Require Import List String.
From VQ.Gen Require Import pat_fsq_forward.
Import ListNotations.
Open Scope string_scope.
Definition pinned_pat_fsq_forward : list (string * string) :=
  [("rearrange", "b d ... -> b ... d");
   ("pack_one", "b * d");
   ("rearrange", "b n (c d) -> b n c d");
   ("rearrange", "b n c d -> b n (c d)");
   ("unpack_one", "b * d");
   ("rearrange", "b ... d -> b d ...")].
Lemma pin_pat_fsq_forward : pat_fsq_forward = pinned_pat_fsq_forward.
Proof. reflexivity. Qed.

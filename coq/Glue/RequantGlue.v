(* the forward that /repo's CURRENT bindings yield is the consistent one *)
From Coq Require Import Bool String List Reals Lia.
From VQ Require Import Num Model.Vec Model.Core Proofs.CoreNearest Model.Requant Proofs.RequantProofs.
From VQ.Gen Require Import o_vq_codebook_calls.
Import ListNotations.

Theorem source_requantizes_everything (step : list Rv -> list Rv -> list nat -> list Rv) (cb xs : list Rv) :
  forward_from_bindings step o_vq_codebook_calls cb xs = Some (inplace_forward step cb xs).
Proof. reflexivity. Qed.

Theorem source_forward_consistent (step : list Rv -> list Rv -> list nat -> list Rv) (cb xs : list Rv) (d : nat) (r : result) :
  forward_from_bindings step o_vq_codebook_calls cb xs = Some r ->
  r_cb r <> [] -> shaped d (r_cb r) -> Forall (fun x => length x = d) xs ->
  consistent xs r nearest_rel.
Proof.
  intros H. rewrite source_requantizes_everything in H. injection H as H. subst r.
  apply inplace_forward_consistent.
Qed.

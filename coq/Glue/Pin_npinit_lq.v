(* pinned source text of Gen item npinit_lq (tools/mkpin.py); the item itself is regenerated from /repo on every run *)
From Coq Require Import List String.
From VQ.Gen Require Import npinit_lq.
Import ListNotations.
Open Scope string_scope.
Definition pinned_npinit_lq : list string :=
  ["_basis=_basis";
   "_levels=_levels";
   "commitment_loss_weight=torch.tensor(commitment_loss_weight, dtype=torch.float32)";
   "implicit_codebook=implicit_codebook";
   "quantization_loss_weight=torch.tensor(quantization_loss_weight, dtype=torch.float32)";
   "local _levels=torch.tensor(levels, dtype=int32)";
   "local _basis=torch.cumprod(torch.concat([torch.tensor([1], dtype=int32), _levels[:-1]], dim=0), dim=0)";
   "local implicit_codebook=self.indices_to_codes(torch.arange(self.codebook_size), project_out=False)";
   "local self.codebook_size=self._levels.prod().item()"].
Lemma pin_npinit_lq : npinit_lq = pinned_npinit_lq.
Proof. reflexivity. Qed.

(* pinned source text of Gen item o_vq_mask_proj (tools/mkpin.py); the item itself is regenerated from /repo on every run *)
From Coq Require Import List String.
From VQ.Gen Require Import o_vq_mask_proj.
Import ListNotations.
Open Scope string_scope.
Definition pinned_o_vq_mask_proj : list (string * string) :=
  [("einx.where", "'b n, b n d, -> b n d', mask, x, 0.0");
   ("self.project_in", "x");
   ("einx.where", "'b n, b n d, b n d -> b n d', mask, quantize, masked_out_value");
   ("einx.where", "'b n, b n ..., -> b n ...', mask, embed_ind, -1")].
Lemma pin_o_vq_mask_proj : o_vq_mask_proj = pinned_o_vq_mask_proj.
Proof. reflexivity. Qed.

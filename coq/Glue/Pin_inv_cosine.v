(* pinned source text of Gen item inv_cosine (tools/mkpin.py); the item itself is regenerated from /repo on every run *)
From Coq Require Import List String.
From VQ Require Import Model.Inventory.
From VQ.Gen Require Import inv_cosine.
Import ListNotations.
Open Scope string_scope.
Definition pinned_inv_cosine : list (string * kind * bool) :=
  [("cluster_size", Buffer, true);
   ("embed", Buffer, true);
   ("embed", Param, true);
   ("embed_avg", Buffer, true);
   ("initted", Buffer, true)].
Lemma pin_inv_cosine : inv_cosine = pinned_inv_cosine.
Proof. reflexivity. Qed.

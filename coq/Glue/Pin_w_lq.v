(* pinned source text of Gen item w_lq (tools/mkpin.py); the item itself is regenerated from /repo on every run *)
From Coq Require Import List String.
From VQ.Gen Require Import w_lq.
Import ListNotations.
Open Scope string_scope.
Definition pinned_w_lq : list string :=
  ["LatentQuantize.forward:loss:backward()";
   "LatentQuantize.forward:self.in_place_codebook_optimizer:step()";
   "LatentQuantize.forward:self.in_place_codebook_optimizer:zero_grad()"].
Lemma pin_w_lq : w_lq = pinned_w_lq.
Proof. reflexivity. Qed.

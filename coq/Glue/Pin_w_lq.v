(* pinned source text of Gen item w_lq (tools/mkpin.py); the item itself is regenerated from /repo on every run *)
From Coq Require Import List String.
From VQ.Gen Require Import w_lq.
Import ListNotations.
Open Scope string_scope.
Lemma pin_w_lq : w_lq =
  ["LatentQuantize.forward:loss:backward()";
   "LatentQuantize.forward:self.in_place_codebook_optimizer:step()";
   "LatentQuantize.forward:self.in_place_codebook_optimizer:zero_grad()"].
Proof. reflexivity. Qed.

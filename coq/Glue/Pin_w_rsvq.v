(* pinned source text of Gen item w_rsvq (tools/mkpin.py); the item itself is regenerated from /repo on every run *)
From Coq Require Import List String.
From VQ.Gen Require Import w_rsvq.
Import ListNotations.
Open Scope string_scope.
Definition pinned_w_rsvq : list string :=
  [].
Lemma pin_w_rsvq : w_rsvq = pinned_w_rsvq.
Proof. reflexivity. Qed.

(* The three mask applications of VectorQuantize.forward (padded rows zeroed on entry; padded outputs and padded indices overwritten on exit) are
   guarded by "a mask was given" and by nothing else - not by the training flag (seed C09-k), not by a hyper-parameter that can change on the live
   module (seed C13-k).  The guards are regenerated from /repo; a guard with another atom makes these statements ill-typed. *)
From Coq Require Import List Bool String.
From VQ.Gen Require Import g_vq_zero_padded_input g_vq_mask_output g_vq_mask_indices.
Import ListNotations.
Open Scope string_scope.

Theorem vq_mask_guards_are_mask_given : forall m : bool,
  g_vq_zero_padded_input m = m /\ g_vq_mask_output m = m /\ g_vq_mask_indices m = m.
Proof. intros m. repeat split; reflexivity. Qed.

Theorem vq_mask_guard_atoms :
  g_vq_zero_padded_input_atoms = ["exists_mask"] /\ g_vq_mask_output_atoms = ["exists_mask"] /\ g_vq_mask_indices_atoms = ["exists_mask"].
Proof. repeat split; reflexivity. Qed.

(* whatever the mode and the hyper-parameters are: with a mask, all three run; without, none *)
Theorem vq_mask_applications_independent_of_mode (training : bool) (hyper : list bool) (m : bool) :
  (g_vq_zero_padded_input m, g_vq_mask_output m, g_vq_mask_indices m) = (m, m, m).
Proof. reflexivity. Qed.

(* the axes /repo's CURRENT source concatenates on *)
From Coq Require Import Arith List Bool String.
From VQ Require Import Model.GroupCat.
From VQ.Gen Require Import p_residual.
Import ListNotations.
Open Scope string_scope.

(* forward: on split_dim, i.e. axis 1 for channel-first inputs and the last axis otherwise - all three grouped classes *)
Theorem source_forward_axes : forall image : bool,
  map (fun tag => forward_axis tag image p_residual) ["grvq"; "grfsq"; "grlfq"] =
  map (fun _ => Some (if image then Ax1 else AxLast)) ["grvq"; "grfsq"; "grlfq"].
Proof. intros [|]; vm_compute; reflexivity. Qed.
Theorem source_split_dims : forallb (fun tag => split_dim_ok tag p_residual) ["grvq"; "grfsq"; "grlfq"] = true.
Proof. vm_compute; reflexivity. Qed.
(* decode: GroupedResidualVQ (fix cb34132) and GroupedResidualLFQ (fix d220fe9) concatenate on the last axis for BOTH layouts *)
Theorem source_decode_axes_vq_lfq : forall image : bool,
  decode_axis "grvq" image p_residual = Some AxLast /\ decode_axis "grlfq" image p_residual = Some AxLast.
Proof. intros [|]; split; vm_compute; reflexivity. Qed.
(* GroupedResidualFSQ still decodes on split_dim: the last axis for sequences; its forward rejects channel-first inputs (loudly), so no decode of
   forward-returned image indices exists *)
Theorem source_decode_axis_fsq_sequences : decode_axis "grfsq" false p_residual = Some AxLast.
Proof. vm_compute; reflexivity. Qed.

(* pinned source text of Gen item inv_vq (tools/mkpin.py); the item itself is regenerated from /repo on every run *)
From Coq Require Import List String.
From VQ Require Import Model.Inventory.
From VQ.Gen Require Import inv_vq.
Import ListNotations.
Open Scope string_scope.
Definition pinned_inv_vq : list (string * kind * bool) :=
  [("zero", Buffer, false)].
Lemma pin_inv_vq : inv_vq = pinned_inv_vq.
Proof. reflexivity. Qed.

(* pinned source text of Gen item w_cosine (tools/mkpin.py); the item itself is regenerated from /repo on every run *)
From Coq Require Import List String.
From VQ.Gen Require Import w_cosine.
Import ListNotations.
Open Scope string_scope.
Definition pinned_w_cosine : list string :=
  ["CosineSimCodebook.forward:embed_onehot:setitem";
   "CosineSimCodebook.forward:self:expire_codes_";
   "CosineSimCodebook.forward:self:init_embed_";
   "CosineSimCodebook.init_embed_:self.cluster_size.data:copy_";
   "CosineSimCodebook.init_embed_:self.embed.data:copy_";
   "CosineSimCodebook.init_embed_:self.embed_avg.data:copy_";
   "CosineSimCodebook.init_embed_:self.initted.data:copy_";
   "CosineSimCodebook.replace:self.cluster_size.data[ind]:setitem";
   "CosineSimCodebook.replace:self.embed.data[ind]:setitem";
   "CosineSimCodebook.replace:self.embed_avg.data[ind]:setitem";
   "CosineSimCodebook.update_ema:self.embed.data:copy_"].
Lemma pin_w_cosine : w_cosine = pinned_w_cosine.
Proof. reflexivity. Qed.

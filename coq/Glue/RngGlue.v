(* The four residual forwards draw the quantize-dropout depth from a private random.Random(seed) instance, so by Proofs/RngSchedProofs.v the depth
   of a call is the depth of its own seed under every interleaving with another call. *)
From Coq Require Import ZArith List Bool String.
From VQ Require Import Model.RngSched.
From VQ.Proofs Require Import RngSchedProofs.
From VQ.Gen Require Import o_rvq_rng o_rfsq_rng o_rlfq_rng o_rsvq_rng.
Import ListNotations.

Lemma residual_forwards_use_private_rng :
  uses_private_rng o_rvq_rng = true /\ uses_private_rng o_rfsq_rng = true /\ uses_private_rng o_rlfq_rng = true /\ uses_private_rng o_rsvq_rng = true.
Proof. vm_compute. repeat split; reflexivity. Qed.

(* the step function selected by the source: private cells iff the call sequence constructs its own generator *)
Definition step_of (St : Type) (seedf : Z -> St) (draw : St -> Z * St) (calls : list (string * string)) :=
  if uses_private_rng calls then step_private St seedf draw else step_shared St seedf draw.

Theorem rvq_depth_schedule_independent (St : Type) (seedf : Z -> St) (draw : St -> Z * St) (s1 s2 : Z) (sched : list op) :
  In sched (merge (prog false s1) (prog true s2)) ->
  res1 St (run St (step_of St seedf draw o_rvq_rng) sched) = Some (depth_of St seedf draw s1)
  /\ res2 St (run St (step_of St seedf draw o_rvq_rng) sched) = Some (depth_of St seedf draw s2).
Proof. unfold step_of. destruct residual_forwards_use_private_rng as [H _]. rewrite H. apply private_schedule_independent. Qed.
Theorem rfsq_depth_schedule_independent (St : Type) (seedf : Z -> St) (draw : St -> Z * St) (s1 s2 : Z) (sched : list op) :
  In sched (merge (prog false s1) (prog true s2)) ->
  res1 St (run St (step_of St seedf draw o_rfsq_rng) sched) = Some (depth_of St seedf draw s1)
  /\ res2 St (run St (step_of St seedf draw o_rfsq_rng) sched) = Some (depth_of St seedf draw s2).
Proof. unfold step_of. destruct residual_forwards_use_private_rng as [_ [H _]]. rewrite H. apply private_schedule_independent. Qed.
Theorem rlfq_depth_schedule_independent (St : Type) (seedf : Z -> St) (draw : St -> Z * St) (s1 s2 : Z) (sched : list op) :
  In sched (merge (prog false s1) (prog true s2)) ->
  res1 St (run St (step_of St seedf draw o_rlfq_rng) sched) = Some (depth_of St seedf draw s1)
  /\ res2 St (run St (step_of St seedf draw o_rlfq_rng) sched) = Some (depth_of St seedf draw s2).
Proof. unfold step_of. destruct residual_forwards_use_private_rng as [_ [_ [H _]]]. rewrite H. apply private_schedule_independent. Qed.
Theorem rsvq_depth_schedule_independent (St : Type) (seedf : Z -> St) (draw : St -> Z * St) (s1 s2 : Z) (sched : list op) :
  In sched (merge (prog false s1) (prog true s2)) ->
  res1 St (run St (step_of St seedf draw o_rsvq_rng) sched) = Some (depth_of St seedf draw s1)
  /\ res2 St (run St (step_of St seedf draw o_rsvq_rng) sched) = Some (depth_of St seedf draw s2).
Proof. unfold step_of. destruct residual_forwards_use_private_rng as [_ [_ [_ H]]]. rewrite H. apply private_schedule_independent. Qed.

(* pinned source text of Gen item o_euclid_collectives (tools/mkpin.py); the item itself is regenerated from /repo on every run *)
From Coq Require Import List String.
From VQ.Gen Require Import o_euclid_collectives.
Import ListNotations.
Open Scope string_scope.
Definition pinned_o_euclid_collectives : list (string * string) :=
  [("self.init_embed_", "flatten");
   ("self.gumbel_sample", "dist");
   ("self.all_reduce_fn", "cluster_size");
   ("ema_inplace", "self.cluster_size.data, cluster_size, self.decay");
   ("self.all_reduce_fn", "embed_sum");
   ("ema_inplace", "self.embed_avg.data, embed_sum, self.decay");
   ("self.update_ema", "");
   ("self.expire_codes_", "x")].
Lemma pin_o_euclid_collectives : o_euclid_collectives = pinned_o_euclid_collectives.
Proof. reflexivity. Qed.

(* pinned source text of Gen item inv_lq (tools/mkpin.py); the item itself is regenerated from /repo on every run *)
From Coq Require Import List String.
From VQ Require Import Model.Inventory.
From VQ.Gen Require Import inv_lq.
Import ListNotations.
Open Scope string_scope.
Definition pinned_inv_lq : list (string * kind * bool) :=
  [("_basis", Buffer, false);
   ("_levels", Buffer, false);
   ("commitment_loss_weight", Buffer, false);
   ("implicit_codebook", Buffer, false);
   ("quantization_loss_weight", Buffer, false);
   ("values_per_latent", Param, true)].
Lemma pin_inv_lq : inv_lq = pinned_inv_lq.
Proof. reflexivity. Qed.

(* pinned source text of Gen item p_dist (tools/mkpin.py); the item itself is regenerated from /repo on every run *)
From Coq Require Import List String.
From VQ.Gen Require Import p_dist.
Import ListNotations.
Open Scope string_scope.
Definition pinned_p_dist : list string :=
  ["vq.is_distributed:distributed.is_initialized() and distributed.get_world_size() > 1";
   "vq.sync_default:if not exists(sync_codebook):     sync_codebook = is_distributed()";
   "vq.use_ddp:sync_codebook";
   "EuclideanCodebook.self.sample_fn=sample_vectors_distributed if use_ddp and sync_kmeans else batched_sample_vectors";
   "EuclideanCodebook.self.replace_sample_fn=sample_vectors_distributed if use_ddp and sync_kmeans else batched_sample_vectors";
   "EuclideanCodebook.self.kmeans_all_reduce_fn=distributed.all_reduce if use_ddp and sync_kmeans else noop";
   "EuclideanCodebook.self.all_reduce_fn=distributed.all_reduce if use_ddp else noop";
   "CosineSimCodebook.self.sample_fn=sample_vectors_distributed if use_ddp and sync_kmeans else batched_sample_vectors";
   "CosineSimCodebook.self.replace_sample_fn=sample_vectors_distributed if use_ddp and sync_kmeans else batched_sample_vectors";
   "CosineSimCodebook.self.kmeans_all_reduce_fn=distributed.all_reduce if use_ddp and sync_kmeans else noop";
   "CosineSimCodebook.self.all_reduce_fn=distributed.all_reduce if use_ddp else noop";
   "sample_vectors_distributed:local_samples = rearrange(local_samples, '1 ... -> ...')";
   "sample_vectors_distributed:rank = distributed.get_rank()";
   "sample_vectors_distributed:all_num_samples = all_gather_sizes(local_samples, dim=0)";
   "sample_vectors_distributed:if rank == 0:     samples_per_rank = sample_multinomial(num, all_num_samples / all_num_samples.sum()) else:     samples_per_rank = torch.empty_like(all_num_samples)";
   "sample_vectors_distributed:distributed.broadcast(samples_per_rank, src=0)";
   "sample_vectors_distributed:samples_per_rank = samples_per_rank.tolist()";
   "sample_vectors_distributed:local_samples = sample_vectors(local_samples, samples_per_rank[rank])";
   "sample_vectors_distributed:all_samples = all_gather_variably_sized(local_samples, samples_per_rank, dim=0)";
   "sample_vectors_distributed:out = torch.cat(all_samples, dim=0)";
   "sample_vectors_distributed:return rearrange(out, '... -> 1 ...')";
   "all_gather_variably_sized:rank = distributed.get_rank()";
   "all_gather_variably_sized:all_x = []";
   "all_gather_variably_sized:for i, size in enumerate(sizes):     t = x if i == rank else x.new_empty(pad_shape(x.shape, size, dim))     distributed.broadcast(t, src=i, async_op=True)     all_x.append(t)";
   "all_gather_variably_sized:distributed.barrier()";
   "all_gather_variably_sized:return all_x";
   "sample_multinomial:device = probs.device";
   "sample_multinomial:probs = probs.cpu()";
   "sample_multinomial:total_count = probs.new_full((), total_count)";
   "sample_multinomial:remainder = probs.new_ones(())";
   "sample_multinomial:sample = torch.empty_like(probs, dtype=torch.long)";
   "sample_multinomial:for i, p in enumerate(probs):     s = torch.binomial(total_count, p / remainder)     sample[i] = s     total_count -= s     remainder -= p";
   "sample_multinomial:assert total_count == 0, f'invalid total count {total_count}'";
   "sample_multinomial:return sample.to(device)";
   "rvq.seed:rand_int = torch.randint(0, max_size, (), device=device)";
   "rvq.seed:if is_distributed():     dist.all_reduce(rand_int)";
   "rvq.seed:return rand_int.item()";
   "rfsq.seed:rand_int = torch.randint(0, max_size, (), device=device)";
   "rfsq.seed:if is_distributed():     dist.all_reduce(rand_int)";
   "rfsq.seed:return rand_int.item()";
   "rlfq.seed:rand_int = torch.randint(0, max_size, (), device=device)";
   "rlfq.seed:if is_distributed():     dist.all_reduce(rand_int)";
   "rlfq.seed:return rand_int.item()";
   "rsvq.seed:rand_int = torch.randint(0, max_size, (), device=device)";
   "rsvq.seed:if is_distributed():     dist.all_reduce(rand_int)";
   "rsvq.seed:return rand_int.item()";
   "lfq.mean:if not is_distributed():     return t";
   "lfq.mean:t = dist_nn.all_reduce(t)";
   "lfq.mean:t = t / dist.get_world_size()";
   "lfq.mean:return t";
   "lfq.avg:avg_prob = reduce(per_sample_probs, '... c d -> c d', 'mean')";
   "lfq.avg:avg_prob = maybe_distributed_mean(avg_prob)"].
Lemma pin_p_dist : p_dist = pinned_p_dist.
Proof. reflexivity. Qed.

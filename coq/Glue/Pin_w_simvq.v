(* pinned source text of Gen item w_simvq (tools/mkpin.py); the item itself is regenerated from /repo on every run *)
From Coq Require Import List String.
From VQ.Gen Require Import w_simvq.
Import ListNotations.
Open Scope string_scope.
Definition pinned_w_simvq : list string :=
  [].
Lemma pin_w_simvq : w_simvq = pinned_w_simvq.
Proof. reflexivity. Qed.

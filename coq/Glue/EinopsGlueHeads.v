(* Glue: einops patterns regenerated from /repo (Gen/pr_vq.v), interpreted by Model/Einops.v, denote the index maps of Model/Layout.v.
   One file per group of sites so that a changed pattern breaks only the obligations of the properties that depend on that site. *)
From Coq Require Import String List Arith Lia.
From VQ Require Import Model.Einops Model.Layout Glue.EinopsGlueBase.
From VQ.Gen Require Import pr_vq.
Import ListNotations.
Open Scope string_scope.

Section Glue.
Context {A : Type}.

Lemma einops_heads_shared_in : exists p,
  role_pattern pr_vq "VectorQuantize.maybe_split_heads_from_input:return@not (self.separate_codebook_per_head)" "rearrange" 0 = Some p /\ wf_rearrange p = true /\
  forall (e : env) (X : nat -> nat -> nat -> A) bh n d,
    bh < e "b" * e "h" -> n < e "n" -> d < e "d" ->
    rearr p e (of3 X) [0; bh; n; d] = heads_shared_in (e "h") (e "d") X bh n d.
Proof. glue. Qed.

Lemma einops_heads_sep_in : exists p,
  role_pattern pr_vq "VectorQuantize.maybe_split_heads_from_input:return@self.separate_codebook_per_head" "rearrange" 0 = Some p /\ wf_rearrange p = true /\
  forall (e : env) (X : nat -> nat -> nat -> A) h b n d,
    h < e "h" -> b < e "b" -> n < e "n" -> d < e "d" ->
    rearr p e (of3 X) [h; b; n; d] = heads_sep_in (e "d") X h b n d.
Proof. glue. Qed.

(* ---- indices *)
Lemma einops_heads_sep_idx : exists p, role_pattern pr_vq "VectorQuantize.forward:embed_ind" "rearrange" 0 = Some p /\ wf_rearrange p = true /\
  forall (e : env) (J : nat -> nat -> nat -> A) b n h,
    b < e "b" -> n < e "n" -> h < e "h" ->
    rearr p e (of3 J) [b; n; h] = heads_sep_idx J b n h.
Proof. glue. Qed.

Lemma einops_heads_shared_idx : exists p, role_pattern pr_vq "VectorQuantize.forward:embed_ind" "rearrange" 1 = Some p /\ wf_rearrange p = true /\
  forall (e : env) (J : nat -> nat -> A) b n h,
    b < e "b" -> n < e "n" -> h < e "h" ->
    rearr p e (of1_2 J) [b; n; h] = heads_shared_idx (e "h") J b n h.
Proof. glue. Qed.

(* ---- output side *)
Lemma einops_heads_sep_out : exists p, role_pattern pr_vq "VectorQuantize.forward:quantize" "rearrange" 0 = Some p /\ wf_rearrange p = true /\
  forall (e : env) (Q : nat -> nat -> nat -> nat -> A) b n x,
    b < e "b" -> n < e "n" -> x < e "h" * e "d" ->
    rearr p e (of4 Q) [b; n; x] = heads_sep_out (e "d") Q b n x.
Proof. glue. Qed.

Lemma einops_heads_shared_out : exists p, role_pattern pr_vq "VectorQuantize.forward:quantize" "rearrange" 1 = Some p /\ wf_rearrange p = true /\
  forall (e : env) (Q : nat -> nat -> nat -> A) b n x,
    b < e "b" -> n < e "n" -> x < e "h" * e "d" ->
    rearr p e (of1_3 Q) [b; n; x] = heads_shared_out (e "h") (e "d") Q b n x.
Proof. glue. Qed.

End Glue.

(* pinned source text of Gen item inv_euclid (tools/mkpin.py); the item itself is regenerated from /repo on every run *)
From Coq Require Import List String.
From VQ Require Import Model.Inventory.
From VQ.Gen Require Import inv_euclid.
Import ListNotations.
Open Scope string_scope.
Definition pinned_inv_euclid : list (string * kind * bool) :=
  [("batch_mean", Buffer, true);
   ("batch_variance", Buffer, true);
   ("cluster_size", Buffer, true);
   ("codebook_mean", Buffer, true);
   ("codebook_mean_needs_init", Buffer, true);
   ("codebook_variance", Buffer, true);
   ("codebook_variance_needs_init", Buffer, true);
   ("embed", Buffer, true);
   ("embed", Param, true);
   ("embed_avg", Buffer, true);
   ("initted", Buffer, true)].
Lemma pin_inv_euclid : inv_euclid = pinned_inv_euclid.
Proof. reflexivity. Qed.

(* pinned source text of Gen item p_simvq_codebook (tools/mkpin.py); the item itself is regenerated from /repo on every run *)
From Coq Require Import List String.
From VQ.Gen Require Import p_simvq_codebook.
Import ListNotations.
Open Scope string_scope.
Definition pinned_p_simvq_codebook : list string :=
  ["codebook=self.code_transform(self.frozen_codebook)";
   "frozen=torch.randn(codebook_size, frozen_codebook_dim) * frozen_codebook_dim ** (-0.5) ; init_fn(codebook)";
   "transform=codebook_transform";
   "decode=get_at('[c] d, b ... -> b ... d', self.frozen_codebook, indices) ; self.code_transform(frozen_codes)";
   "rpq.rand_projs = torch.empty(num_codebooks, dim, codebook_dim)";
   "rpq.nn.init.xavier_normal_(rand_projs)";
   "rpq.self.register_buffer('rand_projs', rand_projs)";
   "rpq.self.vq = VectorQuantize(dim=codebook_dim * num_codebooks, heads=num_codebooks, codebook_size=codebook_size, use_cosine_sim=True, separate_codebook_per_head=True, **kwargs)"].
Lemma pin_p_simvq_codebook : p_simvq_codebook = pinned_p_simvq_codebook.
Proof. reflexivity. Qed.

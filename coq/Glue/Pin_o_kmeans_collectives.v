(* pinned source text of Gen item o_kmeans_collectives (tools/mkpin.py); the item itself is regenerated from /repo on every run *)
From Coq Require Import List String.
From VQ.Gen Require Import o_kmeans_collectives.
Import ListNotations.
Open Scope string_scope.
Definition pinned_o_kmeans_collectives : list (string * string) :=
  [("sample_fn", "samples, num_clusters");
   ("cdist", "samples, means");
   ("torch.argmax", "dists");
   ("batched_bincount", "buckets");
   ("all_reduce_fn", "bins");
   ("all_reduce_fn", "new_means");
   ("l2norm", "new_means");
   ("torch.where", "rearrange(zero_mask, '... -> ... 1'), means, new_means")].
Lemma pin_o_kmeans_collectives : o_kmeans_collectives = pinned_o_kmeans_collectives.
Proof. reflexivity. Qed.

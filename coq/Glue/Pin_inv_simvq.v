(* pinned source text of Gen item inv_simvq (tools/mkpin.py); the item itself is regenerated from /repo on every run *)
From Coq Require Import List String.
From VQ Require Import Model.Inventory.
From VQ.Gen Require Import inv_simvq.
Import ListNotations.
Open Scope string_scope.
Definition pinned_inv_simvq : list (string * kind * bool) :=
  [("frozen_codebook", Buffer, true)].
Lemma pin_inv_simvq : inv_simvq = pinned_inv_simvq.
Proof. reflexivity. Qed.

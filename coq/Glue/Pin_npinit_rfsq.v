(* pinned source text of Gen item npinit_rfsq (tools/mkpin.py); the item itself is regenerated from /repo on every run *)
From Coq Require Import List String.
From VQ.Gen Require Import npinit_rfsq.
Import ListNotations.
Open Scope string_scope.
Definition pinned_npinit_rfsq : list string :=
  ["scales=torch.stack(scales)";
   "local levels_tensor=torch.Tensor(levels)"].
Lemma pin_npinit_rfsq : npinit_rfsq = pinned_npinit_rfsq.
Proof. reflexivity. Qed.

(* C13 tie: which squeeze the source applies in rotate_to (regenerated), and the shape theorem for exactly that squeeze *)
From Coq Require Import Arith List Bool String.
From VQ Require Import Model.Shapes Model.ShapesDoc Proofs.ShapesProofs.
From VQ.Gen Require Import p_shapes.
Import ListNotations.
Open Scope string_scope.

(* the squeeze call of rotate_to removes axis 1 only *)
Lemma glue_rotate_squeeze_is_dim1 : nth 0 p_shapes "" = "rotate_to.squeeze_args=1|".
Proof. reflexivity. Qed.
(* and with that squeeze the rotated tensor keeps the packed shape [tokens; dim] for every extent *)
Lemma glue_rotate_shape : forall m d, 1 <= m -> 1 <= d -> rotate_to_shape (squeeze_at 1) m d = Some [m; d].
Proof. exact rotate_shape_squeeze_dim. Qed.

(* the documented index shape agrees with the per-layout pipeline of VectorQuantize *)
Lemma glue_idx_doc_matches_layout (l : layout) (s : shape) (heads b n d : nat) :
  to_seq l s = Some (b, n, d) ->
  idx_from_seq l s heads (b, n) =
  idx_shape_doc (match l with Seq => 2 | _ => 1 end) s (if Nat.ltb 1 heads then [heads] else []) None.
Proof.
  intros H. rewrite (index_shape_documented l s heads b n d H).
  destruct l; destruct s as [|a0 [|b0 [|c0 [|d0 [|e0 t]]]]]; simpl in *; try discriminate;
    unfold trailing, idx_shape_doc; destruct (Nat.ltb 1 heads); simpl; rewrite ?app_nil_r; reflexivity.
Qed.

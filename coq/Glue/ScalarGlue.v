(* C05 tie: the scalar kernels regenerated from the source are the ones the theorems are about *)
From Coq Require Import ZArith Reals List Bool String Lra.
From Flocq Require Import Core.
From VQ Require Import Num Model.Vec Model.Scalar Proofs.ScalarProofs.
From VQ.Gen Require Import k_fsq_bound k_fsq_sym_bound k_lfq_quantize k_fsq_half_width k_lfq_ste.
Import ListNotations.
Open Scope R_scope.

(* FSQ.bound is tanh(z + atanh(offset / half_l)) * half_l - offset with half_l = (L - 1)(1 + eps) / 2 *)
Lemma glue_fsq_bound (eps : R) (L : Z) (z : R) :
  k_fsq_bound R_ops ath th z eps (IZR L) (fsq_offset L) = th (z + ath (fsq_offset L / ((IZR L - 1) * (1 + eps) / 2))) * ((IZR L - 1) * (1 + eps) / 2) - fsq_offset L.
Proof. reflexivity. Qed.
(* the symmetric bound is 2/(L-1) * floor((L-1)(tanh z + 1)/2 + 1/2) - 1 *)
Lemma glue_fsq_sym_bound (L : Z) (z : R) :
  k_fsq_sym_bound R_ops th (fun x => IZR (Zfloor x)) z (IZR L) = 2 / (IZR L - 1) * IZR (Zfloor ((IZR L - 1) * (th z + 1) / 2 + 1 / 2)) - 1.
Proof. reflexivity. Qed.
(* LFQ: +s iff x > 0 *)
Lemma glue_lfq (s x : R) : k_lfq_quantize R_ops x s = if Rlt_dec 0 x then s else - s.
Proof. unfold k_lfq_quantize; cbn. unfold Rltb. destruct (Rlt_dec 0 x); reflexivity. Qed.
(* the divisor of the quantized value is L // 2 *)
Lemma glue_half_width (L : Z) : k_fsq_half_width L = (L / 2)%Z.
Proof. reflexivity. Qed.
(* LFQ in training: whatever the straight-through activation returns (a), the forward VALUE a + detach(q - a) is the quantized value q
   (detach is the identity on values); in evaluation mode the source assigns `x = quantized` (checked by the generator) *)
Lemma glue_lfq_ste_value (a q : R) : k_lfq_ste R_ops (fun v => v) a q = q.
Proof. unfold k_lfq_ste; cbn. lra. Qed.

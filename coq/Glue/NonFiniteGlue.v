(* Tie of the non-finite projection theorems to the source: the zeroing order is read off the regenerated call sequences. *)
From Coq Require Import ZArith List Bool Reals String.
From VQ Require Import Num Model.Vec Model.NonFinite.
From VQ.Proofs Require Import NonFiniteProofs.
From VQ.Gen Require Import o_vq_mask_proj o_rvq_mask_proj.
Import ListNotations.

Lemma vq_zero_first : zero_first_of o_vq_mask_proj = true.
Proof. vm_compute. reflexivity. Qed.
Lemma rvq_zero_first : zero_first_of o_rvq_mask_proj = true.
Proof. vm_compute. reflexivity. Qed.

(* VectorQuantize.forward / ResidualVQ.forward, input projection under a mask: the weight gradient is finite and does not depend on the
   content of the padded rows - for every batch size, feature sizes and padding content including +-inf and nan *)
Theorem vq_projection_wgrad_finite (dout din : nat) (valid : list bool) (xs gs : list (list (xr R))) :
  rows_fin_on valid xs -> all_fin gs ->
  mfin (proj_wgrad R_ops (zero_first_of o_vq_mask_proj) dout din valid xs gs) = true.
Proof. intros Hx Hg. apply proj_wgrad_finite_of_order; [exact vq_zero_first | exact Hx | exact Hg]. Qed.

Theorem rvq_projection_wgrad_finite (dout din : nat) (valid : list bool) (xs gs : list (list (xr R))) :
  rows_fin_on valid xs -> all_fin gs ->
  mfin (proj_wgrad R_ops (zero_first_of o_rvq_mask_proj) dout din valid xs gs) = true.
Proof. intros Hx Hg. apply proj_wgrad_finite_of_order; [exact rvq_zero_first | exact Hx | exact Hg]. Qed.

Theorem vq_projection_padding_independent (dout din : nat) (W : list (list (xr R))) (b : list (xr R)) (valid : list bool) (xs xs' gs : list (list (xr R))) :
  agree valid xs xs' ->
  proj_out R_ops (zero_first_of o_vq_mask_proj) W b valid xs = proj_out R_ops (zero_first_of o_vq_mask_proj) W b valid xs'
  /\ proj_wgrad R_ops (zero_first_of o_vq_mask_proj) dout din valid xs gs = proj_wgrad R_ops (zero_first_of o_vq_mask_proj) dout din valid xs' gs.
Proof. rewrite vq_zero_first. apply zero_first_padding_independent. Qed.

Theorem rvq_projection_padding_independent (dout din : nat) (W : list (list (xr R))) (b : list (xr R)) (valid : list bool) (xs xs' gs : list (list (xr R))) :
  agree valid xs xs' ->
  proj_out R_ops (zero_first_of o_rvq_mask_proj) W b valid xs = proj_out R_ops (zero_first_of o_rvq_mask_proj) W b valid xs'
  /\ proj_wgrad R_ops (zero_first_of o_rvq_mask_proj) dout din valid xs gs = proj_wgrad R_ops (zero_first_of o_rvq_mask_proj) dout din valid xs' gs.
Proof. rewrite rvq_zero_first. apply zero_first_padding_independent. Qed.

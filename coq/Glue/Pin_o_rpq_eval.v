(* pinned source text of Gen item o_rpq_eval (tools/mkpin.py); the item itself is regenerated from /repo on every run *)
From Coq Require Import List String.
From VQ.Gen Require Import o_rpq_eval.
Import ListNotations.
Open Scope string_scope.
Lemma pin_o_rpq_eval : o_rpq_eval =
  [("self.vq.eval", "");
   ("self.vq", "x")].
Proof. reflexivity. Qed.

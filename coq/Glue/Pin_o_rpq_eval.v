(* pinned source text of Gen item o_rpq_eval (tools/mkpin.py); the item itself is regenerated from /repo on every run *)
From Coq Require Import List String.
From VQ.Gen Require Import o_rpq_eval.
Import ListNotations.
Open Scope string_scope.
Definition pinned_o_rpq_eval : list (string * string) :=
  [("self.vq.eval", "");
   ("self.vq", "x")].
Lemma pin_o_rpq_eval : o_rpq_eval = pinned_o_rpq_eval.
Proof. reflexivity. Qed.

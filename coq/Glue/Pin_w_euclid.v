(* pinned source text of Gen item w_euclid (tools/mkpin.py); the item itself is regenerated from /repo on every run *)
From Coq Require Import List String.
From VQ.Gen Require Import w_euclid.
Import ListNotations.
Open Scope string_scope.
Definition pinned_w_euclid : list string :=
  ["EuclideanCodebook.forward:embed_onehot:setitem";
   "EuclideanCodebook.forward:self:expire_codes_";
   "EuclideanCodebook.forward:self:init_embed_";
   "EuclideanCodebook.init_embed_:self.cluster_size.data:copy_";
   "EuclideanCodebook.init_embed_:self.embed.data:copy_";
   "EuclideanCodebook.init_embed_:self.embed_avg.data:copy_";
   "EuclideanCodebook.init_embed_:self.initted.data:copy_";
   "EuclideanCodebook.replace:self.cluster_size.data[ind]:setitem";
   "EuclideanCodebook.replace:self.embed.data[ind]:setitem";
   "EuclideanCodebook.replace:self.embed_avg.data[ind]:setitem";
   "EuclideanCodebook.update_ema:self.embed.data:copy_"].
Lemma pin_w_euclid : w_euclid = pinned_w_euclid.
Proof. reflexivity. Qed.

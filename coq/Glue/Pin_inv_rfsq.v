(* pinned source text of Gen item inv_rfsq (tools/mkpin.py); the item itself is regenerated from /repo on every run *)
From Coq Require Import List String.
From VQ Require Import Model.Inventory.
From VQ.Gen Require Import inv_rfsq.
Import ListNotations.
Open Scope string_scope.
Definition pinned_inv_rfsq : list (string * kind * bool) :=
  [("scales", Buffer, false)].
Lemma pin_inv_rfsq : inv_rfsq = pinned_inv_rfsq.
Proof. reflexivity. Qed.

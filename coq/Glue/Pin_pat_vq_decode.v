(* pinned source text of Gen item pat_vq_decode (tools/mkpin.py); the item itself is regenerated from /repo on every run *)
From Coq Require Import List String.
From VQ.Gen Require Import pat_vq_decode.
Import ListNotations.
Open Scope string_scope.
Definition pinned_pat_vq_decode : list (string * string) :=
  [("rearrange", "... h d -> ... (h d)");
   ("pack_one", "b * h");
   ("rearrange", "b n h -> b h n");
   ("repeat", "b h n -> b h n d");
   ("repeat", "h n d -> b h n d");
   ("rearrange", "b h n d -> b n (h d)");
   ("unpack_one", "b * d");
   ("rearrange", "b ... d -> b d ...")].
Lemma pin_pat_vq_decode : pat_vq_decode = pinned_pat_vq_decode.
Proof. reflexivity. Qed.

(* pinned source text of Gen item p_rvq_flags (tools/mkpin.py); the item itself is regenerated from /repo on every run *)
From Coq Require Import List String.
From VQ.Gen Require Import p_rvq_flags.
Import ListNotations.
Open Scope string_scope.
Definition pinned_p_rvq_flags : list string :=
  ["ResidualVQ.__init__:self.implicit_neural_codebook = implicit_neural_codebook";
   "ResidualVQ.__init__:self.num_quantizers = num_quantizers";
   "ResidualVQ.__init__:self.uniform_codebook_size = len(unique(codebook_sizes)) == 1";
   "ResidualVQ.__init__:self.quantize_dropout = quantize_dropout and num_quantizers > 1";
   "ResidualVQ.__init__:self.quantize_dropout_cutoff_index = quantize_dropout_cutoff_index";
   "ResidualVQ.__init__:self.quantize_dropout_multiple_of = quantize_dropout_multiple_of";
   "ResidualVQ.__init__:self.shared_codebook = shared_codebook"].
Lemma pin_p_rvq_flags : p_rvq_flags = pinned_p_rvq_flags.
Proof. reflexivity. Qed.

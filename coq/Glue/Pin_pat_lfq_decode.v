(* pinned source text of Gen item pat_lfq_decode (tools/mkpin.py); the item itself is regenerated from /repo on every run *)
From Coq Require Import List String.
From VQ.Gen Require Import pat_lfq_decode.
Import ListNotations.
Open Scope string_scope.
Definition pinned_pat_lfq_decode : list (string * string) :=
  [("rearrange", "... -> ... 1");
   ("rearrange", "... c d -> ... (c d)");
   ("rearrange", "b ... d -> b d ...")].
Lemma pin_pat_lfq_decode : pat_lfq_decode = pinned_pat_lfq_decode.
Proof. reflexivity. Qed.

(* Glue: einops patterns regenerated from /repo (Gen/pr_scalar.v), interpreted by Model/Einops.v, denote the index maps of Model/Layout.v.
   One file per group of sites so that a changed pattern breaks only the obligations of the properties that depend on that site. *)
From Coq Require Import String List Arith Lia.
From VQ Require Import Model.Einops Model.Layout Glue.EinopsGlueBase.
From VQ.Gen Require Import pr_scalar.
Import ListNotations.
Open Scope string_scope.

Section Glue.
Context {A : Type}.

(* ---- FSQ / LFQ codebook split and merge *)
Lemma einops_fsq_split : exists p, role_pattern pr_scalar "FSQ.forward:z" "rearrange" 1 = Some p /\ wf_rearrange p = true /\
  forall (e : env) (X : nat -> nat -> nat -> A) b n c d,
    b < e "b" -> n < e "n" -> c < e "c" -> d < e "d" ->
    rearr p e (of3 X) [b; n; c; d] = cb_split (e "d") X b n c d.
Proof. glue. Qed.

Lemma einops_fsq_merge : exists p, role_pattern pr_scalar "FSQ.forward:codes" "rearrange" 0 = Some p /\ wf_rearrange p = true /\
  forall (e : env) (Q : nat -> nat -> nat -> nat -> A) b n x,
    b < e "b" -> n < e "n" -> x < e "c" * e "d" ->
    rearr p e (of4 Q) [b; n; x] = cb_merge (e "d") Q b n x.
Proof. glue. Qed.

Lemma einops_lfq_split : exists p, role_pattern pr_scalar "LFQ.forward:x" "rearrange" 1 = Some p /\ wf_rearrange p = true /\
  forall (e : env) (X : nat -> nat -> nat -> A) b n c d,
    b < e "b" -> n < e "n" -> c < e "c" -> d < e "d" ->
    rearr p e (of3 X) [b; n; c; d] = cb_split (e "d") X b n c d.
Proof. glue. Qed.

Lemma einops_lfq_merge : exists p, role_pattern pr_scalar "LFQ.forward:x" "rearrange" 2 = Some p /\ wf_rearrange p = true /\
  forall (e : env) (Q : nat -> nat -> nat -> nat -> A) b n x,
    b < e "b" -> n < e "n" -> x < e "c" * e "d" ->
    rearr p e (of4 Q) [b; n; x] = cb_merge (e "d") Q b n x.
Proof. glue. Qed.

End Glue.

(* pinned source text of Gen item p_select (tools/mkpin.py); the item itself is regenerated from /repo on every run *)
From Coq Require Import List String.
From VQ.Gen Require Import p_select.
Import ListNotations.
Open Scope string_scope.
Definition pinned_p_select : list string :=
  ["gumbel.ind=sampling_logits.argmax(dim=dim)";
   "gumbel.sampling_logits=logits / temperature + gumbel_noise(logits)";
   "gumbel.sampling_logits=logits";
   "EuclideanCodebook.embed=self.embed if self.learnable_codebook else self.embed.detach()";
   "EuclideanCodebook.embed=(embed - self.codebook_mean) * (batch_std / codebook_std) + self.batch_mean";
   "EuclideanCodebook.dist=unpack_one(dist, 'h * d')";
   "EuclideanCodebook.dist=-F.pairwise_distance(broadcastable_input, transformed_embed)";
   "EuclideanCodebook.dist=-cdist(flatten, embed)";
   "EuclideanCodebook.quantize=einsum('h b n c, h b n c d -> h b n d', unpacked_onehot, transformed_embed)";
   "EuclideanCodebook.quantize=einsum('h b n c, h c d -> h b n d', unpacked_onehot, embed)";
   "EuclideanCodebook.quantize=einx.get_at('h b n [c] d, h b n -> h b n d', transformed_embed, embed_ind)";
   "EuclideanCodebook.quantize=einx.get_at('h [c] d, h b n -> h b n d', embed, embed_ind)";
   "EuclideanCodebook.select=self.gumbel_sample(dist, dim=-1, temperature=sample_codebook_temp, training=self.training)";
   "CosineSimCodebook.embed=self.embed if self.learnable_codebook else self.embed.detach()";
   "CosineSimCodebook.dist=unpack_one(dist, 'h * d')";
   "CosineSimCodebook.dist=einsum('h n d, h n c d -> h n c', flatten, transformed_embed)";
   "CosineSimCodebook.dist=einsum('h n d, h c d -> h n c', flatten, embed)";
   "CosineSimCodebook.quantize=einsum('h b n c, h b n c d -> h b n d', unpacked_onehot, transformed_embed)";
   "CosineSimCodebook.quantize=einsum('h b n c, h c d -> h b n d', unpacked_onehot, embed)";
   "CosineSimCodebook.quantize=einx.get_at('h b n [c] d, h b n -> h b n d', transformed_embed, embed_ind)";
   "CosineSimCodebook.quantize=einx.get_at('h [c] d, h b n -> h b n d', embed, embed_ind)";
   "CosineSimCodebook.select=self.gumbel_sample(dist, dim=-1, temperature=sample_codebook_temp, training=self.training)";
   "cosine.transform_input=l2norm";
   "euclid.transform_input=identity";
   "simvq.dist=torch.cdist(x, implicit_codebook)";
   "simvq.indices=dist.argmin(dim=-1)";
   "simvq.indices=inverse_pack(indices, 'b *')";
   "simvq.quantized=get_at('[c] d, b n -> b n d', implicit_codebook, indices)";
   "latent.index=torch.stack([torch.argmin(distance(z[..., i, None], self.values_per_latent[i]), dim=-1) for i in range(self.codebook_dim)], dim=-1)";
   "latent.quantize=torch.stack([self.values_per_latent[i][index[..., i]] for i in range(self.codebook_dim)], dim=-1)";
   "latent.distance=torch.abs(x - y)"].
Lemma pin_p_select : p_select = pinned_p_select.
Proof. reflexivity. Qed.

(* Glue: einops patterns of the residual / scalar / SimVQ / LatentQuantize classes (Gen/pr_more.v, Gen/pr_scalar.v), interpreted by
   Model/Einops.v: channel-first moves with an ellipsis ('b d ... -> b ... d' and back; the ellipsis is one flattened axis),
   the layer axis of ResidualFSQ indices, the -1 mask of the residual decoders, LatentQuantize's codebook split / merge. *)
From Coq Require Import String List Arith Lia.
From VQ Require Import Model.Einops Model.Layout Glue.EinopsGlueBase.
From VQ.Gen Require Import pr_more pr_scalar.
Import ListNotations.
Open Scope string_scope.

Section Glue.
Context {A : Type}.

(* channel-first input 'b d ... -> b ... d' = cfirst_in *)
Definition is_cfirst_in (rs : list role) (target : string) (k : nat) : Prop :=
  exists p, role_pattern rs target "rearrange" k = Some p /\ wf_rearrange p = true /\
  forall (e : env) (X : nat -> nat -> nat -> A) b n d,
    b < e "b" -> n < e "..." -> d < e "d" -> rearr p e (of3 X) [b; n; d] = cfirst_in X b n d.
(* channel-first output 'b ... d -> b d ...' = cfirst_out *)
Definition is_cfirst_out (rs : list role) (target : string) (k : nat) : Prop :=
  exists p, role_pattern rs target "rearrange" k = Some p /\ wf_rearrange p = true /\
  forall (e : env) (Q : nat -> nat -> nat -> A) b d n,
    b < e "b" -> d < e "d" -> n < e "..." -> rearr p e (of3 Q) [b; d; n] = cfirst_out Q b d n.
(* residual decoders: 'b n q -> q b n 1' *)
Definition is_layer_mask (rs : list role) (target : string) : Prop :=
  exists p, role_pattern rs target "rearrange" 0 = Some p /\ wf_rearrange p = true /\
  forall (e : env) (M : nat -> nat -> nat -> A) q b n,
    q < e "q" -> b < e "b" -> n < e "n" -> rearr p e (of3 M) [q; b; n; 0] = M b n q.

Lemma einops_rfsq_in : is_cfirst_in pr_more "ResidualFSQ.forward:x" 0. Proof. unfold is_cfirst_in; glue. Qed.
Lemma einops_simvq_in : is_cfirst_in pr_more "SimVQ.forward:x" 0. Proof. unfold is_cfirst_in; glue. Qed.
Lemma einops_lq_in : is_cfirst_in pr_more "LatentQuantize.forward:z" 0. Proof. unfold is_cfirst_in; glue. Qed.
Lemma einops_fsq_in : is_cfirst_in pr_scalar "FSQ.forward:z" 0. Proof. unfold is_cfirst_in; glue. Qed.
Lemma einops_lfq_in : is_cfirst_in pr_scalar "LFQ.forward:x" 0. Proof. unfold is_cfirst_in; glue. Qed.

Lemma einops_rfsq_out : is_cfirst_out pr_more "ResidualFSQ.forward:quantized_out" 0. Proof. unfold is_cfirst_out; glue. Qed.
Lemma einops_rfsq_idx_out : is_cfirst_out pr_more "ResidualFSQ.forward:all_indices" 0. Proof. unfold is_cfirst_out; glue. Qed.
Lemma einops_simvq_out : is_cfirst_out pr_more "SimVQ.forward:quantized" 0. Proof. unfold is_cfirst_out; glue. Qed.
Lemma einops_simvq_decode_out : is_cfirst_out pr_more "SimVQ.indices_to_codes:quantized" 0. Proof. unfold is_cfirst_out; glue. Qed.
Lemma einops_lq_out : is_cfirst_out pr_more "LatentQuantize.forward:out" 0. Proof. unfold is_cfirst_out; glue. Qed.
Lemma einops_lq_out2 : is_cfirst_out pr_more "LatentQuantize.forward:out" 1. Proof. unfold is_cfirst_out; glue. Qed.
Lemma einops_lq_decode_out : is_cfirst_out pr_more "LatentQuantize.indices_to_codes:codes" 1. Proof. unfold is_cfirst_out; glue. Qed.
Lemma einops_fsq_out : is_cfirst_out pr_scalar "FSQ.forward:out" 0. Proof. unfold is_cfirst_out; glue. Qed.
Lemma einops_fsq_decode_out : is_cfirst_out pr_scalar "FSQ.indices_to_codes:codes" 1. Proof. unfold is_cfirst_out; glue. Qed.
Lemma einops_lfq_out : is_cfirst_out pr_scalar "LFQ.forward:x" 3. Proof. unfold is_cfirst_out; glue. Qed.
Lemma einops_lfq_decode_out : is_cfirst_out pr_scalar "LFQ.indices_to_codes:codes" 1. Proof. unfold is_cfirst_out; glue. Qed.

Lemma einops_rvq_layer_mask : is_layer_mask pr_more "ResidualVQ.get_codes_from_indices:arg:all_codes.masked_fill". Proof. unfold is_layer_mask; glue. Qed.
Lemma einops_rfsq_layer_mask : is_layer_mask pr_more "ResidualFSQ.get_codes_from_indices:arg:all_codes.masked_fill". Proof. unfold is_layer_mask; glue. Qed.
Lemma einops_rlfq_layer_mask : is_layer_mask pr_more "ResidualLFQ.get_codes_from_indices:arg:all_codes.masked_fill". Proof. unfold is_layer_mask; glue. Qed.
Lemma einops_rsvq_layer_mask : is_layer_mask pr_more "ResidualSimVQ.get_codes_from_indices:arg:all_codes.masked_fill". Proof. unfold is_layer_mask; glue. Qed.

(* ResidualFSQ channel-first indices arrive as 'b q ...' and are decoded as 'b ... q' *)
Lemma einops_rfsq_layer_axis : exists p, role_pattern pr_more "ResidualFSQ.get_codes_from_indices:indices" "rearrange" 0 = Some p /\ wf_rearrange p = true /\
  forall (e : env) (J : nat -> nat -> nat -> A) b n q,
    b < e "b" -> n < e "..." -> q < e "q" -> rearr p e (of3 J) [b; n; q] = J b q n.
Proof. glue. Qed.

(* ResidualSimVQ channel-first decode 'q b ... d -> q b d ...' *)
Lemma einops_rsvq_decode_out : exists p, role_pattern pr_more "ResidualSimVQ.get_codes_from_indices:all_codes" "rearrange" 0 = Some p /\ wf_rearrange p = true /\
  forall (e : env) (Q : nat -> nat -> nat -> nat -> A) q b d n,
    q < e "q" -> b < e "b" -> d < e "d" -> n < e "..." -> rearr p e (of4 Q) [q; b; d; n] = Q q b n d.
Proof. glue. Qed.

(* LatentQuantize codebooks *)
Lemma einops_lq_split : exists p, role_pattern pr_more "LatentQuantize.forward:z" "rearrange" 1 = Some p /\ wf_rearrange p = true /\
  forall (e : env) (X : nat -> nat -> nat -> A) b n c d,
    b < e "b" -> n < e "n" -> c < e "c" -> d < e "d" -> rearr p e (of3 X) [b; n; c; d] = cb_split (e "d") X b n c d.
Proof. glue. Qed.
Lemma einops_lq_merge : exists p, role_pattern pr_more "LatentQuantize.forward:codes" "rearrange" 0 = Some p /\ wf_rearrange p = true /\
  forall (e : env) (Q : nat -> nat -> nat -> nat -> A) b n x,
    b < e "b" -> n < e "n" -> x < e "c" * e "d" -> rearr p e (of4 Q) [b; n; x] = cb_merge (e "d") Q b n x.
Proof. glue. Qed.
Lemma einops_lq_merge2 : find_role pr_more "LatentQuantize.forward:codes" "rearrange" 0 = find_role pr_more "LatentQuantize.forward:codes" "rearrange" 1.
Proof. vm_compute; reflexivity. Qed.

End Glue.

(* pinned source text of Gen item w_vq (tools/mkpin.py); the item itself is regenerated from /repo on every run *)
From Coq Require Import List String.
From VQ.Gen Require Import w_vq.
Import ListNotations.
Open Scope string_scope.
Definition pinned_w_vq : list string :=
  ["VectorQuantize.forward:embed_ind:masked_fill_";
   "VectorQuantize.forward:loss:backward()";
   "VectorQuantize.expire_codes_:self._codebook:expire_codes_";
   "VectorQuantize.update_in_place_optimizer:self.in_place_codebook_optimizer:step()";
   "VectorQuantize.update_in_place_optimizer:self.in_place_codebook_optimizer:zero_grad()";
   "gumbel_noise:torch.zeros_like(t):uniform_";
   "kmeans:new_means:scatter_add_";
   "ema_inplace:old.mul_(decay):add_";
   "ema_inplace:old:lerp_";
   "ema_inplace:old:mul_";
   "batched_bincount:target:scatter_add_"].
Lemma pin_w_vq : w_vq = pinned_w_vq.
Proof. reflexivity. Qed.

(* C17 tie for LFQ: the commitment term is gated on the weight the module has NOW (the live attribute), not on a flag computed at construction
   (seed C17-e).  The guard is regenerated from the `if` around `commit_loss = F.mse_loss(...)` in LFQ.forward. *)
From Coq Require Import List Bool String Reals Lra.
From VQ Require Import Num.
From VQ.Gen Require Import g_lfq_commit.
Import ListNotations.
Open Scope string_scope.

Lemma glue_lfq_commit_guard (weight_pos training : bool) : g_lfq_commit weight_pos training = (training && weight_pos)%bool.
Proof. destruct weight_pos, training; reflexivity. Qed.
(* the atoms ARE the live weight comparison and the training flag: a cached construction-time flag would appear as another atom *)
Lemma glue_lfq_commit_guard_atoms : g_lfq_commit_atoms = ["self_commitment_loss_weight_gt_0_0"; "self_training"].
Proof. reflexivity. Qed.

Open Scope R_scope.
(* the commitment term of the breakdown and its contribution to the auxiliary loss, with the weight cw the module has at the time of the call *)
Definition lfq_commit_term (training : bool) (cw mse : R) : R := if g_lfq_commit (Rltb 0 cw) training then mse else 0.
Definition lfq_commit_contribution (training : bool) (cw mse : R) : R := cw * lfq_commit_term training cw mse.

Theorem lfq_commit_follows_live_weight (cw mse : R) : 0 < cw -> lfq_commit_term true cw mse = mse /\ lfq_commit_contribution true cw mse = cw * mse.
Proof.
  intros H. unfold lfq_commit_contribution, lfq_commit_term. rewrite glue_lfq_commit_guard.
  assert (E : Rltb 0 cw = true) by (apply Rltb_true; exact H). rewrite E. cbn. split; reflexivity.
Qed.
Theorem lfq_commit_zero_weight (training : bool) (cw mse : R) : cw <= 0 -> lfq_commit_term training cw mse = 0.
Proof.
  intros H. unfold lfq_commit_term. rewrite glue_lfq_commit_guard.
  assert (E : Rltb 0 cw = false) by (apply Rltb_false; exact H). rewrite E. rewrite andb_false_r. reflexivity.
Qed.
Theorem lfq_commit_zero_in_eval (cw mse : R) : lfq_commit_term false cw mse = 0 /\ lfq_commit_contribution false cw mse = 0.
Proof. unfold lfq_commit_contribution, lfq_commit_term. rewrite glue_lfq_commit_guard. cbn. split; [reflexivity | ring]. Qed.

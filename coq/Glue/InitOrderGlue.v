(* The regenerated call sequences of init_embed_ (both codebook classes) have the computations first and the flag last. *)
From Coq Require Import List Bool String Arith.
From VQ Require Import Model.InitOrder.
From VQ.Proofs Require Import InitOrderProofs.
From VQ.Gen Require Import o_euclid_init o_cosine_init.
Import ListNotations.

Lemma euclid_init_order : computes_before_writes o_euclid_init = true /\ flag_last o_euclid_init = true /\ writes_all o_euclid_init = true.
Proof. vm_compute. repeat split; reflexivity. Qed.
Lemma cosine_init_order : computes_before_writes o_cosine_init = true /\ flag_last o_cosine_init = true /\ writes_all o_cosine_init = true.
Proof. vm_compute. repeat split; reflexivity. Qed.

(* EuclideanCodebook.init_embed_ / CosineSimCodebook.init_embed_ as they are in the source: a first call that raises in a computing call
   (masking, k-means, sampling) has written nothing - not even the flag - and the flag is only ever set by a complete initialisation *)
Theorem euclid_failed_init_writes_nothing (k : nat) (c : string * string) :
  nth_error o_euclid_init k = Some c -> is_write c = false -> written k o_euclid_init = [] /\ flag_set k o_euclid_init = false.
Proof.
  intros Hk Hc. destruct euclid_init_order as [H1 _]. split.
  - eapply failed_compute_writes_nothing; eauto.
  - eapply failed_compute_leaves_flag; eauto.
Qed.
Theorem cosine_failed_init_writes_nothing (k : nat) (c : string * string) :
  nth_error o_cosine_init k = Some c -> is_write c = false -> written k o_cosine_init = [] /\ flag_set k o_cosine_init = false.
Proof.
  intros Hk Hc. destruct cosine_init_order as [H1 _]. split.
  - eapply failed_compute_writes_nothing; eauto.
  - eapply failed_compute_leaves_flag; eauto.
Qed.
Theorem euclid_flag_implies_complete (k : nat) : flag_set k o_euclid_init = true -> List.length o_euclid_init <= k.
Proof. apply flag_implies_complete. apply euclid_init_order. Qed.
Theorem cosine_flag_implies_complete (k : nat) : flag_set k o_cosine_init = true -> List.length o_cosine_init <= k.
Proof. apply flag_implies_complete. apply cosine_init_order. Qed.

(* C07 tie: the guards that select the gradient estimator and decide whether the commitment code is detached *)
From Coq Require Import ZArith List Bool String Reals Lra.
From VQ Require Import Num Model.Vec Model.Grad.
From VQ.Gen Require Import g_vq_maybe_detach g_vq_rotate k_safe_div.
Import ListNotations.
Open Scope string_scope.

Lemma glue_maybe_detach (freeze learnable : bool) : g_vq_maybe_detach freeze learnable = (negb learnable || freeze)%bool.
Proof. destruct freeze, learnable; reflexivity. Qed.
Lemma glue_maybe_detach_atoms : g_vq_maybe_detach_atoms = ["freeze_codebook"; "self_learnable_codebook"].
Proof. reflexivity. Qed.
Lemma glue_rotate_guard (rg rot training : bool) : g_vq_rotate rg rot training = (training && rg && rot)%bool.
Proof. destruct rg, rot, training; reflexivity. Qed.
Lemma glue_rotate_guard_atoms : g_vq_rotate_atoms = ["input_requires_grad"; "self_rotation_trick"; "self_training"].
Proof. reflexivity. Qed.
Open Scope R_scope.
Lemma glue_safe_div_grad (num den eps : R) : k_safe_div R_ops num den eps = num / Rmax den eps.
Proof.
  unfold k_safe_div, fmax; cbn. unfold Rleb. f_equal.
  destruct (Rle_dec den eps) as [H|H]; [rewrite Rmax_right | rewrite Rmax_left]; lra.
Qed.

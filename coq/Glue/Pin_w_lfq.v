(* pinned source text of Gen item w_lfq (tools/mkpin.py); the item itself is regenerated from /repo on every run *)
From Coq Require Import List String.
From VQ.Gen Require Import w_lfq.
Import ListNotations.
Open Scope string_scope.
Definition pinned_w_lfq : list string :=
  [].
Lemma pin_w_lfq : w_lfq = pinned_w_lfq.
Proof. reflexivity. Qed.

(* Tie between the kernels regenerated from /repo (Gen) and the model the codec theorems are
   about.  Arithmetic kernels are compared semantically (ring/field/lra), dataflow is pinned. *)
From Coq Require Import ZArith List Bool String Reals Lra Lia.
From VQ Require Import Num Model.Vec Model.Codec.
From VQ.Gen Require Import k_fsq_half_width k_fsq_scale_and_shift k_fsq_scale_and_shift_inverse
  k_fsq_level_indices p_fsq_codec k_lfq_bits_to_codes k_lfq_quantize p_lfq_codec
  k_lq_scale_and_shift k_lq_scale_and_shift_inverse p_lq_codec.
Import ListNotations.

Lemma glue_half_width L : k_fsq_half_width L = half_width L.
Proof. reflexivity. Qed.

Lemma glue_level_indices i b l : k_fsq_level_indices i b l = ((i / b) mod l)%Z.
Proof. reflexivity. Qed.

Lemma glue_dec levels i : dec levels i = map2 (fun b l => k_fsq_level_indices i b l) (basis levels) levels.
Proof. reflexivity. Qed.

Open Scope R_scope.
Lemma glue_scale_shift_inverse L k :
  k_fsq_scale_and_shift_inverse R_ops false (IZR L) (IZR k) (IZR (k_fsq_half_width L)) = fsq_level_value R_ops L k.
Proof. reflexivity. Qed.

Lemma glue_sym_scale_shift_inverse L k hw :
  k_fsq_scale_and_shift_inverse R_ops true (IZR L) (IZR k) hw = fsq_sym_level_value R_ops L k.
Proof. reflexivity. Qed.

Lemma glue_scale_shift (L z hw : R) : k_fsq_scale_and_shift R_ops false L z hw = z * hw + hw.
Proof. reflexivity. Qed.

(* over the reals the two maps are mutually inverse in both modes: the only gap is float32 rounding (B32Proofs) *)
Lemma glue_scale_shift_roundtrip (sym : bool) (L k hw : R) : hw <> 0 -> L - 1 <> 0 ->
  k_fsq_scale_and_shift R_ops sym L (k_fsq_scale_and_shift_inverse R_ops sym L k hw) hw = k.
Proof.
  intros H HL. unfold k_fsq_scale_and_shift, k_fsq_scale_and_shift_inverse. destruct sym; cbn; field; auto.
Qed.

Lemma glue_lq_scale_shift_roundtrip (k hw : R) : hw <> 0 ->
  k_lq_scale_and_shift R_ops (k_lq_scale_and_shift_inverse R_ops k hw) hw = k.
Proof. intros H. unfold k_lq_scale_and_shift, k_lq_scale_and_shift_inverse. cbn. field. exact H. Qed.

Lemma glue_lq_level_value L k :
  k_lq_scale_and_shift_inverse R_ops (IZR k) (IZR (k_fsq_half_width L)) = lq_level_value R_ops L k.
Proof. reflexivity. Qed.

Lemma glue_lfq_bits_to_codes (s : R) (b : bool) :
  k_lfq_bits_to_codes R_ops (if b then 1 else 0) s = lfq_code_of_bit R_ops s b.
Proof. unfold k_lfq_bits_to_codes, lfq_code_of_bit. destruct b; cbn; lra. Qed.

Lemma glue_lfq_quantize (s x : R) : k_lfq_quantize R_ops x s = lfq_quant R_ops s x.
Proof. reflexivity. Qed.

Open Scope string_scope.
(* dataflow pins: which helper feeds which, the conversion chain, the MSB-first mask *)
Definition expected_fsq_codec : list string :=
  ["torch.cumprod(torch.tensor([1] + levels[:-1]), dim=0, dtype=int32)";
   "(zhat.round().to(int32) * self._basis).sum(dim=-1).to(int32)";
   "self._scale_and_shift(zhat)";
   "self.indices_to_level_indices(indices)";
   "self._scale_and_shift_inverse(level_indices)"].
Lemma pin_fsq_codec : p_fsq_codec = expected_fsq_codec.
Proof. reflexivity. Qed.

Definition expected_lfq_codec : list string :=
  ["reduce((quantized > 0).int() * self.mask.int(), 'b n c d -> b n c', 'sum')";
   "(indices[..., None].int() & self.mask != 0).to(self.dtype)";
   "2 ** torch.arange(codebook_dim - 1, -1, -1)";
   "(all_codes[..., None].int() & self.mask != 0).float()"].
Lemma pin_lfq_codec : p_lfq_codec = expected_lfq_codec.
Proof. reflexivity. Qed.

Definition expected_lq_codec : list string :=
  ["(zhat.round().to(int32) * self._basis).sum(dim=-1).to(int32)";
   "indices // self._basis % self._levels";
   "self._levels // 2"].
Lemma pin_lq_codec : p_lq_codec = expected_lq_codec.
Proof. reflexivity. Qed.

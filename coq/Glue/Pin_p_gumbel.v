(* pinned source text of Gen item p_gumbel (tools/mkpin.py); the item itself is regenerated from /repo on every run *)
From Coq Require Import List String.
From VQ.Gen Require Import p_gumbel.
Import ListNotations.
Open Scope string_scope.
Definition pinned_p_gumbel : list string :=
  ["gumbel_noise:noise = torch.zeros_like(t).uniform_(0, 1)";
   "gumbel_noise:return -log(-log(noise))";
   "gumbel_sample:dtype, size = (logits.dtype, logits.shape[dim])";
   "gumbel_sample:if training and stochastic and (temperature > 0):     sampling_logits = logits / temperature + gumbel_noise(logits) else:     sampling_logits = logits";
   "gumbel_sample:ind = sampling_logits.argmax(dim=dim)";
   "gumbel_sample:one_hot = F.one_hot(ind, size).type(dtype)";
   "gumbel_sample:if not straight_through or temperature <= 0.0 or (not training):     return (ind, one_hot)";
   "gumbel_sample:π1 = (logits / temperature).softmax(dim=dim)";
   "gumbel_sample:one_hot = one_hot + π1 - π1.detach()";
   "gumbel_sample:return (ind, one_hot)";
   "log:torch.log(t.clamp(min=eps))";
   "EuclideanCodebook.temp:default(sample_codebook_temp, self.sample_codebook_temp)";
   "EuclideanCodebook.temp_cfg:sample_codebook_temp";
   "CosineSimCodebook.temp:default(sample_codebook_temp, self.sample_codebook_temp)";
   "CosineSimCodebook.temp_cfg:sample_codebook_temp";
   "vq.partial:partial(gumbel_sample, stochastic=stochastic_sample_codes, straight_through=straight_through)";
   "vq.kwargs:dict(sample_codebook_temp=sample_codebook_temp, mask=mask, freeze_codebook=freeze_codebook, codebook_transform_fn=codebook_transform_fn)"].
Lemma pin_p_gumbel : p_gumbel = pinned_p_gumbel.
Proof. reflexivity. Qed.

(* pinned source text of Gen item pat_simvq_forward (tools/mkpin.py); the item itself is regenerated from /repo on every run *)
From Coq Require Import List String.
From VQ.Gen Require Import pat_simvq_forward.
Import ListNotations.
Open Scope string_scope.
Definition pinned_pat_simvq_forward : list (string * string) :=
  [("rearrange", "b d ... -> b ... d");
   ("pack_one", "b * d");
   ("get_at", "[c] d, b n -> b n d");
   ("inverse_pack", "b *");
   ("rearrange", "b ... d-> b d ...")].
Lemma pin_pat_simvq_forward : pat_simvq_forward = pinned_pat_simvq_forward.
Proof. reflexivity. Qed.

(* pinned source text of Gen item inv_view_writes (tools/mkpin.py); the item itself is regenerated from /repo on every run *)
From Coq Require Import List String.
From VQ.Gen Require Import inv_view_writes.
Import ListNotations.
Open Scope string_scope.
Definition pinned_inv_view_writes : list string :=
  ["vector_quantize_pytorch.py:forward: in-place method masked_fill_ on the handle embed_ind <- rearrange :: embed_ind.masked_fill_(~ce_loss_mask, -1)"].
Lemma pin_inv_view_writes : inv_view_writes = pinned_inv_view_writes.
Proof. reflexivity. Qed.

(* pinned source text of Gen item pat_lfq_forward (tools/mkpin.py); the item itself is regenerated from /repo on every run *)
From Coq Require Import List String.
From VQ.Gen Require Import pat_lfq_forward.
Import ListNotations.
Open Scope string_scope.
Definition pinned_pat_lfq_forward : list (string * string) :=
  [("rearrange", "b d ... -> b ... d");
   ("pack_one", "b * d");
   ("rearrange", "b n (c d) -> b n c d");
   ("reduce", "b n c d -> b n c");
   ("rearrange", "b n ... -> (b n) ...");
   ("einsum", "... i d, j d -> ... i j");
   ("einsum", "... i d, j d -> ... i j");
   ("reduce", "... c d -> c d");
   ("rearrange", "b n c d -> b n (c d)");
   ("unpack_one", "b * d");
   ("rearrange", "b ... d -> b d ...");
   ("unpack_one", "b * c");
   ("rearrange", "... 1 -> ...")].
Lemma pin_pat_lfq_forward : pat_lfq_forward = pinned_pat_lfq_forward.
Proof. reflexivity. Qed.

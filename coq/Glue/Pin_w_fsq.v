(* pinned source text of Gen item w_fsq (tools/mkpin.py); the item itself is regenerated from /repo on every run *)
From Coq Require Import List String.
From VQ.Gen Require Import w_fsq.
Import ListNotations.
Open Scope string_scope.
Definition pinned_w_fsq : list string :=
  [].
Lemma pin_w_fsq : w_fsq = pinned_w_fsq.
Proof. reflexivity. Qed.

(* Facts about the state inventories regenerated from the source (Gen/inv_*.v), used by C15 and C20.
   Everything here is decided by computation on the generated lists, so flipping a `persistent=` flag, turning a
   buffer into a Parameter (or back), or adding an unexpected buffer makes the corresponding lemma fail. *)
From Coq Require Import String List Bool.
From VQ Require Import Model.Inventory Model.Params.
From VQ.Gen Require Import inv_euclid inv_cosine inv_vq inv_fsq inv_lfq inv_simvq inv_rpq inv_rfsq inv_lq inv_rvq inv_rlfq inv_rsvq
  g_euclid_embed_is_param g_cosine_embed_is_param.
Import ListNotations.
Open Scope string_scope.

(* codebook classes: the four state components are persistent buffers; embed is a Parameter exactly when learnable *)
Lemma codebook_state_persistent :
  forallb (fun n => has inv_euclid n Buffer true) ["initted"; "cluster_size"; "embed_avg"; "embed"] = true /\
  forallb (fun n => has inv_cosine n Buffer true) ["initted"; "cluster_size"; "embed_avg"; "embed"] = true.
Proof. split; reflexivity. Qed.
Lemma codebook_every_entry_persistent :
  forallb (fun e => snd e) inv_euclid = true /\ forallb (fun e => snd e) inv_cosine = true.
Proof. split; reflexivity. Qed.
Lemma embed_is_param_iff_learnable (learnable : bool) :
  g_euclid_embed_is_param learnable = learnable /\ g_cosine_embed_is_param learnable = learnable.
Proof. destruct learnable; split; reflexivity. Qed.
Lemma codebook_only_embed_can_be_param :
  param_names inv_euclid = ["embed"] /\ param_names inv_cosine = ["embed"].
Proof. split; reflexivity. Qed.

(* non-learned codebooks are buffers, never parameters *)
Lemma simvq_frozen_codebook_is_persistent_buffer :
  has inv_simvq "frozen_codebook" Buffer true = true /\ @is_param inv_simvq "frozen_codebook" = false /\ param_names inv_simvq = [].
Proof. repeat split; reflexivity. Qed.
Lemma rpq_projection_is_persistent_buffer :
  has inv_rpq "rand_projs" Buffer true = true /\ @is_param inv_rpq "rand_projs" = false /\ param_names inv_rpq = [].
Proof. repeat split; reflexivity. Qed.
Lemma fsq_implicit_tables_are_buffers :
  names inv_fsq = ["_basis"; "_levels"; "implicit_codebook"] /\ param_names inv_fsq = [] /\ persistent_names inv_fsq = [].
Proof. repeat split; reflexivity. Qed.
Lemma lfq_tables_are_buffers :
  names inv_lfq = ["codebook"; "mask"; "zero"] /\ param_names inv_lfq = [] /\ persistent_names inv_lfq = ["mask"].
Proof. repeat split; reflexivity. Qed.
Lemma rfsq_scales_buffer : names inv_rfsq = ["scales"] /\ param_names inv_rfsq = [] /\ persistent_names inv_rfsq = [].
Proof. repeat split; reflexivity. Qed.
Lemma lq_inventory :
  param_names inv_lq = ["values_per_latent"] /\ persistent_names inv_lq = ["values_per_latent"] /\
  buffer_names inv_lq = ["_basis"; "_levels"; "commitment_loss_weight"; "implicit_codebook"; "quantization_loss_weight"].
Proof. repeat split; reflexivity. Qed.
Lemma vq_inventory : names inv_vq = ["zero"] /\ persistent_names inv_vq = [].
Proof. split; reflexivity. Qed.
Lemma residual_wrappers_own_no_state : inv_rvq = [] /\ inv_rlfq = [] /\ inv_rsvq = [].
Proof. repeat split; reflexivity. Qed.

(* every Parameter is persistent (state_dict contains all parameters) in every inventory *)
Definition params_persistent (inv : list entry) : bool :=
  forallb (fun e => match e with (_, Param, p) => p | _ => true end) inv.
Lemma all_params_persistent :
  forallb params_persistent [inv_euclid; inv_cosine; inv_vq; inv_fsq; inv_lfq; inv_simvq; inv_rpq; inv_rfsq; inv_lq; inv_rvq; inv_rlfq; inv_rsvq] = true.
Proof. reflexivity. Qed.

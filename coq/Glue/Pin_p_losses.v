(* pinned source text of Gen item p_losses (tools/mkpin.py); the item itself is regenerated from /repo on every run *)
From Coq Require Import List String.
From VQ.Gen Require Import p_losses.
Import ListNotations.
Open Scope string_scope.
Definition pinned_p_losses : list string :=
  ["vq:commit_loss = orthogonal_reg_loss = inplace_optimize_loss = codebook_diversity_loss = self.zero";
   "vq:loss = torch.tensor([0.0], device=device, requires_grad=self.training)";
   "vq:loss_breakdown = LossBreakdown(commit_loss, codebook_diversity_loss, orthogonal_reg_loss, inplace_optimize_loss)";
   "vq:inplace_optimize_loss = loss";
   "vq:loss = F.mse_loss(quantize, x.detach(), reduction='none')";
   "vq:loss = loss[loss_mask].mean()";
   "vq:loss = F.mse_loss(quantize, x.detach())";
   "vq:prob = (-distances * self.codebook_diversity_temperature).softmax(dim=-1)";
   "vq:avg_prob = reduce(prob, '... n l -> n l', 'mean')";
   "vq:codebook_diversity_loss = -entropy(avg_prob).mean()";
   "vq:loss = loss + codebook_diversity_loss * self.codebook_diversity_loss_weight";
   "vq:loss = loss + commit_loss * self.commitment_weight";
   "vq:orthogonal_reg_loss = orthogonal_loss_fn(codebook)";
   "vq:loss = loss + orthogonal_reg_loss * self.orthogonal_reg_weight";
   "vq:commit_loss = calculate_ce_loss(embed_ind)";
   "vq:commit_loss = F.mse_loss(commit_quantize, x, reduction='none')";
   "vq:commit_loss = commit_loss[loss_mask].mean()";
   "vq:commit_loss = F.mse_loss(commit_quantize, x)";
   "vq.ce:if not is_multiheaded:     dist_einops_eq = '1 b n l -> b l n' elif self.separate_codebook_per_head:     dist_einops_eq = 'c b n l -> b l n c' else:     dist_einops_eq = '1 (b h) n l -> b l n h'";
   "vq.ce:ce_loss = F.cross_entropy(rearrange(distances, dist_einops_eq, b=shape[0]), codes, ignore_index=-1)";
   "vq.ce:return ce_loss";
   "orth:h, n = t.shape[:2]";
   "orth:normed_codes = l2norm(t)";
   "orth:cosine_sim = einsum('h i d, h j d -> h i j', normed_codes, normed_codes)";
   "orth:return (cosine_sim ** 2).sum() / (h * n ** 2) - 1 / n";
   "entropy:(-prob * log(prob, eps=eps)).sum(dim=-1)";
   "log:torch.log(t.clamp(min=eps))";
   "simvq:commit_loss = F.mse_loss(x.detach(), quantized) + F.mse_loss(x, quantized.detach()) * self.input_to_quantize_commit_loss_weight";
   "simvq.return:(quantized, indices, commit_loss * self.commitment_weight)";
   "lfq:aux_loss = entropy_aux_loss * self.entropy_loss_weight + commit_loss * self.commitment_loss_weight";
   "lfq:per_sample_entropy = entropy(per_sample_probs).mean()";
   "lfq:avg_prob = reduce(per_sample_probs, '... c d -> c d', 'mean')";
   "lfq:avg_prob = maybe_distributed_mean(avg_prob)";
   "lfq:codebook_entropy = entropy(avg_prob).mean()";
   "lfq:entropy_aux_loss = per_sample_entropy - self.diversity_gamma * codebook_entropy";
   "lfq:entropy_aux_loss = per_sample_entropy = codebook_entropy = self.zero";
   "lfq:entropy_aux_loss = F.softplus(entropy_aux_loss + self.entropy_loss_offset)";
   "lfq:commit_loss = F.mse_loss(original_input, quantized.detach(), reduction='none')";
   "lfq:commit_loss = commit_loss.mean()";
   "lfq:commit_loss = self.zero";
   "lfq:per_sample_probs = sampled_prob";
   "lfq:distance = -2 * einsum('... i d, j d -> ... i j', input_for_entropy, codebook)";
   "lfq:prob = (-distance * inv_temperature).softmax(dim=-1)";
   "lfq:per_sample_probs = prob";
   "lfq:commit_loss = commit_loss[mask]";
   "lfq.entropy:(-prob * log(prob)).sum(dim=-1)";
   "lfq.log:t.clamp(min=eps).log()";
   "latent:commitment_loss = self.commitment_loss(original_input, out) if self.training and self.commitment_loss_weight != 0 else torch.tensor(0.0)";
   "latent:quantization_loss = self.quantization_loss(original_input, out) if self.training and self.quantization_loss_weight != 0 else torch.tensor(0.0)";
   "latent:loss = self.commitment_loss_weight * commitment_loss + self.quantization_loss_weight * quantization_loss";
   "latent:loss = self.commitment_loss(z, out) if self.commitment_loss_weight != 0 else torch.tensor(0.0)"].
Lemma pin_p_losses : p_losses = pinned_p_losses.
Proof. reflexivity. Qed.

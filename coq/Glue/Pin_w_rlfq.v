(* pinned source text of Gen item w_rlfq (tools/mkpin.py); the item itself is regenerated from /repo on every run *)
From Coq Require Import List String.
From VQ.Gen Require Import w_rlfq.
Import ListNotations.
Open Scope string_scope.
Definition pinned_w_rlfq : list string :=
  [].
Lemma pin_w_rlfq : w_rlfq = pinned_w_rlfq.
Proof. reflexivity. Qed.

(* C17 tie: the guard under which the commitment term enters the loss *)
From Coq Require Import List Bool String.
From VQ.Gen Require Import g_vq_commit.
Import ListNotations.
Open Scope string_scope.
Lemma glue_commit_guard (has_commit training : bool) :
  g_vq_commit has_commit training = (training && has_commit)%bool.
Proof. destruct has_commit, training; reflexivity. Qed.
Lemma glue_commit_guard_atoms : g_vq_commit_atoms = ["self_has_commitment_loss"; "self_training"].
Proof. reflexivity. Qed.

(* pinned source text of Gen item p_mask (tools/mkpin.py); the item itself is regenerated from /repo on every run *)
From Coq Require Import List String.
From VQ.Gen Require Import p_mask.
Import ListNotations.
Open Scope string_scope.
Definition pinned_p_mask : list string :=
  ["lens_to_mask:seq < lens[:, None] ; seq=torch.arange(max_length, device=lens.device)";
   "EuclideanCodebook.forward:mask = repeat(mask, 'b n -> c (b h n)', c=flatten.shape[0], h=flatten.shape[-2] // (mask.shape[0] * mask.shape[1]))";
   "EuclideanCodebook.forward:embed_onehot[~mask] = 0.0";
   "EuclideanCodebook.forward:self.init_embed_(flatten, mask=mask)";
   "EuclideanCodebook.forward:self.expire_codes_(x, mask=mask)";
   "EuclideanCodebook.init_embed_:data = rearrange(data[mask], '(c n) d -> c n d', c=c)";
   "EuclideanCodebook.expire_codes_:batch_samples = rearrange(batch_samples[mask], '(c n) d -> c n d', c=c)";
   "CosineSimCodebook.forward:mask = repeat(mask, 'b n -> c (b h n)', c=flatten.shape[0], h=flatten.shape[-2] // (mask.shape[0] * mask.shape[1]))";
   "CosineSimCodebook.forward:embed_onehot[~mask] = 0.0";
   "CosineSimCodebook.forward:self.init_embed_(flatten, mask=mask)";
   "CosineSimCodebook.forward:self.expire_codes_(x, mask=mask)";
   "CosineSimCodebook.init_embed_:data = rearrange(data[mask], '(c n) d -> c n d', c=c)";
   "CosineSimCodebook.expire_codes_:batch_samples = rearrange(batch_samples[mask], '(c n) d -> c n d', c=c)";
   "vq.forward:mask = lens_to_mask(lens, x.shape[1])";
   "vq.forward:masked_out_value = orig_input";
   "vq.forward:einx.where('b n, b n d, -> b n d', mask, x, 0.0)";
   "vq.forward:loss_mask = mask";
   "vq.forward:loss = loss[loss_mask].mean()";
   "vq.forward:masked_out_value = torch.zeros_like(orig_input)";
   "vq.forward:einx.where('b n, b n d, b n d -> b n d', mask, quantize, masked_out_value)";
   "vq.forward:einx.where('b n, b n ..., -> b n ...', mask, embed_ind, -1)";
   "vq.forward:loss_mask = repeat(mask, 'b n -> c (b h) n', c=loss.shape[0], h=loss.shape[1] // mask.shape[0])";
   "vq.forward:unique_code_ids = torch.unique(embed_ind[mask] if exists(mask) else embed_ind)";
   "vq.forward:ce_loss_mask = mask";
   "vq.forward:loss_mask = mask";
   "vq.forward:commit_loss = commit_loss[loss_mask].mean()";
   "vq.forward:ce_loss_mask = repeat(ce_loss_mask, 'b n -> b n h', h=heads)";
   "vq.forward:embed_ind.masked_fill_(~ce_loss_mask, -1)";
   "vq.forward:loss_mask = repeat(loss_mask, 'b n -> c (b h) n', c=commit_loss.shape[0], h=commit_loss.shape[1] // mask.shape[0])";
   "vq.ce:F.cross_entropy(rearrange(distances, dist_einops_eq, b=shape[0]), codes, ignore_index=-1)";
   "lfq.forward:input_for_entropy = original_input[mask]";
   "lfq.forward:sampled_input = input_for_entropy[rand_mask]";
   "lfq.forward:commit_loss = commit_loss[mask]"].
Lemma pin_p_mask : p_mask = pinned_p_mask.
Proof. reflexivity. Qed.

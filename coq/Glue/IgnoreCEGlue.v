From Coq Require Import List Bool Arith Reals String.
From VQ Require Import Model.GroupCat Model.IgnoreCE Proofs.IgnoreCEProofs.
From VQ.Gen Require Import p_losses.
Import ListNotations.

Theorem source_ce_is_joint : ce_mode_of p_losses = Joint.
Proof. vm_compute. reflexivity. Qed.
Theorem source_ce_defined (heads : list (list target)) : some_valid heads -> exists v : R, ce_of_mode (ce_mode_of p_losses) heads = Some v.
Proof. intros H. rewrite source_ce_is_joint. simpl. apply ce_joint_defined. exact H. Qed.

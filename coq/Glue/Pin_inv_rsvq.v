(* pinned source text of Gen item inv_rsvq (tools/mkpin.py); the item itself is regenerated from /repo on every run *)
From Coq Require Import List String.
From VQ Require Import Model.Inventory.
From VQ.Gen Require Import inv_rsvq.
Import ListNotations.
Open Scope string_scope.
Definition pinned_inv_rsvq : list (string * kind * bool) :=
  [].
Lemma pin_inv_rsvq : inv_rsvq = pinned_inv_rsvq.
Proof. reflexivity. Qed.

From Coq Require Import Bool Reals String List Arith.
From VQ Require Import Model.GroupCat Model.CastBits Proofs.CastBitsProofs.
From VQ.Gen Require Import p_lfq_codec.
Import ListNotations.
Open Scope R_scope.

Theorem source_bits_from_code : bit_source_of p_lfq_codec = FromCode.
Proof. vm_compute. reflexivity. Qed.
Theorem source_forward_roundtrip (c : R -> R) (s : R) (xs : list R) (q : list R) (n : nat) : 0 < s ->
  forward_of (bit_source_of p_lfq_codec) c s xs = Some (q, n) -> (n < 2 ^ List.length xs)%nat /\ lfq_decode s (List.length xs) n = q.
Proof.
  intros Hs. rewrite source_bits_from_code. cbn [forward_of]. intros H.
  assert (E : lfq_forward c s xs = (q, n)) by congruence. clear H. rename E into H.
  pose proof (lfq_forward_roundtrip c s xs Hs) as HR.
  rewrite H in HR. exact HR.
Qed.

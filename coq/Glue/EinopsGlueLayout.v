(* Glue: einops patterns regenerated from /repo (Gen/pr_vq.v), interpreted by Model/Einops.v, denote the index maps of Model/Layout.v.
   One file per group of sites so that a changed pattern breaks only the obligations of the properties that depend on that site. *)
From Coq Require Import String List Arith Lia.
From VQ Require Import Model.Einops Model.Layout Glue.EinopsGlueBase.
From VQ.Gen Require Import pr_vq.
Import ListNotations.
Open Scope string_scope.

Section Glue.
Context {A : Type}.

(* ---- input side *)
Lemma einops_img_in : exists p, role_pattern pr_vq "VectorQuantize.forward:x" "rearrange" 1 = Some p /\ wf_rearrange p = true /\
  forall (e : env) (X : nat -> nat -> nat -> nat -> A) b t c,
    b < e "b" -> t < e "h" * e "w" -> c < e "c" ->
    rearr p e (of4 X) [b; t; c] = img_in (e "w") X b t c.
Proof. glue. Qed.

Lemma einops_cfirst_in : exists p, role_pattern pr_vq "VectorQuantize.forward:x" "rearrange" 2 = Some p /\ wf_rearrange p = true /\
  forall (e : env) (X : nat -> nat -> nat -> A) b n d,
    b < e "b" -> n < e "n" -> d < e "d" ->
    rearr p e (of3 X) [b; n; d] = cfirst_in X b n d.
Proof. glue. Qed.

(* the ellipsis of the image index pattern is empty for plain indices: a unit axis *)
Lemma einops_img_idx_out : exists p, role_pattern pr_vq "VectorQuantize.forward:embed_ind" "rearrange" 2 = Some p /\ wf_rearrange p = true /\
  forall (e : env) (J : nat -> nat -> A) b h w,
    e "..." = 1 -> b < e "b" -> h < e "h" -> w < e "w" ->
    rearr p e (of2 J) [b; h; w; 0] = img_idx_out (e "w") J b h w.
Proof. glue. Qed.

Lemma einops_cfirst_out : exists p, role_pattern pr_vq "VectorQuantize.forward:quantize" "rearrange" 2 = Some p /\ wf_rearrange p = true /\
  forall (e : env) (Q : nat -> nat -> nat -> A) b d n,
    b < e "b" -> d < e "d" -> n < e "n" ->
    rearr p e (of3 Q) [b; d; n] = cfirst_out Q b d n.
Proof. glue. Qed.

Lemma einops_img_out : exists p, role_pattern pr_vq "VectorQuantize.forward:quantize" "rearrange" 3 = Some p /\ wf_rearrange p = true /\
  forall (e : env) (Q : nat -> nat -> nat -> A) b c h w,
    b < e "b" -> c < e "c" -> h < e "h" -> w < e "w" ->
    rearr p e (of3 Q) [b; c; h; w] = img_out (e "w") Q b c h w.
Proof. glue. Qed.

End Glue.

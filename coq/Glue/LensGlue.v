(* Glue: `lens_to_mask` regenerated from the source (Gen/k_lens_to_mask.v; the generator also insists that the function carries no decorator):
   position n of a row is valid iff n < lens[row]; the valid positions of a row form a prefix. *)
From Coq Require Import ZArith Lia.
From VQ.Gen Require Import k_lens_to_mask.
Open Scope Z_scope.

Lemma glue_lens_to_mask (n len : Z) : k_lens_to_mask n len = true <-> n < len.
Proof. unfold k_lens_to_mask. apply Z.ltb_lt. Qed.

Lemma lens_mask_is_prefix (n m len : Z) : n <= m -> k_lens_to_mask m len = true -> k_lens_to_mask n len = true.
Proof. unfold k_lens_to_mask. intros H Hm. apply Z.ltb_lt in Hm. apply Z.ltb_lt. lia. Qed.

(* a row of max_length N with length len in [0, N] has exactly len valid positions: position n is valid iff it is among the first len *)
Lemma lens_mask_count (N len n : Z) : 0 <= len <= N -> 0 <= n < N -> (k_lens_to_mask n len = true <-> n < len).
Proof. intros _ _. apply glue_lens_to_mask. Qed.

(* pinned source text of Gen item inv_rvq (tools/mkpin.py); the item itself is regenerated from /repo on every run *)
From Coq Require Import List String.
From VQ Require Import Model.Inventory.
From VQ.Gen Require Import inv_rvq.
Import ListNotations.
Open Scope string_scope.
Definition pinned_inv_rvq : list (string * kind * bool) :=
  [].
Lemma pin_inv_rvq : inv_rvq = pinned_inv_rvq.
Proof. reflexivity. Qed.

(* pinned source text of Gen item p_expire (tools/mkpin.py); the item itself is regenerated from /repo on every run *)
From Coq Require Import List String.
From VQ.Gen Require Import p_expire.
Import ListNotations.
Open Scope string_scope.
Definition pinned_p_expire : list string :=
  ["EuclideanCodebook.replace:sampled = self.replace_sample_fn(rearrange(samples, '... -> 1 ...'), mask.sum().item())";
   "EuclideanCodebook.replace:sampled = rearrange(sampled, '1 ... -> ...')";
   "EuclideanCodebook.replace:self.embed.data[ind][mask] = sampled";
   "EuclideanCodebook.replace:self.cluster_size.data[ind][mask] = self.reset_cluster_size";
   "EuclideanCodebook.replace:self.embed_avg.data[ind][mask] = sampled * self.reset_cluster_size";
   "EuclideanCodebook.replace.loop:enumerate(zip(batch_samples, batch_mask))";
   "EuclideanCodebook.pool:rearrange(batch_samples, 'h ... d -> h (...) d')";
   "EuclideanCodebook.reset:default(reset_cluster_size, threshold_ema_dead_code)";
   "EuclideanCodebook.call:self.replace(batch_samples, batch_mask=expired_codes)";
   "CosineSimCodebook.replace:batch_samples = l2norm(batch_samples)";
   "CosineSimCodebook.replace:sampled = self.replace_sample_fn(rearrange(samples, '... -> 1 ...'), mask.sum().item())";
   "CosineSimCodebook.replace:sampled = rearrange(sampled, '1 ... -> ...')";
   "CosineSimCodebook.replace:self.embed.data[ind][mask] = sampled";
   "CosineSimCodebook.replace:self.embed_avg.data[ind][mask] = sampled * self.reset_cluster_size";
   "CosineSimCodebook.replace:self.cluster_size.data[ind][mask] = self.reset_cluster_size";
   "CosineSimCodebook.replace.loop:enumerate(zip(batch_samples, batch_mask))";
   "CosineSimCodebook.pool:rearrange(batch_samples, 'h ... d -> h (...) d')";
   "CosineSimCodebook.reset:default(reset_cluster_size, threshold_ema_dead_code)";
   "CosineSimCodebook.call:self.replace(batch_samples, batch_mask=expired_codes)";
   "sample_vectors.if:num_samples >= num";
   "sample_vectors.indices:torch.randperm(num_samples, device=device)[:num]";
   "sample_vectors.indices:torch.randint(0, num_samples, (num,), device=device)";
   "sample_vectors.return:samples[indices]";
   "vq.expire:x = self._codebook.transform_input(x)";
   "vq.expire:x = self.maybe_split_heads_from_input(x)";
   "vq.expire:self._codebook.expire_codes_(x)";
   "rvq.shared_expire:shared_layer.expire_codes_(torch.cat(all_residuals, dim=-2))";
   "rvq.all_residuals:all_residuals.append(residual)"].
Lemma pin_p_expire : p_expire = pinned_p_expire.
Proof. reflexivity. Qed.

(* the four residual classes each carry their own copy of the dropout arithmetic: all four are tied to the model *)
From Coq Require Import ZArith List Bool String Lia.
From VQ Require Import Model.Dropout.
From VQ.Gen Require Import k_rvq_skip k_rfsq_skip k_rlfq_skip k_rsvq_skip k_rvq_drop_index k_rfsq_drop_index k_rlfq_drop_index k_rsvq_drop_index
  g_rvq_should_dropout g_rfsq_should_dropout g_rlfq_should_dropout g_rsvq_should_dropout
  g_rvq_dropout_enabled g_rfsq_dropout_enabled g_rlfq_dropout_enabled g_rsvq_dropout_enabled.
Import ListNotations.
Open Scope Z_scope.

Lemma glue_skip qi r : k_rvq_skip qi r = skipped qi r /\ k_rfsq_skip qi r = skipped qi r /\ k_rlfq_skip qi r = skipped qi r /\ k_rsvq_skip qi r = skipped qi r.
Proof. repeat split; reflexivity. Qed.

Lemma glue_drop_index r m : k_rvq_drop_index r m = drop_index m r /\ k_rfsq_drop_index r m = drop_index m r
  /\ k_rlfq_drop_index r m = drop_index m r /\ k_rsvq_drop_index r m = drop_index m r.
Proof. repeat split; reflexivity. Qed.

Open Scope string_scope.
Lemma glue_should_dropout_atoms :
  g_rvq_should_dropout_atoms = ["return_loss"; "self_quantize_dropout"; "self_training"] /\
  g_rfsq_should_dropout_atoms = ["self_quantize_dropout"; "self_training"] /\
  g_rlfq_should_dropout_atoms = ["self_quantize_dropout"; "self_training"] /\
  g_rsvq_should_dropout_atoms = ["self_quantize_dropout"; "self_training"].
Proof. repeat split; reflexivity. Qed.

Lemma glue_should_dropout rl qd tr :
  g_rvq_should_dropout rl qd tr = should_dropout tr qd rl /\
  g_rfsq_should_dropout qd tr = should_dropout tr qd false /\
  g_rlfq_should_dropout qd tr = should_dropout tr qd false /\
  g_rsvq_should_dropout qd tr = should_dropout tr qd false.
Proof. unfold should_dropout. destruct rl, qd, tr; repeat split; reflexivity. Qed.

Lemma glue_dropout_enabled_atoms :
  g_rvq_dropout_enabled_atoms = ["num_quantizers_gt_1"; "quantize_dropout"] /\
  g_rfsq_dropout_enabled_atoms = ["num_quantizers_gt_1"; "quantize_dropout"] /\
  g_rlfq_dropout_enabled_atoms = ["num_quantizers_gt_1"; "quantize_dropout"] /\
  g_rsvq_dropout_enabled_atoms = ["num_quantizers_gt_1"; "quantize_dropout"].
Proof. repeat split; reflexivity. Qed.

Lemma glue_dropout_enabled (gt1 flag : bool) :
  g_rvq_dropout_enabled gt1 flag = (flag && gt1)%bool /\ g_rfsq_dropout_enabled gt1 flag = (flag && gt1)%bool /\
  g_rlfq_dropout_enabled gt1 flag = (flag && gt1)%bool /\ g_rsvq_dropout_enabled gt1 flag = (flag && gt1)%bool.
Proof. destruct gt1, flag; repeat split; reflexivity. Qed.

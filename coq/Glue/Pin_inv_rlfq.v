(* pinned source text of Gen item inv_rlfq (tools/mkpin.py); the item itself is regenerated from /repo on every run *)
From Coq Require Import List String.
From VQ Require Import Model.Inventory.
From VQ.Gen Require Import inv_rlfq.
Import ListNotations.
Open Scope string_scope.
Definition pinned_inv_rlfq : list (string * kind * bool) :=
  [].
Lemma pin_inv_rlfq : inv_rlfq = pinned_inv_rlfq.
Proof. reflexivity. Qed.

(* pinned source text of Gen item inv_rpq (tools/mkpin.py); the item itself is regenerated from /repo on every run *)
From Coq Require Import List String.
From VQ Require Import Model.Inventory.
From VQ.Gen Require Import inv_rpq.
Import ListNotations.
Open Scope string_scope.
Definition pinned_inv_rpq : list (string * kind * bool) :=
  [("rand_projs", Buffer, true)].
Lemma pin_inv_rpq : inv_rpq = pinned_inv_rpq.
Proof. reflexivity. Qed.

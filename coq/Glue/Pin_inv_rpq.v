(* pinned source text of Gen item inv_rpq (tools/mkpin.py); the item itself is regenerated from /repo on every run *)
From Coq Require Import List String.
From VQ Require Import Model.Inventory.
From VQ.Gen Require Import inv_rpq.
Import ListNotations.
Open Scope string_scope.
Lemma pin_inv_rpq : inv_rpq =
  [("rand_projs", Buffer, true)].
Proof. reflexivity. Qed.

(* Glue: the einops patterns REGENERATED from /repo (Gen/pr_vq.v, Gen/pr_scalar.v: role of the result, call, pattern string), parsed and
   interpreted by Model/Einops.v, denote exactly the index maps of Model/Layout.v on which the layout theorems (C10, C01 public-level
   selection, C02 / C05 codebook split and merge, C09 mask replication) are proved.  A change of a pattern in the source - '(b h)' into
   '(h b)', a swapped axis, a different grouping - makes the corresponding lemma false, i.e. breaks an obligation. *)
From Coq Require Import String List Arith Lia.
From VQ Require Import Model.Einops Model.Layout.
From VQ.Gen Require Import pr_vq pr_scalar.
Import ListNotations.
Open Scope string_scope.

Definition of2 {A} (X : nat -> nat -> A) : list nat -> A := fun l => X (nth 0 l 0) (nth 1 l 0).
Definition of3 {A} (X : nat -> nat -> nat -> A) : list nat -> A := fun l => X (nth 0 l 0) (nth 1 l 0) (nth 2 l 0).
Definition of4 {A} (X : nat -> nat -> nat -> nat -> A) : list nat -> A := fun l => X (nth 0 l 0) (nth 1 l 0) (nth 2 l 0) (nth 3 l 0).
(* tensors with a leading unit axis ('1 (b h) n d') *)
Definition of1_3 {A} (X : nat -> nat -> nat -> A) : list nat -> A := fun l => X (nth 1 l 0) (nth 2 l 0) (nth 3 l 0).
Definition of1_2 {A} (X : nat -> nat -> A) : list nat -> A := fun l => X (nth 1 l 0) (nth 2 l 0).

Definition fwd := "VectorQuantize.forward".

Ltac glue_start :=
  eexists; split; [vm_compute; reflexivity | split; [vm_compute; reflexivity |]]; intros;
  unfold rearr, index_map, of2, of3, of4, of1_2, of1_3,
    img_in, img_out, img_idx_out, cfirst_in, cfirst_out, heads_sep_in, heads_sep_out, heads_sep_idx,
    heads_shared_in, heads_shared_out, heads_shared_idx, cb_split, cb_merge;
  cbn -[Nat.modulo Nat.div Nat.mul Nat.add];
  rewrite ?Nat.mul_0_l, ?Nat.add_0_l.

Lemma div_lt_mul : forall x a b, x < a * b -> x / b < a.
Proof. intros x a b H. apply Nat.div_lt_upper_bound; [ intro; subst; lia | lia ]. Qed.

Ltac glue_mod :=
  repeat match goal with
  | |- context [ (?x / ?d) mod ?m ] => rewrite (Nat.mod_small (x / d) m) by (apply div_lt_mul; lia)
  | |- context [ ?x mod ?m ] => rewrite (Nat.mod_small x m) by lia
  end.

Ltac glue := glue_start; glue_mod; try reflexivity; f_equal; lia.

Section Glue.
Context {A : Type}.

(* ---- input side *)
Lemma einops_img_in : exists p, role_pattern pr_vq "VectorQuantize.forward:x" "rearrange" 1 = Some p /\ wf_rearrange p = true /\
  forall (e : env) (X : nat -> nat -> nat -> nat -> A) b t c,
    b < e "b" -> t < e "h" * e "w" -> c < e "c" ->
    rearr p e (of4 X) [b; t; c] = img_in (e "w") X b t c.
Proof. glue. Qed.

Lemma einops_cfirst_in : exists p, role_pattern pr_vq "VectorQuantize.forward:x" "rearrange" 2 = Some p /\ wf_rearrange p = true /\
  forall (e : env) (X : nat -> nat -> nat -> A) b n d,
    b < e "b" -> n < e "n" -> d < e "d" ->
    rearr p e (of3 X) [b; n; d] = cfirst_in X b n d.
Proof. glue. Qed.

Lemma einops_heads_shared_in : exists p,
  role_pattern pr_vq "VectorQuantize.maybe_split_heads_from_input:return@not (self.separate_codebook_per_head)" "rearrange" 0 = Some p /\ wf_rearrange p = true /\
  forall (e : env) (X : nat -> nat -> nat -> A) bh n d,
    bh < e "b" * e "h" -> n < e "n" -> d < e "d" ->
    rearr p e (of3 X) [0; bh; n; d] = heads_shared_in (e "h") (e "d") X bh n d.
Proof. glue. Qed.

Lemma einops_heads_sep_in : exists p,
  role_pattern pr_vq "VectorQuantize.maybe_split_heads_from_input:return@self.separate_codebook_per_head" "rearrange" 0 = Some p /\ wf_rearrange p = true /\
  forall (e : env) (X : nat -> nat -> nat -> A) h b n d,
    h < e "h" -> b < e "b" -> n < e "n" -> d < e "d" ->
    rearr p e (of3 X) [h; b; n; d] = heads_sep_in (e "d") X h b n d.
Proof. glue. Qed.

(* ---- indices *)
Lemma einops_heads_sep_idx : exists p, role_pattern pr_vq "VectorQuantize.forward:embed_ind" "rearrange" 0 = Some p /\ wf_rearrange p = true /\
  forall (e : env) (J : nat -> nat -> nat -> A) b n h,
    b < e "b" -> n < e "n" -> h < e "h" ->
    rearr p e (of3 J) [b; n; h] = heads_sep_idx J b n h.
Proof. glue. Qed.

Lemma einops_heads_shared_idx : exists p, role_pattern pr_vq "VectorQuantize.forward:embed_ind" "rearrange" 1 = Some p /\ wf_rearrange p = true /\
  forall (e : env) (J : nat -> nat -> A) b n h,
    b < e "b" -> n < e "n" -> h < e "h" ->
    rearr p e (of1_2 J) [b; n; h] = heads_shared_idx (e "h") J b n h.
Proof. glue. Qed.

(* the ellipsis of the image index pattern is empty for plain indices: a unit axis *)
Lemma einops_img_idx_out : exists p, role_pattern pr_vq "VectorQuantize.forward:embed_ind" "rearrange" 2 = Some p /\ wf_rearrange p = true /\
  forall (e : env) (J : nat -> nat -> A) b h w,
    e "..." = 1 -> b < e "b" -> h < e "h" -> w < e "w" ->
    rearr p e (of2 J) [b; h; w; 0] = img_idx_out (e "w") J b h w.
Proof. glue. Qed.

(* ---- output side *)
Lemma einops_heads_sep_out : exists p, role_pattern pr_vq "VectorQuantize.forward:quantize" "rearrange" 0 = Some p /\ wf_rearrange p = true /\
  forall (e : env) (Q : nat -> nat -> nat -> nat -> A) b n x,
    b < e "b" -> n < e "n" -> x < e "h" * e "d" ->
    rearr p e (of4 Q) [b; n; x] = heads_sep_out (e "d") Q b n x.
Proof. glue. Qed.

Lemma einops_heads_shared_out : exists p, role_pattern pr_vq "VectorQuantize.forward:quantize" "rearrange" 1 = Some p /\ wf_rearrange p = true /\
  forall (e : env) (Q : nat -> nat -> nat -> A) b n x,
    b < e "b" -> n < e "n" -> x < e "h" * e "d" ->
    rearr p e (of1_3 Q) [b; n; x] = heads_shared_out (e "h") (e "d") Q b n x.
Proof. glue. Qed.

Lemma einops_cfirst_out : exists p, role_pattern pr_vq "VectorQuantize.forward:quantize" "rearrange" 2 = Some p /\ wf_rearrange p = true /\
  forall (e : env) (Q : nat -> nat -> nat -> A) b d n,
    b < e "b" -> d < e "d" -> n < e "n" ->
    rearr p e (of3 Q) [b; d; n] = cfirst_out Q b d n.
Proof. glue. Qed.

Lemma einops_img_out : exists p, role_pattern pr_vq "VectorQuantize.forward:quantize" "rearrange" 3 = Some p /\ wf_rearrange p = true /\
  forall (e : env) (Q : nat -> nat -> nat -> A) b c h w,
    b < e "b" -> c < e "c" -> h < e "h" -> w < e "w" ->
    rearr p e (of3 Q) [b; c; h; w] = img_out (e "w") Q b c h w.
Proof. glue. Qed.

(* ---- mask replication into the flattened (codebook, (batch head), tokens) layout: token (b, h, n) is valid iff mask[b][n] *)
Lemma einops_mask_repeat : exists p, role_pattern pr_vq "VectorQuantize.forward:loss_mask" "repeat" 0 = Some p /\ wf_repeat p = true /\
  forall (e : env) (M : nat -> nat -> A) c bh n,
    0 < e "h" -> c < e "c" -> bh < e "b" * e "h" -> n < e "n" ->
    rearr p e (of2 M) [c; bh; n] = M (bh / e "h") n.
Proof. glue. Qed.
(* both occurrences (in-place optimiser loss, commitment loss) use the same replication *)
Lemma einops_mask_repeat_same : find_role pr_vq "VectorQuantize.forward:loss_mask" "repeat" 0 = find_role pr_vq "VectorQuantize.forward:loss_mask" "repeat" 1.
Proof. vm_compute; reflexivity. Qed.

(* ---- FSQ / LFQ codebook split and merge *)
Lemma einops_fsq_split : exists p, role_pattern pr_scalar "FSQ.forward:z" "rearrange" 1 = Some p /\ wf_rearrange p = true /\
  forall (e : env) (X : nat -> nat -> nat -> A) b n c d,
    b < e "b" -> n < e "n" -> c < e "c" -> d < e "d" ->
    rearr p e (of3 X) [b; n; c; d] = cb_split (e "d") X b n c d.
Proof. glue. Qed.

Lemma einops_fsq_merge : exists p, role_pattern pr_scalar "FSQ.forward:codes" "rearrange" 0 = Some p /\ wf_rearrange p = true /\
  forall (e : env) (Q : nat -> nat -> nat -> nat -> A) b n x,
    b < e "b" -> n < e "n" -> x < e "c" * e "d" ->
    rearr p e (of4 Q) [b; n; x] = cb_merge (e "d") Q b n x.
Proof. glue. Qed.

Lemma einops_lfq_split : exists p, role_pattern pr_scalar "LFQ.forward:x" "rearrange" 1 = Some p /\ wf_rearrange p = true /\
  forall (e : env) (X : nat -> nat -> nat -> A) b n c d,
    b < e "b" -> n < e "n" -> c < e "c" -> d < e "d" ->
    rearr p e (of3 X) [b; n; c; d] = cb_split (e "d") X b n c d.
Proof. glue. Qed.

Lemma einops_lfq_merge : exists p, role_pattern pr_scalar "LFQ.forward:x" "rearrange" 2 = Some p /\ wf_rearrange p = true /\
  forall (e : env) (Q : nat -> nat -> nat -> nat -> A) b n x,
    b < e "b" -> n < e "n" -> x < e "c" * e "d" ->
    rearr p e (of4 Q) [b; n; x] = cb_merge (e "d") Q b n x.
Proof. glue. Qed.

End Glue.

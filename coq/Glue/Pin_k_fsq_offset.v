(* pinned source text of Gen item k_fsq_offset (tools/mkpin.py); the item itself is regenerated from /repo on every run *)
From Coq Require Import List String.
From VQ.Gen Require Import k_fsq_offset.
Import ListNotations.
Open Scope string_scope.
Definition pinned_k_fsq_offset : list string :=
  ["torch.where(self._levels % 2 == 0, 0.5, 0.0)"].
Lemma pin_k_fsq_offset : k_fsq_offset = pinned_k_fsq_offset.
Proof. reflexivity. Qed.

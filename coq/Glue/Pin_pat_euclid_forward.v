(* pinned source text of Gen item pat_euclid_forward (tools/mkpin.py); the item itself is regenerated from /repo on every run *)
From Coq Require Import List String.
From VQ.Gen Require Import pat_euclid_forward.
Import ListNotations.
Open Scope string_scope.
Definition pinned_pat_euclid_forward : list (string * string) :=
  [("rearrange", "... -> 1 ...");
   ("pack_one", "h * d");
   ("repeat", "b n -> c (b h n)");
   ("rearrange", "h b n c d -> h (b n) c d");
   ("rearrange", "... d -> ... 1 d");
   ("unpack_one", "h *");
   ("unpack_one", "h * c d");
   ("unpack_one", "h * c");
   ("einsum", "h b n c, h b n c d -> h b n d");
   ("einsum", "h b n c, h c d -> h b n d");
   ("einx.get_at", "h b n [c] d, h b n -> h b n d");
   ("einx.get_at", "h [c] d, h b n -> h b n d");
   ("einsum", "h n d, h n c -> h c d");
   ("rearrange", "1 ... -> ...");
   ("unpack_one", "h * d")].
Lemma pin_pat_euclid_forward : pat_euclid_forward = pinned_pat_euclid_forward.
Proof. reflexivity. Qed.

(* pinned source text of Gen item npinit_vq (tools/mkpin.py); the item itself is regenerated from /repo on every run *)
From Coq Require Import List String.
From VQ.Gen Require Import npinit_vq.
Import ListNotations.
Open Scope string_scope.
Definition pinned_npinit_vq : list string :=
  ["zero=torch.tensor(0.0)"].
Lemma pin_npinit_vq : npinit_vq = pinned_npinit_vq.
Proof. reflexivity. Qed.

#!/bin/bash
# usage: dbg.sh File.v LINE  -> compile the first LINE-1 lines then Show.
f=$1; n=$2
head -n $((n-1)) $f > Cases/_dbg.v
echo "Show. Abort All." >> Cases/_dbg.v
timeout 120 coqc -Q . VQ Cases/_dbg.v 2>&1 | tail -${3:-40}

(* C16: the collective algebra of multi-process training, over the reals; every world size >= 1, unequal batch sizes. *)
From Coq Require Import ZArith List Bool Reals Lra Lia.
From VQ Require Import Num Model.Vec Model.Core Model.Dist Proofs.CoreEMA Proofs.CoreKmeans.
From VQ.Gen Require Import k_ema_inplace.
Import ListNotations.
Open Scope R_scope.

Notation Rv := (list R).
Notation rb := (@rank_batch R).

(* statistics are additive over concatenation of batches *)
Lemma fsum_app (l1 l2 : list R) : fsum R_ops (l1 ++ l2) = fsum R_ops l1 + fsum R_ops l2.
Proof.
  induction l1 as [|x l1 IH]; cbn [app].
  - rewrite fsum_nil. lra.
  - rewrite !fsum_cons, IH. lra.
Qed.
Lemma map2_app {A B C} (f : A -> B -> C) (a1 a2 : list A) (b1 b2 : list B) :
  length a1 = length b1 -> map2 f (a1 ++ a2) (b1 ++ b2) = map2 f a1 b1 ++ map2 f a2 b2.
Proof.
  revert b1; induction a1 as [|x a1 IH]; intros [|y b1] Hl; simpl in *; try discriminate; auto.
  f_equal. apply IH. lia.
Qed.
Lemma vsum_app (d : nat) (l1 l2 : list Rv) : shapedv d l2 ->
  vsum R_ops d (l1 ++ l2) = vadd R_ops (vsum R_ops d l1) (vsum R_ops d l2).
Proof.
  intros H2. induction l1 as [|v l1 IH]; cbn [app].
  - rewrite vsum_nil. symmetry. apply vadd_zero_l. now apply CoreKmeans.vsum_length.
  - rewrite !vsum_cons, IH. apply vadd_assoc.
Qed.
Lemma count_j_app (a b : list (nat * bool)) (j : nat) : count_j R_ops (a ++ b) j = count_j R_ops a j + count_j R_ops b j.
Proof. unfold count_j. rewrite map_app. apply fsum_app. Qed.
Lemma counts_app (K : nat) (a b : list (nat * bool)) : counts R_ops K (a ++ b) = vadd R_ops (counts R_ops K a) (counts R_ops K b).
Proof. unfold counts, vadd. rewrite map2_map_map. apply map_ext. intros j. apply count_j_app. Qed.
Lemma sum_j_app (d : nat) (xa xb : list Rv) (a b : list (nat * bool)) (j : nat) :
  length xa = length a -> Forall (fun v => length v = d) xa -> Forall (fun v => length v = d) xb ->
  sum_j R_ops d (xa ++ xb) (a ++ b) j = vadd R_ops (sum_j R_ops d xa a j) (sum_j R_ops d xb b j).
Proof.
  intros Hl Ha Hb. unfold sum_j. rewrite map2_app by exact Hl. apply vsum_app.
  unfold shapedv. apply sel_rows_length. exact Hb.
Qed.
Lemma sums_app (K d : nat) (xa xb : list Rv) (a b : list (nat * bool)) :
  length xa = length a -> Forall (fun v => length v = d) xa -> Forall (fun v => length v = d) xb ->
  sums R_ops K d (xa ++ xb) (a ++ b) = map2 (vadd R_ops) (sums R_ops K d xa a) (sums R_ops K d xb b).
Proof.
  intros Hl Ha Hb. unfold sums. rewrite map2_map_map. apply map_ext. intros j. now apply sum_j_app.
Qed.
Lemma map_const_seq {A} (z : A) (f : nat -> A) (s K : nat) : (forall j, f j = z) -> map f (seq s K) = repeat z K.
Proof.
  intros Hf. revert s. induction K as [|K IH]; intros s; cbn [seq map repeat]; [reflexivity|].
  f_equal; [apply Hf | apply IH].
Qed.
Lemma counts_nil (K : nat) : counts R_ops K [] = vzero R_ops K.
Proof. unfold counts, vzero. apply map_const_seq. intros j. reflexivity. Qed.
Lemma sums_nil (K d : nat) : sums R_ops K d [] [] = repeat (vzero R_ops d) K.
Proof. unfold sums. apply map_const_seq. intros j. reflexivity. Qed.
Lemma vsum_all_cons (K : nat) (v : Rv) (vs : list Rv) : vsum_all R_ops K (v :: vs) = vadd R_ops v (vsum_all R_ops K vs).
Proof. reflexivity. Qed.
Lemma msum_all_cons (K d : nat) (m : list Rv) (ms : list (list Rv)) :
  msum_all R_ops K d (m :: ms) = map2 (vadd R_ops) m (msum_all R_ops K d ms).
Proof. reflexivity. Qed.
Lemma concat_batch_fst_cons (b : rb) (ranks : list rb) : fst (concat_batch (b :: ranks)) = fst b ++ fst (concat_batch ranks).
Proof. reflexivity. Qed.
Lemma concat_batch_snd_cons (b : rb) (ranks : list rb) : snd (concat_batch (b :: ranks)) = snd b ++ snd (concat_batch ranks).
Proof. reflexivity. Qed.

Definition ranks_ok (d : nat) (ranks : list rb) : Prop :=
  Forall (fun b : rb => length (fst b) = length (snd b) /\ Forall (fun v => length v = d) (fst b)) ranks.

(* all-reduced counts / sums are the counts / sums of the concatenated batch *)
Theorem reduced_counts_are_global (K : nat) (ranks : list rb) :
  vsum_all R_ops K (map (fun b : rb => counts R_ops K (snd b)) ranks) = counts R_ops K (snd (concat_batch ranks)).
Proof.
  induction ranks as [|b ranks IH].
  - symmetry. apply counts_nil.
  - cbn [map]. rewrite vsum_all_cons, IH, concat_batch_snd_cons, counts_app. reflexivity.
Qed.
Lemma ranks_ok_concat (d : nat) (ranks : list rb) : ranks_ok d ranks ->
  length (fst (concat_batch ranks)) = length (snd (concat_batch ranks)) /\
  Forall (fun v => length v = d) (fst (concat_batch ranks)).
Proof.
  induction 1 as [|b ranks [Hl Hs] Hr [IHl IHs]].
  - split; [reflexivity | constructor].
  - rewrite concat_batch_fst_cons, concat_batch_snd_cons. split.
    + rewrite !app_length. congruence.
    + apply Forall_app. split; assumption.
Qed.
Theorem reduced_sums_are_global (K d : nat) (ranks : list rb) : ranks_ok d ranks ->
  msum_all R_ops K d (map (fun b : rb => sums R_ops K d (fst b) (snd b)) ranks) =
  sums R_ops K d (fst (concat_batch ranks)) (snd (concat_batch ranks)).
Proof.
  induction 1 as [|b ranks [Hl Hs] Hr IH].
  - symmetry. apply sums_nil.
  - cbn [map]. rewrite msum_all_cons, IH, concat_batch_fst_cons, concat_batch_snd_cons.
    destruct (ranks_ok_concat d ranks Hr) as [_ Hc].
    rewrite sums_app by assumption. reflexivity.
Qed.

(* with both statistics all-reduced, every rank computes exactly the single-process update on the concatenated batch *)
Theorem dist_equals_single_process (decay : R) (d : nat) (s : cstate R) (ranks : list rb) (r : nat) : ranks_ok d ranks ->
  dist_accumulate R_ops decay d true true s ranks r =
  ema_accumulate R_ops decay d s (fst (concat_batch ranks)) (snd (concat_batch ranks)).
Proof.
  intros Hok. unfold dist_accumulate, ema_accumulate. cbv zeta.
  rewrite reduced_counts_are_global, (reduced_sums_are_global _ d ranks Hok). reflexivity.
Qed.
(* hence all ranks hold identical statistics after the step, whatever their (unequal) local batches *)
Theorem ranks_agree (decay : R) (d : nat) (s : cstate R) (ranks : list rb) (r r' : nat) : ranks_ok d ranks ->
  dist_accumulate R_ops decay d true true s ranks r = dist_accumulate R_ops decay d true true s ranks r'.
Proof.
  intros Hok. rewrite (dist_equals_single_process decay d s ranks r Hok), (dist_equals_single_process decay d s ranks r' Hok).
  reflexivity.
Qed.
(* and after any history of steps starting from equal states (induction over the history) *)
Definition dist_run (decay : R) (d : nat) (hist : list (list rb)) (s : cstate R) (r : nat) : cstate R :=
  fold_left (fun st ranks => dist_accumulate R_ops decay d true true st ranks r) hist s.
Theorem ranks_agree_after_any_history (decay : R) (d : nat) (hist : list (list rb)) (s : cstate R) (r r' : nat) :
  Forall (ranks_ok d) hist -> dist_run decay d hist s r = dist_run decay d hist s r'.
Proof.
  intros Hh. revert s. unfold dist_run.
  induction Hh as [|ranks hist Hr Hh IH]; intros s; cbn [fold_left]; [reflexivity|].
  rewrite (ranks_agree decay d s ranks r r' Hr). apply IH.
Qed.
(* the proof needs BOTH reductions: without the sum reduction two ranks with different batches end up with different sums *)
Theorem missing_sum_reduce_refuted : exists (s : cstate R) (ranks : list rb),
  ranks_ok 1 ranks /\ dist_accumulate R_ops (/2) 1 true false s ranks 0 <> dist_accumulate R_ops (/2) 1 true false s ranks 1.
Proof.
  exists (mkst [[0]] [[0]] [1] true), [([[1]], [(0%nat, true)]); ([[3]; [5]], [(0%nat, true); (0%nat, true)])].
  split.
  - repeat constructor.
  - intro H. apply (f_equal (fun s => nth 0 (nth 0 (embed_avg s) []) 0)) in H.
    cbn in H. unfold k_ema_inplace, lerp in H. cbn in H. lra.
Qed.
Theorem missing_count_reduce_refuted : exists (s : cstate R) (ranks : list rb),
  ranks_ok 1 ranks /\ dist_accumulate R_ops (/2) 1 false true s ranks 0 <> dist_accumulate R_ops (/2) 1 false true s ranks 1.
Proof.
  exists (mkst [[0]] [[0]] [1] true), [([[1]], [(0%nat, true)]); ([[3]; [5]], [(0%nat, true); (0%nat, true)])].
  split.
  - repeat constructor.
  - intro H. apply (f_equal (fun s => nth 0 (cluster_size s) 0)) in H.
    cbn in H. unfold k_ema_inplace, lerp in H. cbn in H. lra.
Qed.

Lemma map2_repeat_l {A B} (g : A -> B -> A) (z : A) (K : nat) (bins : list B) :
  (forall b, g z b = z) -> length bins = K -> map2 g (repeat z K) bins = repeat z K.
Proof.
  intros Hg. revert bins. induction K as [|K IH]; intros [|b bins] Hl; try discriminate; [reflexivity|].
  cbn [repeat map2]. f_equal; [apply Hg | apply IH; now injection Hl].
Qed.
Lemma map2_vadd_distr (g : Rv -> R -> Rv) (A B : list Rv) (bins : list R) :
  (forall s t b, g (vadd R_ops s t) b = vadd R_ops (g s b) (g t b)) ->
  map2 (vadd R_ops) (map2 g A bins) (map2 g B bins) = map2 g (map2 (vadd R_ops) A B) bins.
Proof.
  intros Hg. revert B bins. induction A as [|a A IH]; intros [|b B] [|c bins]; simpl; auto.
  f_equal; [symmetry; apply Hg | apply IH].
Qed.
Lemma msum_all_pointwise (K d : nat) (g : Rv -> R -> Rv) (bins : list R) (ranks : list rb) :
  (forall s t b, g (vadd R_ops s t) b = vadd R_ops (g s b) (g t b)) ->
  (forall b, g (vzero R_ops d) b = vzero R_ops d) ->
  length bins = K -> ranks_ok d ranks ->
  msum_all R_ops K d (map (fun p : rb => map2 g (sums R_ops K d (fst p) (snd p)) bins) ranks) =
  map2 g (sums R_ops K d (fst (concat_batch ranks)) (snd (concat_batch ranks))) bins.
Proof.
  intros Hadd Hz Hl Hok. induction Hok as [|p ranks [Hpl Hps] Hr IH].
  - change (sums R_ops K d (fst (concat_batch [])) (snd (concat_batch []))) with (sums R_ops K d [] []).
    rewrite sums_nil. symmetry. now apply map2_repeat_l.
  - cbn [map]. rewrite msum_all_cons, IH, concat_batch_fst_cons, concat_batch_snd_cons.
    destruct (ranks_ok_concat d ranks Hr) as [_ Hc].
    rewrite sums_app by assumption. now apply map2_vadd_distr.
Qed.
Lemma combine_map_r {A B} (h : A -> B) (l : list A) : combine l (map h l) = map (fun x => (x, h x)) l.
Proof. induction l as [|x l IH]; simpl; [reflexivity | now rewrite IH]. Qed.
Lemma Forall_concat_rows {A} (P : A -> Prop) (ls : list (list A)) : Forall (Forall P) ls -> Forall P (concat ls).
Proof.
  induction 1 as [|l ls Hl Hls IH]; cbn [concat]; [constructor|]. apply Forall_app. split; assumption.
Qed.
Lemma concat_batch_tagged (h : Rv -> nat * bool) (datas : list (list Rv)) :
  concat_batch (map (fun data => (data, map h data)) datas) = (concat datas, map h (concat datas)).
Proof.
  unfold concat_batch. rewrite !map_map. cbn [fst snd]. rewrite map_id. f_equal.
  rewrite concat_map. reflexivity.
Qed.
Lemma ranks_ok_tagged (d : nat) (h : Rv -> nat * bool) (datas : list (list Rv)) :
  Forall (fun data => Forall (fun v => length v = d) data) datas ->
  ranks_ok d (map (fun data => (data, map h data)) datas).
Proof.
  intros H. unfold ranks_ok. apply Forall_map. induction H as [|data datas Hd Hds IH]; constructor; [|exact IH].
  cbn [fst snd]. split; [now rewrite map_length | exact Hd].
Qed.
(* synchronised k-means: local assignment + all-reduced bins + local sums over GLOBAL bins + all-reduced means
   = one single-process k-means iteration on the concatenation of all ranks' data *)
Theorem dist_kmeans_equals_single_process (score : Rv -> Rv -> R) (means : list Rv) (datas : list (list Rv)) (d : nat) :
  Forall (fun data => Forall (fun v => length v = d) data) datas -> Forall (fun v => length v = d) means ->
  concat datas <> [] -> means <> [] ->
  dist_kmeans_means R_ops score means datas = kmeans_iter R_ops score (fun v => v) (concat datas) means.
Proof.
  intros Hds Hm Hne Hmne.
  assert (Hcat : shapedv d (concat datas)) by (apply Forall_concat_rows; exact Hds).
  unfold dist_kmeans_means, kmeans_iter. cbv zeta. unfold vec in *.
  rewrite (dim_of_shaped d (concat datas) Hcat Hne).
  set (K := length means). set (h := fun x : list R => (select R_ops score means x, true)).
  rewrite combine_map_r. set (ranks := map (fun data : list (list R) => (data, map h data)) datas).
  assert (Hok : ranks_ok d ranks) by (apply ranks_ok_tagged; exact Hds).
  assert (Hcb : concat_batch ranks = (concat datas, map h (concat datas))) by apply concat_batch_tagged.
  assert (Hb : vsum_all R_ops K (map (counts R_ops K) (map (fun data : list (list R) => map h data) datas)) =
               counts R_ops K (map h (concat datas))).
  { pose proof (reduced_counts_are_global K ranks) as HC. rewrite Hcb in HC. cbn [snd] in HC.
    rewrite <- HC. unfold ranks. rewrite !map_map. reflexivity. }
  rewrite Hb. set (bins := counts R_ops K (map h (concat datas))).
  set (g := fun (s : list R) (b : R) => vdivs R_ops s (if eqb R_ops b (zero R_ops) then one R_ops else b)).
  pose proof (msum_all_pointwise K d g bins ranks) as HN.
  rewrite Hcb in HN. cbn [fst snd] in HN. unfold rank_batch, vec in HN. rewrite HN.
  - reflexivity.
  - intros s t b. unfold g. apply vdivs_vadd.
  - intros b. unfold g. apply vdivs_zero.
  - unfold bins. apply counts_length.
  - exact Hok.
Qed.

(* LFQ: the rank mean of per-rank average distributions *)
Lemma vsum_all_length (n : nat) (ps : list Rv) : Forall (fun p => length p = n) ps -> length (vsum_all R_ops n ps) = n.
Proof. intros H. apply (CoreKmeans.vsum_length n ps H). Qed.
Lemma nth_vsum_all (n : nat) (ps : list Rv) (i : nat) : Forall (fun p => length p = n) ps -> (i < n)%nat ->
  nth i (vsum_all R_ops n ps) 0 = fsum R_ops (map (fun p => nth i p 0) ps).
Proof.
  intros H Hi. induction H as [|p ps Hp Hps IH].
  - cbn [map]. rewrite fsum_nil. change (vsum_all R_ops n []) with (repeat 0 n). apply nth_repeat.
  - cbn [map]. rewrite fsum_cons, <- IH, vsum_all_cons. unfold vadd.
    rewrite (nth_map2 _ _ _ i 0 0 0) by (try rewrite vsum_all_length by exact Hps; try rewrite Hp; exact Hi).
    reflexivity.
Qed.
Theorem rank_mean_is_mean (n : nat) (ps : list Rv) (i : nat) : ps <> [] -> Forall (fun p => length p = n) ps -> (i < n)%nat ->
  nth i (rank_mean R_ops n ps) 0 = fsum R_ops (map (fun p => nth i p 0) ps) / INR (length ps).
Proof.
  intros _ Hps Hi. unfold rank_mean, vdivs.
  rewrite (nth_map_in _ _ i 0 0) by (rewrite vsum_all_length by exact Hps; exact Hi).
  rewrite nth_vsum_all by assumption. rewrite ofnat_INR. reflexivity.
Qed.

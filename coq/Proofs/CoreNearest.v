(* C01: the assignment of the codebook model picks a nearest code.  Over the reals, for every codebook size,
   dimension and codebook content (duplicates and zero codes allowed). *)
From Coq Require Import ZArith List Bool Reals Lra Lia.
From VQ Require Import Num Model.Vec Model.Core.
From VQ.Gen Require Import k_cdist g_gumbel_noise.
Import ListNotations.
Open Scope R_scope.

Notation Rv := (list R).

(* ---------- shared list / scalar lemmas ---------- *)
Lemma nth_map_lt {A B : Type} (g : A -> B) (l : list A) (j : nat) (dA : A) (dB : B) :
  (j < length l)%nat -> nth j (map g l) dB = g (nth j l dA).
Proof.
  intros Hj. rewrite (nth_indep (map g l) dB (g dA)) by (rewrite map_length; exact Hj).
  apply map_nth.
Qed.
Lemma map_neq_nil {A B : Type} (g : A -> B) (l : list A) : l <> [] -> map g l <> [].
Proof. destruct l as [|a l']; [congruence | discriminate]. Qed.
Lemma Rltb_iff (a b c d : R) : (a < b <-> c < d) -> Rltb a b = Rltb c d.
Proof.
  intros H. unfold Rltb. destruct (Rlt_dec a b) as [Hab|Hab], (Rlt_dec c d) as [Hcd|Hcd];
    try reflexivity; exfalso; tauto.
Qed.
Lemma argmax_cons (x : R) (t : list R) : t <> [] ->
  argmax_first R_ops (x :: t) =
  if Rltb x (nth (argmax_first R_ops t) t 0) then S (argmax_first R_ops t) else 0%nat.
Proof. destruct t as [|y t']; [congruence | reflexivity]. Qed.
Lemma argmin_cons (x : R) (t : list R) : t <> [] ->
  argmin_first R_ops (x :: t) =
  if Rltb (nth (argmin_first R_ops t) t 0) x then S (argmin_first R_ops t) else 0%nat.
Proof. destruct t as [|y t']; [congruence | reflexivity]. Qed.
Lemma length_pos_neq_nil {A : Type} (l : list A) (j : nat) : (j < length l)%nat -> l <> [].
Proof. destruct l as [|a l']; simpl; [lia | discriminate]. Qed.

Lemma argmax_spec (l : list R) : l <> [] ->
  (argmax_first R_ops l < length l)%nat /\
  (forall j, (j < length l)%nat -> nth j l 0 <= nth (argmax_first R_ops l) l 0) /\
  (forall j, (j < argmax_first R_ops l)%nat -> nth j l 0 < nth (argmax_first R_ops l) l 0).
Proof.
  induction l as [|x t IH]; intros Hne; [congruence|].
  destruct t as [|y t'].
  - simpl. split; [lia|]. split.
    + intros j Hj. assert (Hj0 : j = 0%nat) by lia. subst j. simpl. lra.
    + intros j Hj. lia.
  - assert (Hne' : y :: t' <> []) by discriminate.
    specialize (IH Hne'). rewrite (argmax_cons x _ Hne').
    remember (y :: t') as t eqn:Ht. clear Ht.
    remember (argmax_first R_ops t) as m eqn:Hm. clear Hm.
    destruct IH as (IH1 & IH2 & IH3).
    destruct (Rltb x (nth m t 0)) eqn:E.
    + apply Rltb_true in E. split; [simpl; lia|]. split.
      * intros [|j] Hj; simpl in *; [lra | apply IH2; lia].
      * intros [|j] Hj; simpl; [lra | apply IH3; lia].
    + apply Rltb_false in E. split; [simpl; lia|]. split.
      * intros [|j] Hj; simpl in *; [lra |]. assert (Hj' : (j < length t)%nat) by lia.
        specialize (IH2 j Hj'). lra.
      * intros j Hj; lia.
Qed.
Lemma argmin_spec (l : list R) : l <> [] ->
  (argmin_first R_ops l < length l)%nat /\
  (forall j, (j < length l)%nat -> nth (argmin_first R_ops l) l 0 <= nth j l 0) /\
  (forall j, (j < argmin_first R_ops l)%nat -> nth (argmin_first R_ops l) l 0 < nth j l 0).
Proof.
  induction l as [|x t IH]; intros Hne; [congruence|].
  destruct t as [|y t'].
  - simpl. split; [lia|]. split.
    + intros j Hj. assert (Hj0 : j = 0%nat) by lia. subst j. simpl. lra.
    + intros j Hj. lia.
  - assert (Hne' : y :: t' <> []) by discriminate.
    specialize (IH Hne'). rewrite (argmin_cons x _ Hne').
    remember (y :: t') as t eqn:Ht. clear Ht.
    remember (argmin_first R_ops t) as m eqn:Hm. clear Hm.
    destruct IH as (IH1 & IH2 & IH3).
    destruct (Rltb (nth m t 0) x) eqn:E.
    + apply Rltb_true in E. split; [simpl; lia|]. split.
      * intros [|j] Hj; simpl in *; [lra | apply IH2; lia].
      * intros [|j] Hj; simpl; [lra | apply IH3; lia].
    + apply Rltb_false in E. split; [simpl; lia|]. split.
      * intros [|j] Hj; simpl in *; [lra |]. assert (Hj' : (j < length t)%nat) by lia.
        specialize (IH2 j Hj'). lra.
      * intros j Hj; lia.
Qed.

(* ---------- argmax / argmin return the FIRST extremal index ---------- *)
Lemma argmax_first_lt (l : list R) : l <> [] -> (argmax_first R_ops l < length l)%nat.
Proof. intros Hne. apply (argmax_spec l Hne). Qed.
Lemma argmax_first_max (l : list R) (j : nat) : (j < length l)%nat -> nth j l 0 <= nth (argmax_first R_ops l) l 0.
Proof. intros Hj. apply (argmax_spec l (length_pos_neq_nil l j Hj)); exact Hj. Qed.
Lemma argmax_first_first (l : list R) (j : nat) : (j < argmax_first R_ops l)%nat -> nth j l 0 < nth (argmax_first R_ops l) l 0.
Proof.
  intros Hj. assert (Hne : l <> []) by (destruct l as [|a l']; [simpl in Hj; lia | discriminate]).
  apply (argmax_spec l Hne); exact Hj.
Qed.
Lemma argmin_first_lt (l : list R) : l <> [] -> (argmin_first R_ops l < length l)%nat.
Proof. intros Hne. apply (argmin_spec l Hne). Qed.
Lemma argmin_first_min (l : list R) (j : nat) : (j < length l)%nat -> nth (argmin_first R_ops l) l 0 <= nth j l 0.
Proof. intros Hj. apply (argmin_spec l (length_pos_neq_nil l j Hj)); exact Hj. Qed.
Lemma argmin_first_first (l : list R) (j : nat) : (j < argmin_first R_ops l)%nat -> nth (argmin_first R_ops l) l 0 < nth j l 0.
Proof.
  intros Hj. assert (Hne : l <> []) by (destruct l as [|a l']; [simpl in Hj; lia | discriminate]).
  apply (argmin_spec l Hne); exact Hj.
Qed.
Lemma argmax_ext_order_aux (l : list R) : forall l' : list R, length l = length l' ->
  (forall i j, (i < length l)%nat -> (j < length l)%nat -> (nth i l 0 < nth j l 0 <-> nth i l' 0 < nth j l' 0)) ->
  argmax_first R_ops l = argmax_first R_ops l'.
Proof.
  induction l as [|x t IH]; intros l' Hlen Hord.
  - destruct l' as [|x' t']; [reflexivity | simpl in Hlen; discriminate].
  - destruct l' as [|x' t']; [simpl in Hlen; discriminate|].
    simpl in Hlen. injection Hlen as Hlen.
    assert (IHt : argmax_first R_ops t = argmax_first R_ops t').
    { apply IH; [exact Hlen|]. intros i j Hi Hj.
      apply (Hord (S i) (S j)); simpl; lia. }
    destruct t as [|y t0].
    + destruct t' as [|y' t0']; [reflexivity | simpl in Hlen; discriminate].
    + destruct t' as [|y' t0']; [simpl in Hlen; discriminate|].
      assert (Hne : y :: t0 <> []) by discriminate.
      assert (Hne' : y' :: t0' <> []) by discriminate.
      rewrite (argmax_cons x _ Hne), (argmax_cons x' _ Hne'), <- IHt.
      pose proof (argmax_first_lt _ Hne) as Hm.
      remember (y :: t0) as t eqn:Ht. clear Ht.
      remember (y' :: t0') as t' eqn:Ht'. clear Ht'.
      remember (argmax_first R_ops t) as m eqn:Em. clear Em.
      assert (HR : Rltb x (nth m t 0) = Rltb x' (nth m t' 0)).
      { apply Rltb_iff. apply (Hord 0%nat (S m)); simpl; lia. }
      rewrite HR. reflexivity.
Qed.
(* the index depends only on the order of the scores: a strictly increasing re-scoring does not move it *)
Lemma argmax_first_monotone (f : R -> R) (l : list R) :
  (forall a b, a < b <-> f a < f b) -> argmax_first R_ops (map f l) = argmax_first R_ops l.
Proof.
  intros Hf. symmetry. apply argmax_ext_order_aux.
  - rewrite map_length. reflexivity.
  - intros i j Hi Hj. rewrite (nth_map_lt f l i 0 0 Hi), (nth_map_lt f l j 0 0 Hj). apply Hf.
Qed.
Lemma argmax_first_ext_order (l l' : list R) : length l = length l' ->
  (forall i j, (i < length l)%nat -> (j < length l)%nat -> (nth i l 0 < nth j l 0 <-> nth i l' 0 < nth j l' 0)) ->
  argmax_first R_ops l = argmax_first R_ops l'.
Proof. apply argmax_ext_order_aux. Qed.

Lemma dot_cons (a b : R) (x c : Rv) : dot R_ops (a :: x) (b :: c) = a * b + dot R_ops x c.
Proof. reflexivity. Qed.
Lemma dot_nil_l (c : Rv) : dot R_ops [] c = 0.
Proof. reflexivity. Qed.
Lemma dot_nil_r (x : Rv) : dot R_ops x [] = 0.
Proof. destruct x as [|a x']; reflexivity. Qed.
Lemma sqnorm_cons (a : R) (x : Rv) : sqnorm R_ops (a :: x) = a * a + sqnorm R_ops x.
Proof. reflexivity. Qed.
Lemma sqnorm_nil : sqnorm R_ops [] = 0.
Proof. reflexivity. Qed.
Lemma vsub_cons (a b : R) (x c : Rv) : vsub R_ops (a :: x) (b :: c) = (a - b) :: vsub R_ops x c.
Proof. reflexivity. Qed.
Lemma sqnorm_nonneg (v : Rv) : 0 <= sqnorm R_ops v.
Proof.
  induction v as [|a v IH]; [rewrite sqnorm_nil; lra|].
  rewrite sqnorm_cons. pose proof (Rle_0_sqr a) as Ha. unfold Rsqr in Ha. lra.
Qed.
(* ---------- the code's distance formula ---------- *)
Lemma sqdist_nonneg (x c : Rv) : 0 <= sqdist R_ops x c.
Proof. unfold sqdist. apply sqnorm_nonneg. Qed.
(* x.x + c.c - 2 x.c = |x - c|^2  (equal lengths; torch raises otherwise) *)
Lemma cdist_expansion (x c : Rv) : length x = length c ->
  sqnorm R_ops x + sqnorm R_ops c + dot R_ops x c * (-2) = sqdist R_ops x c.
Proof.
  revert c. induction x as [|a x IH]; intros c Hlen; destruct c as [|b c]; simpl in Hlen; try discriminate.
  - unfold sqdist. change (vsub R_ops [] []) with (@nil R). rewrite sqnorm_nil, dot_nil_l. lra.
  - injection Hlen as Hlen. specialize (IH c Hlen). unfold sqdist in *.
    rewrite vsub_cons, !sqnorm_cons, dot_cons, <- IH. ring.
Qed.
Lemma negcdist_value (x c : Rv) : length x = length c -> negcdist R_ops sqrt x c = - sqrt (sqdist R_ops x c).
Proof.
  intros Hlen.
  assert (E : negcdist R_ops sqrt x c =
    - sqrt (if Rleb (sqnorm R_ops x + sqnorm R_ops c + dot R_ops x c * (-2)) 0 then 0
            else sqnorm R_ops x + sqnorm R_ops c + dot R_ops x c * (-2))) by reflexivity.
  rewrite E, (cdist_expansion x c Hlen).
  destruct (Rleb (sqdist R_ops x c) 0) eqn:Hle; [|reflexivity].
  apply Rleb_true in Hle. pose proof (sqdist_nonneg x c) as Hnn.
  replace (sqdist R_ops x c) with 0 by lra. reflexivity.
Qed.
(* the clamp and the sqrt never change which code wins *)
Lemma negcdist_order (x c c' : Rv) : length x = length c -> length x = length c' ->
  (negcdist R_ops sqrt x c < negcdist R_ops sqrt x c' <-> sqdist R_ops x c' < sqdist R_ops x c).
Proof.
  intros Hc Hc'. rewrite (negcdist_value x c Hc), (negcdist_value x c' Hc').
  pose proof (sqdist_nonneg x c) as Ha. pose proof (sqdist_nonneg x c') as Hb.
  split; intros H.
  - apply sqrt_lt_0_alt. lra.
  - assert (Hs : sqrt (sqdist R_ops x c') < sqrt (sqdist R_ops x c)) by (apply sqrt_lt_1_alt; lra).
    lra.
Qed.

Definition nearest_rel (cb : list Rv) (x : Rv) (i : nat) : Prop :=
  (i < length cb)%nat /\ forall j, (j < length cb)%nat -> sqdist R_ops x (nth i cb []) <= sqdist R_ops x (nth j cb []).
Definition cos_nearest_rel (cb : list Rv) (x : Rv) (i : nat) : Prop :=
  (i < length cb)%nat /\ forall j, (j < length cb)%nat -> dot R_ops x (nth j cb []) <= dot R_ops x (nth i cb []).

Definition shaped (d : nat) (cb : list Rv) : Prop := Forall (fun c => length c = d) cb.


Lemma shaped_nth (d : nat) (cb : list Rv) (j : nat) : shaped d cb -> (j < length cb)%nat -> length (nth j cb []) = d.
Proof.
  intros Hs Hj. unfold shaped in Hs. rewrite Forall_forall in Hs. apply Hs. apply nth_In. exact Hj.
Qed.
Lemma negsqdist_value (x c : Rv) : negsqdist R_ops x c = - sqdist R_ops x c.
Proof. reflexivity. Qed.
Lemma max_score_nearest_aux (cb : list Rv) (x : Rv) (i : nat) : shaped (length x) cb -> (i < length cb)%nat ->
  (forall j, (j < length cb)%nat -> negcdist R_ops sqrt x (nth j cb []) <= negcdist R_ops sqrt x (nth i cb [])) ->
  nearest_rel cb x i.
Proof.
  intros Hs Hi Hmax. split; [exact Hi|]. intros j Hj.
  apply Rnot_lt_le. intros Hlt.
  assert (Hli : length x = length (nth i cb [])) by (symmetry; apply shaped_nth; assumption).
  assert (Hlj : length x = length (nth j cb [])) by (symmetry; apply shaped_nth; assumption).
  apply (negcdist_order x (nth i cb []) (nth j cb []) Hli Hlj) in Hlt.
  specialize (Hmax j Hj). lra.
Qed.

(* Euclidean codebook: the selected index is a nearest code, and it is the first such index *)
Theorem select_euclid_nearest (cb : list Rv) (x : Rv) : cb <> [] -> shaped (length x) cb ->
  nearest_rel cb x (select R_ops (negcdist R_ops sqrt) cb x).
Proof.
  intros Hne Hs. unfold select.
  pose proof (map_neq_nil (negcdist R_ops sqrt x) cb Hne) as Hne'.
  pose proof (argmax_first_lt _ Hne') as Hlt. rewrite map_length in Hlt.
  apply max_score_nearest_aux; [exact Hs | exact Hlt |].
  intros j Hj.
  pose proof (argmax_first_max (map (negcdist R_ops sqrt x) cb) j) as Hmax.
  rewrite map_length in Hmax. specialize (Hmax Hj).
  rewrite (nth_map_lt (negcdist R_ops sqrt x) cb j [] 0 Hj) in Hmax.
  rewrite (nth_map_lt (negcdist R_ops sqrt x) cb _ [] 0 Hlt) in Hmax. exact Hmax.
Qed.
Theorem select_euclid_first (cb : list Rv) (x : Rv) (j : nat) : shaped (length x) cb ->
  (j < select R_ops (negcdist R_ops sqrt) cb x)%nat ->
  sqdist R_ops x (nth (select R_ops (negcdist R_ops sqrt) cb x) cb []) < sqdist R_ops x (nth j cb []).
Proof.
  intros Hs Hj. unfold select in *.
  assert (Hne : cb <> []) by (destruct cb as [|c0 cb']; [simpl in Hj; lia | discriminate]).
  pose proof (map_neq_nil (negcdist R_ops sqrt x) cb Hne) as Hne'.
  pose proof (argmax_first_lt _ Hne') as Hlt. rewrite map_length in Hlt.
  pose proof (argmax_first_first (map (negcdist R_ops sqrt x) cb) j Hj) as Hfirst.
  assert (Hjl : (j < length cb)%nat) by (eapply Nat.lt_trans; [exact Hj | exact Hlt]).
  rewrite (nth_map_lt (negcdist R_ops sqrt x) cb j [] 0 Hjl) in Hfirst.
  rewrite (nth_map_lt (negcdist R_ops sqrt x) cb _ [] 0 Hlt) in Hfirst.
  apply (negcdist_order x (nth j cb [])); [symmetry; apply shaped_nth; assumption
                                           | symmetry; apply shaped_nth; assumption | exact Hfirst].
Qed.
(* the sqrt-free score used when the model is executed on rationals selects the same index *)
Theorem select_negcdist_negsqdist (cb : list Rv) (x : Rv) : shaped (length x) cb ->
  select R_ops (negcdist R_ops sqrt) cb x = select R_ops (negsqdist R_ops) cb x.
Proof.
  intros Hs. unfold select. apply argmax_first_ext_order.
  - rewrite !map_length. reflexivity.
  - intros i j Hi Hj. rewrite map_length in Hi, Hj.
    rewrite (nth_map_lt (negcdist R_ops sqrt x) cb i [] 0 Hi), (nth_map_lt (negcdist R_ops sqrt x) cb j [] 0 Hj).
    rewrite (nth_map_lt (negsqdist R_ops x) cb i [] 0 Hi), (nth_map_lt (negsqdist R_ops x) cb j [] 0 Hj).
    rewrite !negsqdist_value.
    assert (Hli : length x = length (nth i cb [])) by (symmetry; apply shaped_nth; assumption).
    assert (Hlj : length x = length (nth j cb [])) by (symmetry; apply shaped_nth; assumption).
    rewrite (negcdist_order x _ _ Hli Hlj). unfold vec in *. split; intros H; lra.
Qed.
(* mutation witness: dropping the code-norm term from the formula does change the winner (the theorem is not vacuous) *)
Lemma dropped_norm_term_refuted : exists (cb : list Rv) (x : Rv),
  shaped (length x) cb /\ cb <> [] /\
  ~ nearest_rel cb x (argmax_first R_ops (map (fun c => - (sqnorm R_ops x + dot R_ops x c * (-2))) cb)).
Proof.
  exists [[0]; [10]], [1]. split; [|split].
  - repeat constructor.
  - discriminate.
  - intros [_ Hmin].
    assert (E : argmax_first R_ops (map (fun c => - (sqnorm R_ops [1] + dot R_ops [1] c * (-2))) [[0]; [10]]) = 1%nat).
    { cbv [map]. rewrite argmax_cons by discriminate.
      change (argmax_first R_ops [- (sqnorm R_ops [1] + dot R_ops [1] [10] * -2)]) with 0%nat.
      cbv [nth]. rewrite !sqnorm_cons, !dot_cons, sqnorm_nil, dot_nil_l.
      unfold Rltb. destruct (Rlt_dec _ _) as [Hlt|Hnlt]; [reflexivity | exfalso; apply Hnlt; lra]. }
    rewrite E in Hmin. specialize (Hmin 0%nat). cbv [nth length] in Hmin.
    unfold sqdist in Hmin. rewrite !vsub_cons in Hmin.
    change (vsub R_ops [] []) with (@nil R) in Hmin.
    rewrite !sqnorm_cons, sqnorm_nil in Hmin.
    assert (H01 : (0 < 2)%nat) by lia. specialize (Hmin H01). lra.
Qed.

(* cosine codebook: the selected index maximises the inner product with the (already normalised) input;
   positive rescaling of the input does not move the winner, so it maximises the cosine similarity *)
Theorem select_cosine_max (cb : list Rv) (x : Rv) : cb <> [] ->
  cos_nearest_rel cb x (select R_ops (cosscore R_ops) cb x).
Proof.
  intros Hne. unfold select, cos_nearest_rel.
  pose proof (map_neq_nil (cosscore R_ops x) cb Hne) as Hne'.
  pose proof (argmax_first_lt _ Hne') as Hlt. rewrite map_length in Hlt.
  split; [exact Hlt|]. intros j Hj.
  pose proof (argmax_first_max (map (cosscore R_ops x) cb) j) as Hmax.
  rewrite map_length in Hmax. specialize (Hmax Hj).
  rewrite (nth_map_lt (cosscore R_ops x) cb j [] 0 Hj) in Hmax.
  rewrite (nth_map_lt (cosscore R_ops x) cb _ [] 0 Hlt) in Hmax. exact Hmax.
Qed.
Lemma dot_vscale_l (a : R) (x c : Rv) : dot R_ops (vscale R_ops a x) c = a * dot R_ops x c.
Proof.
  revert c. induction x as [|b x IH]; intros c.
  - change (vscale R_ops a []) with (@nil R). rewrite !dot_nil_l. ring.
  - destruct c as [|e c].
    + rewrite !dot_nil_r. ring.
    + change (vscale R_ops a (b :: x)) with ((a * b) :: vscale R_ops a x).
      rewrite !dot_cons, IH. ring.
Qed.
Theorem select_cosine_scale_invariant (cb : list Rv) (x : Rv) (a : R) : 0 < a ->
  select R_ops (cosscore R_ops) cb (vscale R_ops a x) = select R_ops (cosscore R_ops) cb x.
Proof.
  intros Ha. unfold select.
  assert (E : map (cosscore R_ops (vscale R_ops a x)) cb = map (Rmult a) (map (cosscore R_ops x) cb)).
  { rewrite map_map. apply map_ext. intros c. unfold cosscore. apply dot_vscale_l. }
  rewrite E. apply argmax_first_monotone. intros p q. split; intros H.
  - apply Rmult_lt_compat_l; assumption.
  - apply (Rmult_lt_reg_l a); assumption.
Qed.
(* for unit-norm codes and unit-norm input, largest inner product = smallest Euclidean distance *)
Theorem cosine_max_is_nearest_on_sphere (cb : list Rv) (x : Rv) (i : nat) : shaped (length x) cb ->
  sqnorm R_ops x = 1 -> Forall (fun c => sqnorm R_ops c = 1) cb -> cos_nearest_rel cb x i -> nearest_rel cb x i.
Proof.
  intros Hs Hx Hcb [Hi Hmax]. split; [exact Hi|]. intros j Hj.
  assert (Hli : length x = length (nth i cb [])) by (symmetry; apply shaped_nth; assumption).
  assert (Hlj : length x = length (nth j cb [])) by (symmetry; apply shaped_nth; assumption).
  rewrite Forall_forall in Hcb.
  pose proof (Hcb _ (nth_In cb [] Hi)) as Hni. pose proof (Hcb _ (nth_In cb [] Hj)) as Hnj.
  rewrite <- (cdist_expansion x _ Hli), <- (cdist_expansion x _ Hlj), Hni, Hnj.
  specialize (Hmax j Hj). lra.
Qed.

(* any tie-breaking is covered: every index whose score is maximal is a nearest code *)
Theorem any_maximal_score_is_nearest (cb : list Rv) (x : Rv) (i : nat) : shaped (length x) cb -> (i < length cb)%nat ->
  (forall j, (j < length cb)%nat -> negcdist R_ops sqrt x (nth j cb []) <= negcdist R_ops sqrt x (nth i cb [])) ->
  nearest_rel cb x i.
Proof. apply max_score_nearest_aux. Qed.

(* the returned quantized vector is the selected entry of the codebook in force when the call started *)
Theorem forward_uses_pre_state (cfg : ccfg R) (training freeze temp_pos : bool) (s : cstate R) (xs : list Rv)
  (mask : option (list bool)) (w : oracle R) :
  initted s = true -> g_gumbel_noise (c_stochastic cfg) temp_pos training = false ->
  snd (cb_forward R_ops sqrt cfg training freeze temp_pos s xs mask w) = map (select R_ops (score_of R_ops sqrt cfg) (embed s)) xs.
Proof.
  intros Hinit Hg.
  assert (Hk : g_kmeans cfg (initted s) = false).
  { unfold g_kmeans, g_cosine_kmeans.g_cosine_kmeans, g_euclid_kmeans.g_euclid_kmeans.
    rewrite Hinit. destruct (c_cosine cfg); reflexivity. }
  unfold cb_forward. cbv zeta. cbn [snd]. rewrite Hg, Hk. reflexivity.
Qed.

(* LatentQuantize: per latent dimension, the value nearest to z in absolute distance *)
Definition lq_pick (values : list R) (z : R) : nat := argmin_first R_ops (map (fun v => Rabs (z - v)) values).
Theorem lq_pick_nearest (values : list R) (z : R) (j : nat) : values <> [] -> (j < length values)%nat ->
  (lq_pick values z < length values)%nat /\ Rabs (z - nth (lq_pick values z) values 0) <= Rabs (z - nth j values 0).
Proof.
  intros Hne Hj. unfold lq_pick.
  pose proof (map_neq_nil (fun v => Rabs (z - v)) values Hne) as Hne'.
  pose proof (argmin_first_lt _ Hne') as Hlt. rewrite map_length in Hlt.
  split; [exact Hlt|].
  pose proof (argmin_first_min (map (fun v => Rabs (z - v)) values) j) as Hmin.
  rewrite map_length in Hmin. specialize (Hmin Hj).
  rewrite (nth_map_lt (fun v => Rabs (z - v)) values j 0 0 Hj) in Hmin.
  rewrite (nth_map_lt (fun v => Rabs (z - v)) values _ 0 0 Hlt) in Hmin. exact Hmin.
Qed.

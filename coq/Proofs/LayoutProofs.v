(* C10: quantization is position-wise and layouts are equivalent.  Every statement holds for ALL extents (no bound on
   batch, sequence, image, head or feature sizes): they are div/mod facts about row-major grouped axes. *)
From Coq Require Import Arith List Bool Lia.
From VQ Require Import Model.Layout.
Import ListNotations.

Section L.
Context {A B I : Type}.

(* ---------- grouped axes are a bijection *)
Lemma group_split (n2 i1 i2 : nat) : i2 < n2 -> (i1 * n2 + i2) / n2 = i1 /\ (i1 * n2 + i2) mod n2 = i2.
Proof.
  intros Hlt. assert (Hnz : n2 <> 0) by lia. split.
  - rewrite (Nat.div_add_l i1 n2 i2 Hnz). rewrite (Nat.div_small i2 n2 Hlt). lia.
  - rewrite (Nat.add_comm (i1 * n2) i2). rewrite (Nat.mod_add i2 i1 n2 Hnz). apply Nat.mod_small. exact Hlt.
Qed.
Lemma group_merge (n2 i : nat) : 0 < n2 -> (i / n2) * n2 + i mod n2 = i.
Proof.
  intros Hpos. assert (Hnz : n2 <> 0) by lia.
  rewrite (Nat.mul_comm (i / n2) n2). symmetry. apply Nat.div_mod. exact Hnz.
Qed.
Lemma group_range (n1 n2 i1 i2 : nat) : i1 < n1 -> i2 < n2 -> i1 * n2 + i2 < n1 * n2.
Proof.
  intros H1 H2. nia.
Qed.

(* ---------- image layout: the result at pixel (b, h, w) depends only on the input vector at that pixel *)
Theorem image_pointwise (W : nat) (f : tvec A -> tvec B) (X : nat -> nat -> nat -> nat -> A) (b c h w : nat) : w < W ->
  img_out W (tok_map f (img_in W X)) b c h w = f (fun c' => X b c' h w) c.
Proof.
  intros Hw. unfold img_out, tok_map, img_in.
  destruct (group_split W h w Hw) as [Hd Hm].
  rewrite Hd. rewrite Hm. reflexivity.
Qed.
Theorem image_indices_pointwise (W : nat) (g : tvec A -> I) (X : nat -> nat -> nat -> nat -> A) (b h w : nat) : w < W ->
  img_idx_out W (tok_map_idx g (img_in W X)) b h w = g (fun c' => X b c' h w).
Proof.
  intros Hw. unfold img_idx_out, tok_map_idx, img_in.
  destruct (group_split W h w Hw) as [Hd Hm].
  rewrite Hd. rewrite Hm. reflexivity.
Qed.
(* image layout = flattened channel-last sequence: token t of the sequence is pixel (t / W, t mod W) *)
Theorem image_is_flattened_sequence (W : nat) (f : tvec A -> tvec B) (X : nat -> nat -> nat -> nat -> A) (b t c : nat) : 0 < W ->
  tok_map f (img_in W X) b t c = img_out W (tok_map f (img_in W X)) b c (t / W) (t mod W).
Proof.
  intros HW. unfold img_out.
  rewrite (group_merge W t HW). reflexivity.
Qed.

(* ---------- channel-first layout *)
Theorem cfirst_pointwise (f : tvec A -> tvec B) (X : nat -> nat -> nat -> A) (b d n : nat) :
  cfirst_out (tok_map f (cfirst_in X)) b d n = f (fun d' => X b d' n) d.
Proof.
  unfold cfirst_out, tok_map, cfirst_in. reflexivity.
Qed.

(* ---------- heads, separate codebooks: head h of token (b, n) is quantized by codebook h from feature slice h only *)
Theorem heads_sep_pointwise (D : nat) (f : nat -> tvec A -> tvec B) (X : nat -> nat -> nat -> A) (b n h d : nat) : d < D ->
  heads_sep_out D (head_map f (heads_sep_in D X)) b n (h * D + d) = f h (fun d' => X b n (h * D + d')) d.
Proof.
  intros Hd. unfold heads_sep_out, head_map, heads_sep_in.
  destruct (group_split D h d Hd) as [Hq Hm].
  rewrite Hq. rewrite Hm. reflexivity.
Qed.
Theorem heads_sep_indices (D : nat) (g : nat -> tvec A -> I) (X : nat -> nat -> nat -> A) (b n h : nat) :
  heads_sep_idx (head_map_idx g (heads_sep_in D X)) b n h = g h (fun d' => X b n (h * D + d')).
Proof.
  unfold heads_sep_idx, head_map_idx, heads_sep_in. reflexivity.
Qed.
(* ---------- heads, shared codebook: heads are folded into the batch, '(b h)', and come back to the same (b, n, h) *)
Theorem heads_shared_pointwise (H D : nat) (f : tvec A -> tvec B) (X : nat -> nat -> nat -> A) (b n h d : nat) : h < H -> d < D ->
  heads_shared_out H D (tok_map f (heads_shared_in H D X)) b n (h * D + d) = f (fun d' => X b n (h * D + d')) d.
Proof.
  intros Hh Hd. unfold heads_shared_out, tok_map, heads_shared_in.
  destruct (group_split D h d Hd) as [Hq Hm].
  rewrite Hq. rewrite Hm.
  destruct (group_split H b h Hh) as [Hq2 Hm2].
  rewrite Hq2. rewrite Hm2. reflexivity.
Qed.
Theorem heads_shared_indices (H D : nat) (g : tvec A -> I) (X : nat -> nat -> nat -> A) (b n h : nat) : h < H ->
  heads_shared_idx H (tok_map_idx g (heads_shared_in H D X)) b n h = g (fun d' => X b n (h * D + d')).
Proof.
  intros Hh. unfold heads_shared_idx, tok_map_idx, heads_shared_in.
  destruct (group_split H b h Hh) as [Hq2 Hm2].
  rewrite Hq2. rewrite Hm2. reflexivity.
Qed.

(* ---------- several codebooks of FSQ / LFQ / LatentQuantize *)
Theorem codebooks_pointwise (D : nat) (f : nat -> tvec A -> tvec B) (X : nat -> nat -> nat -> A) (b n c d : nat) : d < D ->
  cb_merge D (cbk_map f (cb_split D X)) b n (c * D + d) = f c (fun d' => X b n (c * D + d')) d.
Proof.
  intros Hd. unfold cb_merge, cbk_map, cb_split.
  destruct (group_split D c d Hd) as [Hq Hm].
  rewrite Hq. rewrite Hm. reflexivity.
Qed.

(* ---------- consequences of being position-wise (free theorems of tok_map) *)
(* permuting / re-batching / splitting / concatenating tokens = re-indexing positions by any map p *)
Theorem tok_map_reindex (f : tvec A -> tvec B) (T : nat -> nat -> nat -> A) (p : nat -> nat -> nat * nat) (b n d : nat) :
  tok_map f (fun b' n' d' => T (fst (p b' n')) (snd (p b' n')) d') b n d = tok_map f T (fst (p b n)) (snd (p b n)) d.
Proof.
  unfold tok_map. reflexivity.
Qed.
Theorem tok_map_idx_reindex (g : tvec A -> I) (T : nat -> nat -> nat -> A) (p : nat -> nat -> nat * nat) (b n : nat) :
  tok_map_idx g (fun b' n' d' => T (fst (p b' n')) (snd (p b' n')) d') b n = tok_map_idx g T (fst (p b n)) (snd (p b n)).
Proof.
  unfold tok_map_idx. reflexivity.
Qed.
(* a single vector passed alone gives the same result as inside any batch *)
Theorem single_vs_batch (f : tvec A -> tvec B) (T : nat -> nat -> nat -> A) (b n d : nat) :
  tok_map f (fun _ _ d' => T b n d') 0 0 d = tok_map f T b n d.
Proof.
  unfold tok_map. reflexivity.
Qed.
(* the result at a position depends only on the input vector at that position *)
Theorem tok_map_local (f : tvec A -> tvec B) (T T' : nat -> nat -> nat -> A) (b n d : nat) :
  (forall d', T b n d' = T' b n d') -> (forall u v, (forall k, u k = v k) -> forall k, f u k = f v k) ->
  tok_map f T b n d = tok_map f T' b n d.
Proof.
  intros HT Hf. unfold tok_map. apply Hf. intros k. apply HT.
Qed.

End L.

(* ---------- tabulation lemmas used by the correspondence (length of the tables) *)
Lemma tab1_length {A} n (f : nat -> A) : length (tab1 n f) = n.
Proof.
  unfold tab1. rewrite map_length. apply seq_length.
Qed.

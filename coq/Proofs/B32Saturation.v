(* Why a float32 accumulator cannot stand in for the usage count (seed C03-e, finding D25): in binary32, 2^24 + 1 rounds back to 2^24, so a
   counter that adds 1.0 per token never gets past 2^24 however many tokens follow - while the EMA law (Proofs/BlockProofs.v,
   block_single_code_count) needs the true count n for every n. *)
From Coq Require Import ZArith Arith List Bool SpecFloat.
From VQ Require Import Model.B32.
Open Scope Z_scope.

Definition b32_one : spec_float := b32_of_Z 1.
Definition b32_2p24 : spec_float := b32_of_Z 16777216.

Lemma b32_2p24_plus_one : b32_add b32_2p24 b32_one = b32_2p24.
Proof. vm_compute. reflexivity. Qed.

(* below the threshold the addition is still exact ... *)
Lemma b32_below_2p24_exact : b32_add (b32_of_Z 16777215) b32_one = b32_2p24.
Proof. vm_compute. reflexivity. Qed.

(* ... from 2^24 on, any number of further tokens leaves the counter where it is *)
Theorem b32_counter_saturates (n : nat) : Nat.iter n (fun s => b32_add s b32_one) b32_2p24 = b32_2p24.
Proof.
  induction n as [|n IH]; [reflexivity|].
  change (b32_add (Nat.iter n (fun s => b32_add s b32_one) b32_2p24) b32_one = b32_2p24). rewrite IH. exact b32_2p24_plus_one.
Qed.


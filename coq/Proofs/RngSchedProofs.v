From Coq Require Import ZArith List Bool String.
From VQ Require Import Model.RngSched.
Import ListNotations.

Section P.
Variables (St : Type) (seedf : Z -> St) (draw : St -> Z * St).

(* private generators: under EVERY interleaving of the two calls, each call's depth is the depth of its own seed *)
Theorem private_schedule_independent (s1 s2 : Z) (sched : list op) :
  In sched (merge (prog false s1) (prog true s2)) ->
  res1 St (run St (step_private St seedf draw) sched) = Some (depth_of St seedf draw s1)
  /\ res2 St (run St (step_private St seedf draw) sched) = Some (depth_of St seedf draw s2).
Proof.
  intros H. unfold depth_of. cbn in H.
  repeat (destruct H as [H|H]; [subst sched; unfold run; repeat (cbn; match goal with |- context [draw ?g] => destruct (draw g) end); cbn; split; reflexivity|]).
  contradiction.
Qed.

(* the global generator: sequential execution is fine (which is why no single-threaded test can tell) ... *)
Theorem shared_sequential_ok (s1 s2 : Z) :
  res1 St (run St (step_shared St seedf draw) (prog false s1 ++ prog true s2)) = Some (depth_of St seedf draw s1)
  /\ res2 St (run St (step_shared St seedf draw) (prog false s1 ++ prog true s2)) = Some (depth_of St seedf draw s2).
Proof.
  unfold depth_of, run. cbn. destruct (draw (seedf s1)) as [v1 g1]. cbn. destruct (draw (seedf s2)) as [v2 g2]. cbn. split; reflexivity.
Qed.

(* ... but some interleaving gives the first call the depth of the OTHER call's seed *)
Theorem shared_schedule_dependent (s1 s2 : Z) :
  depth_of St seedf draw s1 <> depth_of St seedf draw s2 ->
  exists sched, In sched (merge (prog false s1) (prog true s2))
    /\ res1 St (run St (step_shared St seedf draw) sched) <> Some (depth_of St seedf draw s1).
Proof.
  intros Hne. exists [OSeed false s1; OSeed true s2; ODraw false; ODraw true]. split.
  - cbn. right. left. reflexivity.
  - unfold depth_of in *. unfold run. cbn. destruct (draw (seedf s2)) as [v2 g2] eqn:E2. cbn in *. destruct (draw g2) as [v3 g3]. cbn.
    intros H. injection H as H. apply Hne. symmetry. exact H.
Qed.
End P.

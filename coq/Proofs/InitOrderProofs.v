(* Failure atomicity of init_embed_: for ANY call sequence with the computations first and the flag last. *)
From Coq Require Import List Bool String Arith Lia.
From VQ Require Import Model.InitOrder.
Import ListNotations.
Open Scope string_scope.

(* helpers *)
Lemma flag_is_write : forall c, is_flag c = true -> is_write c = true.
Proof.
  intros c H. unfold is_flag in H. unfold is_write.
  apply existsb_exists in H. destruct H as [x [Hin Hx]].
  apply existsb_exists. exists x. split; [|exact Hx].
  unfold flag_names in Hin. unfold write_names. simpl in *. intuition.
Qed.

Lemma firstn_In_local {A} (l : list A) (k : nat) (x : A) : In x (firstn k l) -> In x l.
Proof.
  intro H. rewrite <- (firstn_skipn k l). apply in_or_app. left. exact H.
Qed.

(* a call that raises is a computing call (index k, 0-based): nothing has been written when it aborts the sequence *)
Theorem failed_compute_writes_nothing (calls : list (string * string)) (k : nat) (c : string * string) :
  computes_before_writes calls = true ->
  nth_error calls k = Some c -> is_write c = false ->
  written k calls = [].
Proof.
  revert k. induction calls as [|a calls IH]; intros k Hc Hn Hw.
  - unfold written. rewrite firstn_nil. reflexivity.
  - destruct k as [|k]; [reflexivity|].
    simpl in Hc. simpl in Hn. destruct (is_write a) eqn:E.
    + exfalso. rewrite forallb_forall in Hc.
      apply nth_error_In in Hn. apply Hc in Hn. congruence.
    + unfold written. simpl. rewrite E. apply IH; assumption.
Qed.

(* in particular the flag is not set by a failed initialisation *)
Theorem failed_compute_leaves_flag (calls : list (string * string)) (k : nat) (c : string * string) :
  computes_before_writes calls = true ->
  nth_error calls k = Some c -> is_write c = false ->
  flag_set k calls = false.
Proof.
  intros Hc Hn Hw.
  pose proof (failed_compute_writes_nothing calls k c Hc Hn Hw) as H.
  unfold written in H. apply map_eq_nil in H.
  unfold flag_set. destruct (existsb is_flag (firstn k calls)) eqn:E; [|reflexivity].
  exfalso. apply existsb_exists in E. destruct E as [x [Hin Hx]].
  apply flag_is_write in Hx.
  assert (In x (filter is_write (firstn k calls))) as HI by (apply filter_In; split; assumption).
  rewrite H in HI. exact HI.
Qed.

(* whatever aborts the sequence, and wherever: if the flag has been set then the sequence ran to its end *)
Theorem flag_implies_complete (calls : list (string * string)) (k : nat) :
  flag_last calls = true -> flag_set k calls = true -> List.length calls <= k.
Proof.
  unfold flag_last, flag_set. intros HL HS.
  destruct (rev calls) as [|c r] eqn:E; [discriminate|].
  apply andb_true_iff in HL. destruct HL as [_ HN].
  apply negb_true_iff in HN.
  assert (calls = (rev r ++ [c])%list) as HC.
  { rewrite <- (rev_involutive calls). rewrite E. reflexivity. }
  destruct (le_lt_dec (List.length calls) k) as [Hle|Hlt]; [exact Hle|].
  exfalso. rewrite HC in HS, Hlt. rewrite app_length in Hlt. simpl in Hlt.
  rewrite firstn_app in HS.
  replace (k - List.length (rev r)) with 0 in HS by lia.
  simpl in HS. rewrite app_nil_r in HS.
  apply existsb_exists in HS. destruct HS as [x [Hin Hx]].
  apply firstn_In_local in Hin. apply in_rev in Hin.
  assert (existsb is_flag r = true) as HT by (apply existsb_exists; exists x; split; assumption).
  congruence.
Qed.

(* the early-flag variant (the flag written before the computations) is refuted: a failing k-means leaves the flag set *)
Theorem early_flag_refuted :
  exists (calls : list (string * string)) (k : nat) (c : string * string),
    nth_error calls k = Some c /\ is_write c = false /\ flag_set k calls = true.
Proof.
  exists [("self.initted.data.copy_", ""); ("kmeans", "")], 1, ("kmeans", "").
  repeat split; vm_compute; reflexivity.
Qed.

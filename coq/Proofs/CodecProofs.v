(* C04: index codecs are bijections — unbounded in the level list / bit width. *)
From Coq Require Import ZArith List Bool Lia.
From VQ Require Import Num Model.Vec Model.Codec.
Import ListNotations.
Open Scope Z_scope.

(* ------------------------------------------------------------------ basis *)
Lemma cumprod_from_scale l a xs :
  cumprod_from (l * a) xs = map (Z.mul l) (cumprod_from a xs).
Proof.
  revert a; induction xs as [|x xs IH]; intros a; simpl; [reflexivity|].
  rewrite <- Z.mul_assoc. rewrite IH. reflexivity.
Qed.

Lemma basis_single l : basis [l] = [1].
Proof. reflexivity. Qed.

Lemma basis_cons l l' t :
  basis (l :: l' :: t) = 1 :: map (Z.mul l) (basis (l' :: t)).
Proof.
  unfold basis, cumprod.
  change (removelast (l :: l' :: t)) with (l :: removelast (l' :: t)).
  cbn [cumprod_from]. rewrite !Z.mul_1_l.
  f_equal. cbn [map]. rewrite Z.mul_1_r. f_equal.
  rewrite <- (Z.mul_1_r l) at 1. apply cumprod_from_scale.
Qed.

Lemma basis_length ls : ls <> [] -> length (basis ls) = length ls.
Proof.
  induction ls as [|l t IH]; intros Hne; [contradiction|].
  destruct t as [|l' t]; [reflexivity|].
  rewrite basis_cons. cbn [length]. rewrite map_length, IH by discriminate. reflexivity.
Qed.

Lemma basis_pos ls : Forall (fun l => 0 < l) ls -> Forall (fun b => 0 < b) (basis ls).
Proof.
  induction ls as [|l t IH]; intros H.
  - unfold basis, cumprod; simpl. constructor; [lia|constructor].
  - destruct t as [|l' t]; [rewrite basis_single; constructor; [lia|constructor]|].
    rewrite basis_cons. inversion H as [|? ? Hl Ht]; subst.
    constructor; [lia|]. specialize (IH Ht).
    apply Forall_forall. intros x Hx. apply in_map_iff in Hx. destruct Hx as [b [<- Hb]].
    rewrite Forall_forall in IH. specialize (IH b Hb). lia.
Qed.

(* ------------------------------------------------------------------ code form = recursive form *)
Lemma map2_map_l {A B C D} (f : B -> C -> D) (g : A -> B) (a : list A) (b : list C) :
  map2 f (map g a) b = map2 (fun x y => f (g x) y) a b.
Proof. revert b; induction a as [|x a IH]; intros [|y b]; simpl; try reflexivity. rewrite IH; reflexivity. Qed.

Lemma map2_ext_pos {C} (f g : Z -> C -> Z) (a : list Z) (b : list C) :
  Forall (fun x => 0 < x) a -> (forall x y, 0 < x -> f x y = g x y) -> map2 f a b = map2 g a b.
Proof.
  revert b; induction a as [|x a IH]; intros [|y b] Ha Hfg; simpl; try reflexivity.
  inversion Ha; subst. rewrite Hfg by assumption. rewrite IH; auto.
Qed.

Lemma dec_eq_rec ls : Forall (fun l => 0 < l) ls -> forall i, dec ls i = dec_rec ls i.
Proof.
  induction ls as [|l t IH]; intros Hpos i; [reflexivity|].
  inversion Hpos as [|? ? Hl Ht]; subst.
  destruct t as [|l' t].
  - unfold dec. rewrite basis_single. simpl. rewrite Z.div_1_r. reflexivity.
  - unfold dec. rewrite basis_cons. cbn [map2].
    change (dec_rec (l :: l' :: t) i) with (i mod l :: dec_rec (l' :: t) (i / l)).
    rewrite Z.div_1_r. f_equal.
    rewrite map2_map_l. rewrite <- IH by assumption. unfold dec.
    apply map2_ext_pos; [apply basis_pos; assumption|].
    intros b m Hb. rewrite Z.div_div by lia. reflexivity.
Qed.

Lemma zsum_map2_scale l ds bs :
  zsum (map2 Z.mul ds (map (Z.mul l) bs)) = l * zsum (map2 Z.mul ds bs).
Proof.
  revert bs; induction ds as [|d ds IH]; intros [|b bs]; simpl; try lia.
  rewrite IH. lia.
Qed.

Lemma enc_eq_rec ls : forall ds, length ds = length ls -> enc ls ds = enc_rec ls ds.
Proof.
  induction ls as [|l t IH]; intros ds Hlen.
  - destruct ds; [reflexivity|discriminate].
  - destruct ds as [|d ds]; [discriminate|]. simpl in Hlen.
    destruct t as [|l' t].
    + destruct ds; [|discriminate]. unfold enc. rewrite basis_single. simpl. lia.
    + change (enc_rec (l :: l' :: t) (d :: ds)) with (d + l * enc_rec (l' :: t) ds).
      rewrite <- IH by (simpl in *; lia).
      unfold enc. rewrite basis_cons. cbn [map2].
      change (zsum (d * 1 :: ?x)) with (d * 1 + zsum x).
      cbn [zsum fold_right]. fold (zsum (map2 Z.mul ds (map (Z.mul l) (basis (l' :: t))))).
      rewrite zsum_map2_scale. lia.
Qed.

(* ------------------------------------------------------------------ bijection (recursive form) *)
Lemma dec_rec_in_range ls : Forall (fun l => 0 < l) ls -> forall i, in_range ls (dec_rec ls i).
Proof.
  induction ls as [|l t IH]; intros Hpos i; simpl; [exact I|].
  inversion Hpos; subst. split; [apply Z.mod_pos_bound; assumption| apply IH; assumption].
Qed.

Lemma enc_dec_rec ls : Forall (fun l => 0 < l) ls -> forall i, 0 <= i < prod ls -> enc_rec ls (dec_rec ls i) = i.
Proof.
  induction ls as [|l t IH]; intros Hpos i Hi; simpl in *.
  - lia.
  - inversion Hpos as [|? ? Hl Ht]; subst.
    rewrite IH; [|assumption|].
    + rewrite (Z.div_mod i l) at 3 by lia. lia.
    + split; [apply Z.div_pos; lia|]. apply Z.div_lt_upper_bound; lia.
Qed.

Lemma enc_rec_range ls : Forall (fun l => 0 < l) ls -> forall ds, in_range ls ds -> 0 <= enc_rec ls ds < prod ls.
Proof.
  induction ls as [|l t IH]; intros Hpos ds Hr.
  - destruct ds; simpl in *; [lia|contradiction].
  - destruct ds as [|d ds]; simpl in Hr; [contradiction|]. destruct Hr as [Hd Hr].
    inversion Hpos as [|? ? Hl Ht]; subst. specialize (IH Ht ds Hr). simpl. nia.
Qed.

Lemma dec_enc_rec ls : Forall (fun l => 0 < l) ls -> forall ds, in_range ls ds -> dec_rec ls (enc_rec ls ds) = ds.
Proof.
  induction ls as [|l t IH]; intros Hpos ds Hr.
  - destruct ds; simpl in *; [reflexivity|contradiction].
  - destruct ds as [|d ds]; simpl in Hr; [contradiction|]. destruct Hr as [Hd Hr].
    inversion Hpos as [|? ? Hl Ht]; subst. simpl.
    assert (E1 : (d + l * enc_rec t ds) mod l = d).
    { replace (d + l * enc_rec t ds) with (d + enc_rec t ds * l) by lia. rewrite Z.mod_add by lia. apply Z.mod_small; lia. }
    assert (E2 : (d + l * enc_rec t ds) / l = enc_rec t ds).
    { replace (d + l * enc_rec t ds) with (enc_rec t ds * l + d) by lia. rewrite Z.div_add_l by lia. rewrite (Z.div_small d l) by lia. lia. }
    rewrite E1, E2, IH by assumption. reflexivity.
Qed.

Lemma in_range_length ls ds : in_range ls ds -> length ds = length ls.
Proof.
  revert ds; induction ls as [|l t IH]; intros [|d ds] H; simpl in *; try contradiction; try reflexivity.
  f_equal. apply IH. tauto.
Qed.

Lemma in_rangeb_spec ls ds : in_rangeb ls ds = true <-> in_range ls ds.
Proof.
  revert ds; induction ls as [|l t IH]; intros [|d ds]; simpl; split; intros H; try tauto; try discriminate.
  - apply andb_true_iff in H. destruct H as [H1 H2]. apply andb_true_iff in H1. destruct H1.
    split; [lia|apply IH; assumption].
  - destruct H as [Hd Hr]. apply IH in Hr. rewrite Hr.
    replace (0 <=? d) with true by (symmetry; apply Z.leb_le; lia).
    replace (d <? l) with true by (symmetry; apply Z.ltb_lt; lia). reflexivity.
Qed.

(* ------------------------------------------------------------------ statements about the code's form *)
Theorem mixed_radix_enc_dec ls :
  Forall (fun l => 0 < l) ls -> forall i, 0 <= i < prod ls ->
  enc ls (dec ls i) = i /\ in_range ls (dec ls i).
Proof.
  intros Hpos i Hi. rewrite dec_eq_rec by assumption.
  pose proof (dec_rec_in_range ls Hpos i) as Hr.
  rewrite enc_eq_rec by (apply in_range_length; assumption).
  split; [apply enc_dec_rec; assumption|assumption].
Qed.

Theorem mixed_radix_dec_enc ls :
  Forall (fun l => 0 < l) ls -> forall ds, in_range ls ds ->
  dec ls (enc ls ds) = ds /\ 0 <= enc ls ds < prod ls.
Proof.
  intros Hpos ds Hr. rewrite enc_eq_rec by (apply in_range_length; assumption).
  rewrite dec_eq_rec by assumption.
  split; [apply dec_enc_rec; assumption|apply enc_rec_range; assumption].
Qed.

Corollary mixed_radix_injective ls :
  Forall (fun l => 0 < l) ls -> forall i j, 0 <= i < prod ls -> 0 <= j < prod ls ->
  dec ls i = dec ls j -> i = j.
Proof.
  intros Hpos i j Hi Hj E.
  destruct (mixed_radix_enc_dec ls Hpos i Hi) as [Ei _].
  destruct (mixed_radix_enc_dec ls Hpos j Hj) as [Ej _].
  rewrite <- Ei, <- Ej, E. reflexivity.
Qed.

(* ------------------------------------------------------------------ FSQ grid (over R) *)
From Coq Require Import Reals Lra.
Open Scope R_scope.

Lemma half_width_pos L : (2 <= L)%Z -> (0 < half_width L)%Z.
Proof. intros H. unfold half_width. apply Z.div_str_pos. lia. Qed.

Lemma half_width_bounds L : (2 <= L)%Z -> (2 * half_width L <= L <= 2 * half_width L + 1)%Z.
Proof. intros H. unfold half_width. pose proof (Z.div_mod L 2). pose proof (Z.mod_pos_bound L 2). lia. Qed.

Definition grid_value (L k : Z) : R := fsq_level_value R_ops L k.

Lemma grid_value_eq L k : (2 <= L)%Z ->
  grid_value L k = (IZR k - IZR (half_width L)) / IZR (half_width L).
Proof. reflexivity. Qed.

Theorem fsq_grid_in_unit_interval L k :
  (2 <= L)%Z -> (0 <= k < L)%Z -> -1 <= grid_value L k <= 1.
Proof.
  intros HL Hk. rewrite grid_value_eq by assumption.
  pose proof (half_width_pos L HL) as Hh. pose proof (half_width_bounds L HL) as Hb.
  assert (0 < IZR (half_width L)) by (apply IZR_lt; assumption).
  assert (IZR k <= 2 * IZR (half_width L)).
  { rewrite <- mult_IZR. apply IZR_le. lia. }
  assert (0 <= IZR k) by (apply IZR_le; lia).
  split.
  - apply Rmult_le_reg_r with (IZR (half_width L)); [assumption|].
    unfold Rdiv. rewrite Rmult_assoc, Rinv_l by lra. lra.
  - apply Rmult_le_reg_r with (IZR (half_width L)); [assumption|].
    unfold Rdiv. rewrite Rmult_assoc, Rinv_l by lra. lra.
Qed.

Theorem fsq_grid_equally_spaced L k :
  (2 <= L)%Z -> grid_value L (k + 1) - grid_value L k = 1 / IZR (half_width L).
Proof.
  intros HL. rewrite !grid_value_eq by assumption. rewrite plus_IZR.
  pose proof (half_width_pos L HL) as Hh.
  assert (0 < IZR (half_width L)) by (apply IZR_lt; assumption).
  field. lra.
Qed.

Theorem fsq_grid_distinct L k k' :
  (2 <= L)%Z -> grid_value L k = grid_value L k' -> k = k'.
Proof.
  intros HL E. rewrite !grid_value_eq in E by assumption.
  pose proof (half_width_pos L HL) as Hh.
  assert (Hp : 0 < IZR (half_width L)) by (apply IZR_lt; assumption).
  apply eq_IZR.
  apply (Rmult_eq_compat_r (IZR (half_width L))) in E.
  unfold Rdiv in E. rewrite !Rmult_assoc, !Rinv_l in E by lra. lra.
Qed.

(* symmetry-preserving grid: k * 2/(L-1) - 1, k = 0..L-1 : uniform L-level grid on [-1, 1] incl. both ends *)
Definition sym_grid_value (L k : Z) : R := fsq_sym_level_value R_ops L k.
Lemma sym_grid_value_eq L k : sym_grid_value L k = IZR k * (2 / (IZR L - 1)) - 1.
Proof. reflexivity. Qed.

Theorem fsq_sym_grid_in_unit_interval L k :
  (2 <= L)%Z -> (0 <= k < L)%Z -> -1 <= sym_grid_value L k <= 1.
Proof.
  intros HL Hk. rewrite sym_grid_value_eq.
  assert (H1 : 1 <= IZR L - 1) by (apply IZR_le in HL; lra).
  assert (H2 : 0 <= IZR k) by (apply IZR_le; lia).
  assert (H3 : IZR k <= IZR L - 1) by (rewrite <- minus_IZR; apply IZR_le; lia).
  assert (E : IZR k * (2 / (IZR L - 1)) = 2 * (IZR k / (IZR L - 1))) by (field; lra).
  rewrite E.
  assert (0 <= IZR k / (IZR L - 1) <= 1).
  { split.
    - apply Rmult_le_pos; [lra|]. left. apply Rinv_0_lt_compat. lra.
    - apply Rmult_le_reg_r with (IZR L - 1); [lra|]. unfold Rdiv. rewrite Rmult_assoc, Rinv_l by lra. lra. }
  lra.
Qed.

Theorem fsq_sym_grid_endpoints L : (2 <= L)%Z ->
  sym_grid_value L 0 = -1 /\ sym_grid_value L (L - 1) = 1.
Proof.
  intros HL. rewrite !sym_grid_value_eq. rewrite minus_IZR.
  assert (H1 : 1 <= IZR L - 1) by (apply IZR_le in HL; lra).
  split; field; lra.
Qed.

Theorem fsq_sym_grid_equally_spaced L k : (2 <= L)%Z ->
  sym_grid_value L (k + 1) - sym_grid_value L k = 2 / (IZR L - 1).
Proof.
  intros HL. rewrite !sym_grid_value_eq, plus_IZR.
  assert (H1 : 1 <= IZR L - 1) by (apply IZR_le in HL; lra).
  field. lra.
Qed.

Theorem fsq_sym_grid_distinct L k k' : (2 <= L)%Z -> sym_grid_value L k = sym_grid_value L k' -> k = k'.
Proof.
  intros HL E. rewrite !sym_grid_value_eq in E.
  assert (H1 : 1 <= IZR L - 1) by (apply IZR_le in HL; lra).
  apply eq_IZR.
  assert (E' : IZR k * (2 / (IZR L - 1)) = IZR k' * (2 / (IZR L - 1))) by lra.
  apply Rmult_eq_reg_r in E'; [exact E'|].
  apply Rgt_not_eq. apply Rdiv_lt_0_compat; lra.
Qed.

(* distinct indices give distinct codes: composition of mixed-radix injectivity and grid injectivity *)
Lemma map2_grid_inj ls : Forall (fun l => (2 <= l)%Z) ls -> forall ds ds',
  length ds = length ls -> length ds' = length ls ->
  map2 grid_value ls ds = map2 grid_value ls ds' -> ds = ds'.
Proof.
  induction ls as [|l t IH]; intros Hl ds ds' H1 H2 E.
  - destruct ds, ds'; try discriminate; reflexivity.
  - destruct ds as [|d ds], ds' as [|d' ds']; try discriminate.
    inversion Hl; subst. simpl in E. injection E as E0 E1.
    f_equal; [eapply fsq_grid_distinct; eauto| apply IH; auto].
Qed.

Lemma Forall_2_pos ls : Forall (fun l => (2 <= l)%Z) ls -> Forall (fun l => (0 < l)%Z) ls.
Proof. intros H. eapply Forall_impl; [|exact H]. intros; simpl in *; lia. Qed.

Lemma dec_length ls i : length (dec ls i) = length ls.
Proof.
  destruct ls as [|l0 t0]; [reflexivity|].
  unfold dec. assert (Hb : length (basis (l0 :: t0)) = length (l0 :: t0)) by (apply basis_length; discriminate).
  revert Hb. generalize (basis (l0 :: t0)). generalize (l0 :: t0). clear l0 t0. intros ls.
  induction ls as [|l t IH]; intros [|b bs] Hb; simpl in *; try discriminate; try reflexivity.
  f_equal. apply IH. lia.
Qed.

Theorem fsq_codes_distinct ls i j :
  Forall (fun l => (2 <= l)%Z) ls -> (0 <= i < prod ls)%Z -> (0 <= j < prod ls)%Z ->
  fsq_code R_ops ls i = fsq_code R_ops ls j -> i = j.
Proof.
  intros Hl Hi Hj E. unfold fsq_code in E.
  apply (mixed_radix_injective ls (Forall_2_pos ls Hl) i j Hi Hj).
  apply (map2_grid_inj ls Hl); [apply dec_length|apply dec_length|exact E].
Qed.

(* ------------------------------------------------------------------ LFQ bit codec *)
Open Scope Z_scope.

Lemma lfq_mask_S d : lfq_mask (S d) = 2 ^ Z.of_nat d :: lfq_mask d.
Proof. unfold lfq_mask. rewrite seq_S. simpl. rewrite rev_app_distr. reflexivity. Qed.

Lemma lfq_mask_length d : length (lfq_mask d) = d.
Proof. unfold lfq_mask. rewrite map_length, rev_length, seq_length. reflexivity. Qed.

Lemma land_pow2_testbit i k : 0 <= k -> negb (Z.land i (2 ^ k) =? 0) = Z.testbit i k.
Proof.
  intros Hk.
  assert (E : Z.land i (2 ^ k) = if Z.testbit i k then 2 ^ k else 0).
  { apply Z.bits_inj'. intros n Hn. rewrite Z.land_spec.
    destruct (Z.eq_dec n k) as [->|Hne].
    - rewrite Z.pow2_bits_true by assumption. rewrite andb_true_r.
      destruct (Z.testbit i k) eqn:E; [rewrite Z.pow2_bits_true by assumption; reflexivity| apply Z.bits_0 || (symmetry; apply Z.bits_0)].
    - rewrite Z.pow2_bits_false by lia. rewrite andb_false_r.
      destruct (Z.testbit i k); [rewrite Z.pow2_bits_false by lia; reflexivity| symmetry; apply Z.bits_0]. }
  rewrite E. destruct (Z.testbit i k).
  - assert (0 < 2 ^ k) by (apply Z.pow_pos_nonneg; lia).
    destruct (Z.eqb_spec (2 ^ k) 0); [lia|reflexivity].
  - reflexivity.
Qed.

Lemma bits_of_testbit d i : bits_of d i = map (fun k => Z.testbit i (Z.of_nat k)) (rev (seq 0 d)).
Proof.
  unfold bits_of, lfq_mask. rewrite map_map. apply map_ext. intros k.
  apply land_pow2_testbit. lia.
Qed.

Lemma bits_of_S d i : bits_of (S d) i = Z.testbit i (Z.of_nat d) :: bits_of d i.
Proof. rewrite !bits_of_testbit. rewrite seq_S. simpl. rewrite rev_app_distr. reflexivity. Qed.

Lemma bits_of_length d i : length (bits_of d i) = d.
Proof. unfold bits_of. rewrite map_length. apply lfq_mask_length. Qed.

Lemma bits_of_mod d i : bits_of d (i mod 2 ^ Z.of_nat d) = bits_of d i.
Proof.
  rewrite !bits_of_testbit. apply map_ext_in. intros k Hk.
  apply in_rev in Hk. apply in_seq in Hk.
  apply Z.mod_pow2_bits_low. lia.
Qed.

Lemma index_of_cons b bs :
  index_of (b :: bs) = (if b then 2 ^ Z.of_nat (length bs) else 0) + index_of bs.
Proof. unfold index_of. cbn [length]. rewrite lfq_mask_S. reflexivity. Qed.

Theorem lfq_index_of_bits_of d : forall i, 0 <= i < 2 ^ Z.of_nat d -> index_of (bits_of d i) = i.
Proof.
  induction d as [|d IH]; intros i Hi.
  - simpl in Hi. assert (i = 0) by lia. subst. reflexivity.
  - rewrite bits_of_S, index_of_cons, bits_of_length.
    rewrite <- bits_of_mod. rewrite IH by (apply Z.mod_pos_bound; apply Z.pow_pos_nonneg; lia).
    rewrite Nat2Z.inj_succ, Z.pow_succ_r in Hi by lia.
    assert (Hp : 0 < 2 ^ Z.of_nat d) by (apply Z.pow_pos_nonneg; lia).
    pose proof (Z.div_mod i (2 ^ Z.of_nat d)) as Hdm.
    assert (Hq : 0 <= i / 2 ^ Z.of_nat d < 2).
    { split; [apply Z.div_pos; lia| apply Z.div_lt_upper_bound; lia]. }
    assert (Hm : (i / 2 ^ Z.of_nat d) mod 2 = i / 2 ^ Z.of_nat d) by (apply Z.mod_small; lia).
    destruct (Z.testbit i (Z.of_nat d)) eqn:Et.
    + apply Z.testbit_true in Et; [|lia]. rewrite Hm in Et. rewrite Et in Hdm. lia.
    + apply Z.testbit_false in Et; [|lia]. rewrite Hm in Et. rewrite Et in Hdm. lia.
Qed.

Lemma index_of_range bs : 0 <= index_of bs < 2 ^ Z.of_nat (length bs).
Proof.
  induction bs as [|b bs IH]; [unfold index_of; simpl; lia|].
  rewrite index_of_cons. cbn [length]. rewrite Nat2Z.inj_succ, Z.pow_succ_r by lia.
  destruct b; lia.
Qed.

Theorem lfq_bits_of_index_of bs : bits_of (length bs) (index_of bs) = bs.
Proof.
  induction bs as [|b bs IH]; [reflexivity|].
  cbn [length]. rewrite bits_of_S, index_of_cons.
  pose proof (index_of_range bs) as Hr.
  assert (Hp : 0 < 2 ^ Z.of_nat (length bs)) by (apply Z.pow_pos_nonneg; lia).
  f_equal.
  - destruct b.
    + apply Z.testbit_true; [lia|].
      replace ((2 ^ Z.of_nat (length bs) + index_of bs) / 2 ^ Z.of_nat (length bs)) with 1; [reflexivity|].
      apply Z.div_unique with (index_of bs); lia.
    + apply Z.testbit_false; [lia|]. rewrite Z.add_0_l, Z.div_small by lia. reflexivity.
  - rewrite <- bits_of_mod.
    replace (((if b then 2 ^ Z.of_nat (length bs) else 0) + index_of bs) mod 2 ^ Z.of_nat (length bs)) with (index_of bs).
    + exact IH.
    + destruct b.
      * rewrite <- (Z.mul_1_l (2 ^ Z.of_nat (length bs))) at 1. rewrite Z.add_comm, Z.mod_add by lia.
        symmetry; apply Z.mod_small; lia.
      * rewrite Z.add_0_l. symmetry; apply Z.mod_small; lia.
Qed.

(* most significant bit first *)
Theorem lfq_msb_first d i : bits_of (S d) i = Z.testbit i (Z.of_nat d) :: bits_of d i.
Proof. apply bits_of_S. Qed.

(* codes are exactly +/- scale *)
Open Scope R_scope.
Theorem lfq_code_pm_scale (s : R) (b : bool) :
  lfq_code_of_bit R_ops s b = if b then s else - s.
Proof. unfold lfq_code_of_bit; destruct b; simpl; lra. Qed.

(* forward sign bit = decoded bit : the index computed from (quantized > 0) re-creates the same +/-scale pattern *)
Theorem lfq_forward_code_is_decoded (s x : R) : 0 < s ->
  lfq_quant R_ops s x = lfq_code_of_bit R_ops s (Rltb 0 x) /\
  Rltb 0 (lfq_quant R_ops s x) = Rltb 0 x.
Proof.
  intros Hs. rewrite lfq_code_pm_scale. unfold lfq_quant. cbn [ltb zero opp R_ops].
  destruct (Rltb 0 x) eqn:E; split; try reflexivity.
  - apply Rltb_true; lra.
  - apply Rltb_false; lra.
Qed.

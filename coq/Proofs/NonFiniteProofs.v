(* C09 for gradients: with the padded rows zeroed BEFORE the input projection, arbitrary padding content - infinities and nans included -
   cannot reach the projection's outputs or parameter gradients; with the other order (project, then zero the outputs) the forward pass is
   still padding-independent but the weight gradient is not (0 * inf = nan): defects D22 / D26, seed C09-e. *)
From Coq Require Import ZArith List Bool Reals Lra Lia String.
From VQ Require Import Num Model.Vec Model.NonFinite.
Import ListNotations.
Open Scope R_scope.

Notation X := (xr R).

(* valid rows are finite; padded rows are arbitrary (any of Fin / PInf / NInf / NaN in any entry) *)
Definition rows_fin_on (valid : list bool) (xs : list (list X)) : Prop :=
  Forall2 (fun (v : bool) x => v = true -> vfin x = true) valid xs.
Definition all_fin (gs : list (list X)) : Prop := Forall (fun g => vfin g = true) gs.

(* two batches that agree at the valid positions (and have rows of the same length at the padded ones) *)
Fixpoint agree (valid : list bool) (xs xs' : list (list X)) : Prop :=
  match valid, xs, xs' with
  | [], [], [] => True
  | v :: vs, x :: r, x' :: r' => (v = true -> x = x') /\ (v = false -> List.length x = List.length x') /\ agree vs r r'
  | _, _, _ => False
  end.


(* ---------- helper lemmas ---------- *)
Lemma xadd_fin (a b : X) : is_fin a = true -> is_fin b = true -> is_fin (xadd R_ops a b) = true.
Proof. destruct a, b; simpl; congruence. Qed.
Lemma xmul_fin (a b : X) : is_fin a = true -> is_fin b = true -> is_fin (xmul R_ops a b) = true.
Proof. destruct a, b; simpl; congruence. Qed.

Lemma xvadd_fin (a b : list X) : vfin a = true -> vfin b = true -> vfin (xvadd R_ops a b) = true.
Proof.
  revert b; induction a as [|x a IH]; intros [|y b]; simpl; auto.
  intros Ha Hb. apply andb_true_iff in Ha; apply andb_true_iff in Hb.
  destruct Ha, Hb. apply andb_true_iff; split; [apply xadd_fin; auto | apply IH; auto].
Qed.
Lemma xmadd_fin (a b : list (list X)) : mfin a = true -> mfin b = true -> mfin (xmadd R_ops a b) = true.
Proof.
  revert b; induction a as [|x a IH]; intros [|y b]; simpl; auto.
  intros Ha Hb. apply andb_true_iff in Ha; apply andb_true_iff in Hb.
  destruct Ha, Hb. apply andb_true_iff; split; [apply xvadd_fin; auto | apply IH; auto].
Qed.
Lemma xvzero_fin n : vfin (xvzero R_ops n) = true.
Proof. induction n; simpl; auto. Qed.
Lemma xmzero_fin r c : mfin (xmzero R_ops r c) = true.
Proof.
  induction r; simpl; auto. apply andb_true_iff; split; [apply xvzero_fin | exact IHr].
Qed.
Lemma mapzero_fin (x : list X) : vfin (map (fun _ => xzero R_ops) x) = true.
Proof. induction x; simpl; auto. Qed.
Lemma xsum_fin (l : list X) : vfin l = true -> is_fin (xsum R_ops l) = true.
Proof.
  induction l as [|a l IH]; simpl; auto. intros H. apply andb_true_iff in H; destruct H.
  apply xadd_fin; auto.
Qed.
Lemma map2_xmul_fin (a b : list X) : vfin a = true -> vfin b = true -> vfin (map2 (xmul R_ops) a b) = true.
Proof.
  revert b; induction a as [|x a IH]; intros [|y b]; simpl; auto.
  intros Ha Hb. apply andb_true_iff in Ha; apply andb_true_iff in Hb.
  destruct Ha, Hb. apply andb_true_iff; split; [apply xmul_fin; auto | apply IH; auto].
Qed.
Lemma xdot_fin (a b : list X) : vfin a = true -> vfin b = true -> is_fin (xdot R_ops a b) = true.
Proof. intros; apply xsum_fin, map2_xmul_fin; auto. Qed.
Lemma row_fin (g : X) (x : list X) : is_fin g = true -> vfin x = true -> vfin (map (fun xk => xmul R_ops g xk) x) = true.
Proof.
  intros Hg; induction x as [|a x IH]; simpl; auto. intros H. apply andb_true_iff in H; destruct H.
  apply andb_true_iff; split; [apply xmul_fin; auto | auto].
Qed.
Lemma outer_fin (g x : list X) : vfin g = true -> vfin x = true -> mfin (outer R_ops g x) = true.
Proof.
  intros Hg Hx; induction g as [|a g IH]; simpl; auto.
  simpl in Hg. apply andb_true_iff in Hg; destruct Hg.
  apply andb_true_iff; split; [apply row_fin; auto | apply IH; auto].
Qed.
Lemma wgrad_fin dout din (gs zs : list (list X)) : all_fin gs -> all_fin zs -> mfin (wgrad R_ops dout din gs zs) = true.
Proof.
  unfold wgrad. intros Hg; revert zs; induction Hg as [|g gs Hg1 Hg IH]; intros zs Hz.
  - simpl. apply xmzero_fin.
  - destruct Hz as [|z zs Hz1 Hz]; simpl; [apply xmzero_fin|].
    apply xmadd_fin; [apply outer_fin; auto | apply IH; auto].
Qed.
Lemma lin_fwd_fin (W : list (list X)) b x : mfin W = true -> vfin b = true -> vfin x = true -> vfin (lin_fwd R_ops W b x) = true.
Proof.
  intros HW Hb Hx. unfold lin_fwd. apply xvadd_fin; auto.
  induction W as [|r W IH]; simpl; auto. simpl in HW. apply andb_true_iff in HW; destruct HW.
  apply andb_true_iff; split; [apply xdot_fin; auto | apply IH; auto].
Qed.
Lemma mapconst_len {A B C} (c : C) (l1 : list A) (l2 : list B) :
  List.length l1 = List.length l2 -> map (fun _ => c) l1 = map (fun _ => c) l2.
Proof.
  revert l2; induction l1; intros [|y l2]; simpl; intros H; try discriminate; auto.
  f_equal. apply IHl1. congruence.
Qed.
Lemma agree_zero_rows valid (xs xs' : list (list X)) : agree valid xs xs' -> zero_rows R_ops valid xs = zero_rows R_ops valid xs'.
Proof.
  revert xs xs'; induction valid as [|v vs IH]; intros [|x r] [|x' r']; simpl; try tauto.
  intros (H1 & H2 & H3). unfold zero_rows in *. simpl. f_equal; [|apply IH; auto].
  destruct v; [apply H1; auto | apply mapconst_len; apply H2; auto].
Qed.
Lemma map2_length {A B C} (f : A -> B -> C) a b : List.length (map2 f a b) = Nat.min (List.length a) (List.length b).
Proof. revert b; induction a; intros [|y b]; simpl; auto. Qed.
Lemma lin_fwd_length (W : list (list X)) b x x' : List.length (lin_fwd R_ops W b x) = List.length (lin_fwd R_ops W b x').
Proof. unfold lin_fwd, xvadd. rewrite !map2_length, !map_length. reflexivity. Qed.

Theorem zero_first_rows_finite (valid : list bool) (xs : list (list X)) :
  rows_fin_on valid xs -> all_fin (zero_rows R_ops valid xs).
Proof.
  unfold rows_fin_on, all_fin, zero_rows. induction 1 as [|v x vs xs H HF IH]; simpl; constructor; auto.
  destruct v; [auto | apply mapzero_fin].
Qed.

(* weight gradient of the projection: finite whatever the padding holds *)
Theorem zero_first_wgrad_finite (dout din : nat) (valid : list bool) (xs gs : list (list X)) :
  rows_fin_on valid xs -> all_fin gs ->
  mfin (proj_wgrad R_ops true dout din valid xs gs) = true.
Proof.
  intros Hx Hg. simpl. apply wgrad_fin; auto. apply zero_first_rows_finite; auto.
Qed.

Theorem bgrad_finite (dout : nat) (gs : list (list X)) : all_fin gs -> vfin (bgrad R_ops dout gs) = true.
Proof.
  unfold bgrad. induction 1; simpl; [apply xvzero_fin | apply xvadd_fin; auto].
Qed.

(* projected rows: finite whatever the padding holds (finite weights and bias) *)
Theorem zero_first_out_finite (W : list (list X)) (b : list X) (valid : list bool) (xs : list (list X)) :
  mfin W = true -> vfin b = true -> rows_fin_on valid xs ->
  all_fin (proj_out R_ops true W b valid xs).
Proof.
  intros HW Hb Hx. simpl. apply zero_first_rows_finite in Hx.
  unfold all_fin in *. induction Hx; simpl; constructor; auto. apply lin_fwd_fin; auto.
Qed.

(* ... and nothing depends on the padding content *)
Theorem zero_first_padding_independent (dout din : nat) (W : list (list X)) (b : list X) (valid : list bool) (xs xs' gs : list (list X)) :
  agree valid xs xs' ->
  proj_out R_ops true W b valid xs = proj_out R_ops true W b valid xs'
  /\ proj_wgrad R_ops true dout din valid xs gs = proj_wgrad R_ops true dout din valid xs' gs.
Proof.
  intros H. simpl. rewrite (agree_zero_rows _ _ _ H). split; reflexivity.
Qed.

(* the other order: the forward pass cannot tell ... *)
Theorem zero_after_out_padding_independent (W : list (list X)) (b : list X) (valid : list bool) (xs xs' : list (list X)) :
  agree valid xs xs' ->
  proj_out R_ops false W b valid xs = proj_out R_ops false W b valid xs'.
Proof.
  simpl. unfold zero_rows. revert xs xs'; induction valid as [|v vs IH]; intros [|x r] [|x' r']; simpl; try tauto.
  intros (H1 & H2 & H3). f_equal; [|apply IH; auto].
  destruct v; [rewrite H1; auto | apply mapconst_len, lin_fwd_length].
Qed.

(* ... but the weight gradient can: one padded row holding +inf, finite upstream gradients, finite valid rows -> nan *)
Theorem zero_after_wgrad_refuted :
  exists (valid : list bool) (xs gs : list (list X)),
    rows_fin_on valid xs /\ all_fin gs /\ mfin (proj_wgrad R_ops false 1 1 valid xs gs) = false.
Proof.
  exists [false], [[PInf]], [[Fin 1%R]]. split; [|split].
  - repeat constructor. discriminate.
  - repeat constructor.
  - assert (E : Reqb 0 0 = true) by (apply Reqb_true; reflexivity).
    cbv [proj_wgrad zero_rows map2 map wgrad outer fold_right xmzero xvzero repeat xmadd xvadd xzero xmul fin_times_inf zero eqb R_ops].
    rewrite E. reflexivity.
Qed.

(* stated on the order flag: the gradient is finite for EVERY padding content iff ... at least: whenever the flag says zero-first *)
Corollary proj_wgrad_finite_of_order (calls : list (string * string)) (dout din : nat) (valid : list bool) (xs gs : list (list X)) :
  zero_first_of calls = true ->
  rows_fin_on valid xs -> all_fin gs ->
  mfin (proj_wgrad R_ops (zero_first_of calls) dout din valid xs gs) = true.
Proof.
  intros H Hx Hg. rewrite H. apply zero_first_wgrad_finite; auto.
Qed.

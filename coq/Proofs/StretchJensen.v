(* Stretch goal for C17: the m-token Jensen inequality for the (unclamped-region) entropy:
   mean_i H(p_i) <= H(mean_i p_i) for any number m >= 1 of token distributions over K codes with all entries >= eps. *)
From Coq Require Import ZArith Reals List Bool Lra Lia.
From VQ Require Import Num Model.Vec Model.Losses Proofs.LossProofs.
Import ListNotations.
Open Scope R_scope.

(* ---------- helpers: sums *)
Lemma rsum_nil : rsum [] = 0.
Proof. reflexivity. Qed.

Lemma rsum_pos (l : list R) : l <> [] -> Forall (fun t => 0 < t) l -> 0 < rsum l.
Proof.
  intros Hne H. induction H as [|x l Hx Hl IH]; [congruence|].
  rewrite rsum_cons. destruct l as [|y l].
  - rewrite rsum_nil. lra.
  - assert (0 < rsum (y :: l)) by (apply IH; discriminate). lra.
Qed.

Lemma length_pos {A} (l : list A) : l <> [] -> 0 < INR (length l).
Proof. intros H. apply lt_0_INR. destruct l; [congruence | simpl; lia]. Qed.

Lemma rsum_map_le {A} (f g : A -> R) (l : list A) :
  (forall x, In x l -> f x <= g x) -> rsum (map f l) <= rsum (map g l).
Proof.
  induction l as [|a l IH]; intros H.
  - simpl map. lra.
  - simpl map. rewrite !rsum_cons.
    assert (f a <= g a) by (apply H; left; reflexivity).
    assert (rsum (map f l) <= rsum (map g l)) by (apply IH; intros x Hx; apply H; right; assumption).
    lra.
Qed.

Lemma rsum_map_scal {A} (f : A -> R) (c : R) (l : list A) :
  rsum (map f l) * c = rsum (map (fun x => f x * c) l).
Proof.
  induction l as [|a l IH].
  - simpl map. rewrite rsum_nil. ring.
  - simpl map. rewrite !rsum_cons, <- IH. ring.
Qed.

Lemma rsum_map_plus {A} (f g : A -> R) (l : list A) :
  rsum (map (fun x => f x + g x) l) = rsum (map f l) + rsum (map g l).
Proof.
  induction l as [|a l IH].
  - simpl map. rewrite rsum_nil. ring.
  - simpl map. rewrite !rsum_cons, IH. ring.
Qed.

Lemma rsum_map_zero {A} (l : list A) : rsum (map (fun _ => 0) l) = 0.
Proof.
  induction l as [|a l IH].
  - reflexivity.
  - simpl map. rewrite rsum_cons, IH. ring.
Qed.

(* exchange of two finite sums *)
Lemma rsum_swap {A B} (F : A -> B -> R) (la : list A) (lb : list B) :
  rsum (map (fun a => rsum (map (fun b => F a b) lb)) la)
  = rsum (map (fun b => rsum (map (fun a => F a b) la)) lb).
Proof.
  induction la as [|a la IH].
  - simpl map. rewrite rsum_nil. symmetry. apply rsum_map_zero.
  - simpl map. rewrite rsum_cons, IH.
    rewrite <- rsum_map_plus. reflexivity.
Qed.

Lemma rmean_ge (eps : R) (l : list R) : l <> [] -> Forall (fun x => eps <= x) l -> eps <= rmean l.
Proof.
  intros Hne H. pose proof (length_pos l Hne) as Hm.
  assert (Hs : INR (length l) * eps <= rsum l).
  { clear Hne Hm. induction H as [|x l Hx Hl IH].
    - simpl. lra.
    - change (length (x :: l)) with (S (length l)). rewrite S_INR, rsum_cons. lra. }
  unfold rmean, Rdiv.
  assert (Hi : 0 < / INR (length l)) by (apply Rinv_0_lt_compat; assumption).
  apply Rmult_le_compat_r with (r := / INR (length l)) in Hs; [|lra].
  replace (INR (length l) * eps * / INR (length l)) with eps in Hs by (field; lra).
  exact Hs.
Qed.

(* a list is the table of its nth function *)
Lemma list_as_nth_seq (p : list R) : p = map (fun j => nth j p 0) (seq 0 (length p)).
Proof.
  induction p as [|x p IH]; [reflexivity|].
  change (length (x :: p)) with (S (length p)).
  change (seq 0 (S (length p))) with (0%nat :: seq 1 (length p)).
  rewrite <- seq_shift. simpl map. rewrite map_map. f_equal. exact IH.
Qed.

Lemma rsum_map_nth_seq (g : R -> R) (p : list R) :
  rsum (map g p) = rsum (map (fun j => g (nth j p 0)) (seq 0 (length p))).
Proof.
  rewrite (list_as_nth_seq p) at 1. rewrite map_map. reflexivity.
Qed.

(* ---------- the tangent-line bound summed over a list: for any mu > 0,
   sum_i - t_i ln t_i <= m mu - S - S ln mu   (S = sum_i t_i) *)
Lemma ent_sum_bound (mu : R) (ts : list R) : 0 < mu -> Forall (fun t => 0 < t) ts ->
  rsum (map (fun t => - t * ln t) ts) <= INR (length ts) * mu - rsum ts - rsum ts * ln mu.
Proof.
  intros Hmu H. induction H as [|t ts Ht Hts IH].
  - simpl. lra.
  - simpl map. change (length (t :: ts)) with (S (length ts)). rewrite S_INR, !rsum_cons.
    pose proof (ln_tangent t mu Ht Hmu) as Htan.
    set (L := ln mu) in *. set (lt := ln t) in *.
    set (X := rsum (map _ ts)) in *. set (S0 := rsum ts) in *.
    lra.
Qed.

(* finite Jensen for the concave term f(t) = - t ln t on (0, +inf): for weights 1/m *)
Theorem entropy_term_jensen (ts : list R) : ts <> [] -> Forall (fun t => 0 < t) ts ->
  rmean (map (fun t => - t * ln t) ts) <= - (rmean ts) * ln (rmean ts).
Proof.
  intros Hne Hpos.
  pose proof (length_pos ts Hne) as Hm. pose proof (rsum_pos ts Hne Hpos) as HS.
  assert (Hmu : 0 < rmean ts). { unfold rmean. apply Rdiv_lt_0_compat; assumption. }
  pose proof (ent_sum_bound (rmean ts) ts Hmu Hpos) as HB.
  assert (Hms : INR (length ts) * rmean ts = rsum ts) by (unfold rmean; field; lra).
  rewrite Hms in HB.
  set (L := ln (rmean ts)) in *.
  unfold rmean. rewrite map_length.
  set (X := rsum (map _ ts)) in *.
  assert (HX : X <= - rsum ts * L) by lra.
  unfold Rdiv.
  assert (Hi : 0 < / INR (length ts)) by (apply Rinv_0_lt_compat; assumption).
  apply Rmult_le_compat_r with (r := / INR (length ts)) in HX; [|lra]. lra.
Qed.

(* all token distributions have the same length K and entries >= eps *)
Definition dists_ok (eps : R) (K : nat) (ps : list (list R)) : Prop :=
  Forall (fun p => length p = K /\ Forall (fun x => eps <= x) p) ps.

(* with all entries >= eps the clamp is inactive *)
Lemma centropy_unclamped (eps : R) (p : list R) : 0 < eps -> Forall (fun x => eps <= x) p ->
  centropy eps p = rsum (map (fun x => - x * ln x) p).
Proof.
  intros He H. induction H as [|x p Hx Hp IH].
  - apply centropy_nil.
  - rewrite centropy_cons, IH. simpl map. rewrite rsum_cons.
    rewrite Rmax_left by lra. ring.
Qed.

Theorem per_token_entropy_le_batch_entropy (eps : R) (K : nat) (ps : list (list R)) : 0 < eps -> ps <> [] -> dists_ok eps K ps ->
  rmean (map (centropy eps) ps) <= centropy eps (mean_dist ps).
Proof.
  intros He Hne Hok.
  pose proof (length_pos ps Hne) as Hm.
  assert (Hmd : mean_dist ps = map (fun j => rmean (map (fun p => nth j p 0) ps)) (seq 0 K)).
  { destruct ps as [|p0 ps']; [congruence|]. unfold mean_dist.
    inversion Hok as [|? ? [HK _] _]; subst. reflexivity. }
  assert (Hcol : forall j p, In j (seq 0 K) -> In p ps -> eps <= nth j p 0).
  { intros j p Hj Hp. unfold dists_ok in Hok. rewrite Forall_forall in Hok.
    destruct (Hok p Hp) as [Hl Hall]. rewrite Forall_forall in Hall.
    apply Hall. apply nth_In. apply in_seq in Hj. lia. }
  assert (Hcolne : forall j, map (fun p : list R => nth j p 0) ps <> []).
  { intros j Hc. apply map_eq_nil in Hc. congruence. }
  (* right-hand side: the clamp is inactive on the mean distribution *)
  rewrite Hmd. rewrite centropy_unclamped; [|assumption|].
  2:{ apply Forall_forall. intros x Hx. apply in_map_iff in Hx. destruct Hx as [j [<- Hj]].
      apply rmean_ge; [apply Hcolne|].
      apply Forall_forall. intros y Hy. apply in_map_iff in Hy. destruct Hy as [p [<- Hp]].
      apply Hcol; assumption. }
  rewrite map_map.
  (* left-hand side: per-token entropies as sums over the code index *)
  assert (HL : map (centropy eps) ps
               = map (fun p => rsum (map (fun j => - nth j p 0 * ln (nth j p 0)) (seq 0 K))) ps).
  { apply map_ext_in. intros p Hp. unfold dists_ok in Hok. rewrite Forall_forall in Hok.
    destruct (Hok p Hp) as [Hl Hall].
    rewrite centropy_unclamped by assumption.
    rewrite (rsum_map_nth_seq (fun x => - x * ln x) p), Hl. reflexivity. }
  unfold rmean at 1. rewrite map_length, HL.
  rewrite (rsum_swap (fun (p : list R) (j : nat) => - nth j p 0 * ln (nth j p 0)) ps (seq 0 K)).
  unfold Rdiv. rewrite rsum_map_scal.
  apply rsum_map_le. intros j Hj.
  pose proof (entropy_term_jensen (map (fun p => nth j p 0) ps)) as HJ.
  unfold rmean at 1 in HJ. rewrite !map_length, map_map in HJ.
  apply HJ; [apply Hcolne|].
  apply Forall_forall. intros y Hy. apply in_map_iff in Hy. destruct Hy as [p [<- Hp]].
  pose proof (Hcol j p Hj Hp). lra.
Qed.

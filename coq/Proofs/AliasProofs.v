From Coq Require Import Arith Bool Lia.
From VQ Require Import Model.Alias.

Section P.
Variable V : Type.

(* in-place: every observer whose field points to the same cell reads the new value; fields in other cells are untouched *)
Theorem in_place_seen_by_all (st : store V) (m1 m2 : binding) (f g : nat) (v : V) :
  m1 f = m2 g ->
  read V (fst (write_in_place V st m1 f v)) m2 g = v.
Proof. intros H. unfold read, write_in_place, upd. cbn. rewrite <- H, Nat.eqb_refl. reflexivity. Qed.

Theorem in_place_frame (st : store V) (m1 m2 : binding) (f g : nat) (v : V) :
  m2 g <> m1 f ->
  read V (fst (write_in_place V st m1 f v)) m2 g = read V st m2 g.
Proof. intros H. unfold read, write_in_place, upd. cbn. destruct (Nat.eqb_spec (m2 g) (m1 f)); [contradiction | reflexivity]. Qed.

(* rebinding: the writer reads the new value ... *)
Theorem rebind_seen_by_writer (st : store V) (m1 : binding) (f fresh : nat) (v : V) :
  read V (fst (rebind V st m1 f fresh v)) (snd (rebind V st m1 f fresh v)) f = v.
Proof. unfold read, rebind, upd. cbn. rewrite !Nat.eqb_refl. reflexivity. Qed.

(* ... the other observer of the formerly shared cell still reads the OLD value (the tie is broken) *)
Theorem rebind_unties (st : store V) (m1 m2 : binding) (f g fresh : nat) (v : V) :
  m1 f = m2 g -> fresh <> m2 g ->
  read V (fst (rebind V st m1 f fresh v)) m2 g = read V st m2 g.
Proof. intros H Hf. unfold read, rebind, upd. cbn. destruct (Nat.eqb_spec (m2 g) fresh); [congruence | reflexivity]. Qed.

Corollary rebind_refuted (old new : V) : old <> new ->
  exists (st : store V) (m1 m2 : binding) (f fresh : nat),
    m1 f = m2 f /\ read V (fst (rebind V st m1 f fresh new)) m2 f <> new.
Proof.
  intros Hne. exists (fun _ => old), (fun _ => 0), (fun _ => 0), 0, 1. split; [reflexivity|].
  unfold read, rebind, upd. cbn. exact Hne.
Qed.
End P.

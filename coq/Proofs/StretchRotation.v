(* Stretch goal for C07: the linear part of the rotation trick, R e = e - 2 (e.w) w + 2 (e.u) q  with unit u, q and
   w = (u + q)/|u + q|, preserves inner products with u's image, maps u to q, and is an isometry:
   |R e|^2 = |e|^2 for every e (so R is orthogonal: a rotation / reflection pair). *)
From Coq Require Import ZArith Reals List Bool Lra Lia.
From VQ Require Import Num Model.Vec Model.Grad Proofs.CoreKmeans Proofs.CoreNearest Proofs.GradProofs.
Import ListNotations.
Open Scope R_scope.

(* squared norm of  e - c1 w + c2 q  in terms of the six inner products *)
Lemma rl_sqnorm (c1 c2 : R) (e w q : list R) :
  length w = length e -> length q = length e ->
  sqnorm R_ops (rl 1 c1 c2 e w q) =
  dot R_ops e e + c1 * c1 * dot R_ops w w + c2 * c2 * dot R_ops q q
  - 2 * c1 * dot R_ops e w + 2 * c2 * dot R_ops e q - 2 * c1 * c2 * dot R_ops w q.
Proof.
  revert w q; induction e as [|a e IH]; intros [|b w] [|c q] Hw Hq; try discriminate.
  - cbn. ring.
  - rewrite rl_cons, sqnorm_cons, !dot_cons, IH by (simpl in *; lia). ring.
Qed.

Theorem rotation_is_isometry (u qh e : list R) (d : nat) :
  length u = d -> length qh = d -> length e = d -> sqnorm R_ops u = 1 -> sqnorm R_ops qh = 1 -> 0 < sqnorm R_ops (vadd R_ops u qh) ->
  let w := vdivs R_ops (vadd R_ops u qh) (sqrt (sqnorm R_ops (vadd R_ops u qh))) in
  sqnorm R_ops (rot_apply R_ops u qh w 1 e) = sqnorm R_ops e.
Proof.
  intros Hu Hq He Nu Nq Hpos w.
  assert (Hlen : length u = length qh) by congruence.
  assert (Hr0 : 0 < sqrt (sqnorm R_ops (vadd R_ops u qh))) by (apply sqrt_lt_R0; exact Hpos).
  assert (Hww : dot R_ops w w = 1) by (apply gsqnorm_unit; exact Hr0).
  assert (Hlw : length w = length e).
  { unfold w. rewrite vdivs_length, vadd_length. lia. }
  rewrite rot_apply_rl, rl_sqnorm by congruence.
  rewrite Hww. fold (sqnorm R_ops qh). rewrite Nq.
  assert (Hew : dot R_ops e w = (dot R_ops e u + dot R_ops e qh) / sqrt (sqnorm R_ops (vadd R_ops u qh))).
  { unfold w. rewrite gdot_vdivs_r, gdot_vadd_r by exact Hlen. reflexivity. }
  assert (Hwq : dot R_ops w qh = (dot R_ops u qh + 1) / sqrt (sqnorm R_ops (vadd R_ops u qh))).
  { rewrite gdot_comm. unfold w. rewrite gdot_vdivs_r, gdot_vadd_r by exact Hlen.
    fold (sqnorm R_ops qh). rewrite Nq, (gdot_comm qh u). reflexivity. }
  assert (Hr : sqrt (sqnorm R_ops (vadd R_ops u qh)) * sqrt (sqnorm R_ops (vadd R_ops u qh)) = 2 + 2 * dot R_ops u qh).
  { rewrite gsqrt_sqnorm_sq, gsqnorm_vadd by exact Hlen. lra. }
  rewrite Hwq, Hew. change (sqnorm R_ops e) with (dot R_ops e e).
  revert Hr0 Hr.
  generalize (sqrt (sqnorm R_ops (vadd R_ops u qh))) (dot R_ops u qh) (dot R_ops e u) (dot R_ops e qh) (dot R_ops e e).
  intros r c b f ee Hr0 Hr.
  assert (Hc : c = (r * r - 2) / 2) by lra. rewrite Hc. field. lra.
Qed.

(* einops `repeat` (Model/Einops.v, wf_repeat patterns: the left axes are a subset of the right axes): the new axes are pure broadcast. *)
From Coq Require Import String List Arith Lia Bool.
From VQ Require Import Model.Einops Proofs.EinopsProofs.
Import ListNotations.
Open Scope string_scope.

(* ---------- helpers *)
Lemma wf_repeat_spec p : wf_repeat p = true ->
  NoDup (names_of (lhs p)) /\ NoDup (names_of (rhs p)) /\ incl (names_of (lhs p)) (names_of (rhs p)).
Proof.
  unfold wf_repeat. intros H.
  apply andb_true_iff in H. destruct H as [H H3].
  apply andb_true_iff in H. destruct H as [H1 H2].
  repeat split; auto using nodupb_NoDup, subsetb_incl.
Qed.

Lemma lookup_notin a n : ~ In n (keys a) -> lookup a n = 0.
Proof.
  induction a as [|[k v] r IH]; simpl; intros H. reflexivity.
  destruct (String.eqb k n) eqn:E.
  - apply String.eqb_eq in E. exfalso. apply H. auto.
  - apply IH. intro. apply H. auto.
Qed.

Lemma keys_sdecode e s : forall o n, In n (keys (sdecode e s o)) -> In n (names_of s).
Proof.
  induction s as [|g s' IH]; intros o n H.
  - simpl in H. contradiction.
  - destruct o as [|c o']. simpl in H. contradiction.
    simpl in H. unfold keys in H. rewrite map_app in H. apply in_app_or in H.
    rewrite names_of_cons. apply in_or_app. destruct H as [H|H].
    + left. apply (keys_gdecode e g c n). exact H.
    + right. apply (IH o' n). exact H.
Qed.


(* two output positions that decode to the same values on every axis of the input read the same input entry *)
Theorem repeat_broadcasts (p : pattern) (e : env) {A} (X : list nat -> A) (o1 o2 : list nat) :
  wf_repeat p = true ->
  (forall n, In n (names_of (lhs p)) -> lookup (sdecode e (rhs p) o1) n = lookup (sdecode e (rhs p) o2) n) ->
  rearr p e X o1 = rearr p e X o2.
Proof.
  intros _ H. unfold rearr, index_map. f_equal. apply sencode_ext. exact H.
Qed.

(* every in-range output position of a repeat reads an in-range input position *)
Theorem repeat_in_range (p : pattern) (e : env) (o : list nat) :
  wf_repeat p = true -> env_pos e (rhs p) -> in_range e (rhs p) o ->
  in_range e (lhs p) (index_map p e o).
Proof.
  intros Hwf Hpos Ho. apply wf_repeat_spec in Hwf. destruct Hwf as [HL [HR HLR]].
  unfold env_pos in Hpos. rewrite Forall_forall in Hpos.
  unfold index_map. apply sencode_range. intros n Hn.
  apply sdecode_range; auto.
Qed.

(* every input entry is reached: for an in-range input position i there is an in-range output position that reads it
   (all new axes at coordinate 0) - stated for patterns whose right-hand side has positive extents *)
Theorem repeat_covers_input (p : pattern) (e : env) (i : list nat) :
  wf_repeat p = true -> env_pos e (rhs p) -> in_range e (lhs p) i ->
  exists o, in_range e (rhs p) o /\ index_map p e o = i.
Proof.
  intros Hwf Hpos Hi. apply wf_repeat_spec in Hwf. destruct Hwf as [HL [HR HLR]].
  unfold env_pos in Hpos. rewrite Forall_forall in Hpos.
  assert (HposL : forall n, In n (names_of (lhs p)) -> 0 < e n) by (intros n Hn; apply Hpos; apply HLR; exact Hn).
  assert (Hrng : forall n, In n (names_of (rhs p)) -> lookup (sdecode e (lhs p) i) n < e n).
  { intros n Hn. destruct (in_dec string_dec n (names_of (lhs p))) as [Hl|Hl].
    - apply sdecode_range; assumption.
    - rewrite lookup_notin.
      + apply Hpos. exact Hn.
      + intro Hk. apply Hl. eapply keys_sdecode. exact Hk. }
  exists (sencode e (rhs p) (sdecode e (lhs p) i)). split.
  - apply sencode_range. exact Hrng.
  - unfold index_map.
    rewrite (sencode_ext e (lhs p) _ (sdecode e (lhs p) i)).
    + apply sencode_sdecode; assumption.
    + intros n Hn. apply sdecode_sencode; auto.
Qed.

Print Assumptions repeat_broadcasts.
Print Assumptions repeat_in_range.
Print Assumptions repeat_covers_input.

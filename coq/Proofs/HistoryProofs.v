(* Histories with external writes (Model/History.v): what a call returns depends only on the state in force at that call. *)
From Coq Require Import ZArith List Bool Reals Lia.
From VQ Require Import Num Model.Vec Model.Core Model.Machine Model.History Proofs.CorePure Proofs.CoreNearest.
Import ListNotations.

Section Generic.
Context {F : Type} (o : ops F) (fsqrt : F -> F).

(* every deterministic call of any history (after initialisation) returns, for each token, the model's selection over the codebook that
   is in force AT THAT CALL - whatever calls, decodes and external writes came before *)
Theorem history_call_reads_current_codebook (cfg : ccfg F) (s : cstate F) (hs : list (hop F))
    (s0 : cstate F) training freeze temp_pos xs mask w (idx : list nat) :
  In (s0, Call training freeze temp_pos xs mask w, Indices idx) (htrace o fsqrt cfg s hs) ->
  initted s0 = true ->
  g_gumbel_noise.g_gumbel_noise (c_stochastic cfg) temp_pos training = false ->
  idx = map (select o (score_of o fsqrt cfg) (embed s0)) xs.
Proof.
  revert s. induction hs as [ | h hs IH]; intros s Hin Hinit Hg.
  - destruct Hin.
  - destruct h as [p | s'].
    + cbn [htrace] in Hin. destruct Hin as [Heq | Hin].
      * injection Heq as Hs Hp Hout. subst s p.
        unfold step in Hout. rewrite cb_forward_eq in Hout. cbn [snd] in Hout.
        injection Hout as Hidx. subst idx.
        rewrite s1_of_initted_id by assumption.
        unfold idx_of. rewrite Hg. reflexivity.
      * exact (IH _ Hin Hinit Hg).
    + cbn [htrace] in Hin. exact (IH _ Hin Hinit Hg).
Qed.

(* every decode of any history is a table lookup in the codebook in force at that decode *)
Theorem history_decode_reads_current_codebook (cfg : ccfg F) (s : cstate F) (hs : list (hop F)) (s0 : cstate F) (idx : list nat) (cs : list (vec F)) :
  In (s0, Decode idx, Codes cs) (htrace o fsqrt cfg s hs) -> cs = decode s0 idx.
Proof.
  revert s. induction hs as [ | h hs IH]; intros s Hin.
  - destruct Hin.
  - destruct h as [p | s'].
    + cbn [htrace] in Hin. destruct Hin as [Heq | Hin].
      * injection Heq as Hs Hp Hout. subst s p.
        cbn in Hout. injection Hout as Hcs. subst cs. reflexivity.
      * exact (IH _ Hin).
    + cbn [htrace] in Hin. exact (IH _ Hin).
Qed.

(* the trace after an external write does not depend on anything that happened before the write *)
Theorem history_write_forgets (cfg : ccfg F) (s s' snew : cstate F) (pre pre' post : list (hop F)) :
  htrace o fsqrt cfg (hrun o fsqrt cfg s (pre ++ [HWrite snew])) post = htrace o fsqrt cfg (hrun o fsqrt cfg s' (pre' ++ [HWrite snew])) post.
Proof.
  unfold hrun. rewrite !fold_left_app. reflexivity.
Qed.

(* the state after a history is the state after the same history with its pure operations (evaluation calls, frozen calls, decodes) deleted,
   for initialised codebooks: external writes are kept *)
Theorem history_ignores_pure (cfg : ccfg F) (s : cstate F) (hs : list (hop F)) :
  initted s = true -> Forall (fun h => match h with HWrite s' => initted s' = true | HStep _ => True end) hs ->
  hrun o fsqrt cfg s hs = hrun o fsqrt cfg s (filter (fun h => negb (hop_pure h)) hs).
Proof.
  revert s. induction hs as [ | h hs IH]; intros s Hinit Hall.
  - reflexivity.
  - inversion Hall as [ | h' hs' Hh Hhs]; subst.
    unfold hrun in *. destruct h as [p | s'].
    + cbn [filter hop_pure fold_left hstep].
      destruct (is_pure p) eqn:Hp; cbn [negb fold_left hstep].
      * rewrite step_pure by assumption. apply IH; assumption.
      * apply IH; [ apply initted_monotone; assumption | assumption ].
    + cbn [filter hop_pure negb fold_left hstep]. apply IH; assumption.
Qed.

End Generic.

(* Euclidean instance over the reals: every index returned by a deterministic call of any history is a NEAREST code of the codebook in force *)
Theorem history_euclid_nearest (cfg : ccfg R) (s : cstate R) (hs : list (hop R))
    (s0 : cstate R) training freeze temp_pos xs mask w (idx : list nat) (t : nat) (x : list R) (i : nat) :
  c_cosine cfg = false ->
  In (s0, Call training freeze temp_pos xs mask w, Indices idx) (htrace R_ops sqrt cfg s hs) ->
  initted s0 = true ->
  g_gumbel_noise.g_gumbel_noise (c_stochastic cfg) temp_pos training = false ->
  embed s0 <> [] -> nth_error xs t = Some x -> shaped (length x) (embed s0) -> (i < length (embed s0))%nat ->
  sqdist R_ops x (nth (nth t idx 0%nat) (embed s0) []) <= sqdist R_ops x (nth i (embed s0) []).
Proof.
  intros Hcos Hin Hinit Hg Hne Hx Hsh Hi.
  pose proof (history_call_reads_current_codebook R_ops sqrt cfg s hs s0 training freeze temp_pos xs mask w idx Hin Hinit Hg) as Hidx.
  assert (Hscore : score_of R_ops sqrt cfg = negcdist R_ops sqrt) by (unfold score_of; rewrite Hcos; reflexivity).
  rewrite Hscore in Hidx.
  assert (Hnth : nth t idx 0%nat = select R_ops (negcdist R_ops sqrt) (embed s0) x).
  { subst idx.
    apply nth_error_nth. rewrite nth_error_map, Hx. reflexivity. }
  rewrite Hnth.
  destruct (select_euclid_nearest (embed s0) x Hne Hsh) as [_ Hmin].
  apply Hmin. exact Hi.
Qed.

(* lens -> mask in exact integer arithmetic vs in a narrow integer dtype (seeds C09-g and C17-h): position < length is the specification; computing
   the positions modulo 256 (torch.arange in uint8) or the predecessor of the length modulo 256 (lens - 1 in uint8) is refuted by witnesses. *)
From Coq Require Import ZArith Bool Lia.
Open Scope Z_scope.

Definition mask_spec (pos len : Z) : bool := pos <? len.
(* positions generated in uint8 *)
Definition mask_u8_positions (pos len : Z) : bool := (pos mod 256) <? len.
(* "seq <= lens - 1" with the subtraction in uint8 *)
Definition mask_u8_pred (pos len : Z) : bool := pos <=? ((len - 1) mod 256).

(* within the range of the dtype and for non-empty samples both variants agree with the specification ... *)
Lemma u8_positions_ok (pos len : Z) : 0 <= pos < 256 -> mask_u8_positions pos len = mask_spec pos len.
Proof. intros H. unfold mask_u8_positions, mask_spec. rewrite Z.mod_small by lia. reflexivity. Qed.
Lemma u8_pred_ok (pos len : Z) : 1 <= len <= 256 -> mask_u8_pred pos len = mask_spec pos len.
Proof.
  intros H. unfold mask_u8_pred, mask_spec. rewrite Z.mod_small by lia.
  destruct (Z.leb_spec pos (len - 1)), (Z.ltb_spec pos len); try reflexivity; lia.
Qed.
(* ... which is why only long sequences / empty samples tell them apart *)
Theorem u8_positions_refuted : exists pos len, 0 <= len < 256 /\ len <= pos /\ mask_u8_positions pos len = true /\ mask_spec pos len = false.
Proof. exists 256, 1. repeat split; try lia; reflexivity. Qed.
Theorem u8_pred_refuted : exists pos len, len = 0 /\ 0 <= pos /\ mask_u8_pred pos len = true /\ mask_spec pos len = false.
Proof. exists 3, 0. repeat split; try lia; reflexivity. Qed.

(* the regenerated kernel IS the specification (Gen/k_lens_to_mask: Z.ltb n len, unbounded integers) *)
From VQ.Gen Require Import k_lens_to_mask.
Theorem source_kernel_is_spec (pos len : Z) : k_lens_to_mask pos len = mask_spec pos len.
Proof. reflexivity. Qed.

(* C09: padding is inert.  Over the reals; every mask (with or without valid tokens), every padding content. *)
From Coq Require Import ZArith List Bool Reals Lra Lia.
From VQ Require Import Num Model.Vec Model.Core Proofs.CoreEMA.
From VQ.Gen Require Import g_euclid_ema g_cosine_ema g_euclid_mask_onehot g_cosine_mask_onehot.
Import ListNotations.
Open Scope R_scope.

Notation Rv := (list R).

(* two batches agree on the valid positions (padding content and the indices assigned to padding are arbitrary) *)
Definition agree_on_valid {A} (valid : list bool) (a b : list A) : Prop :=
  length a = length valid /\ length b = length valid /\
  forall t x y, nth_error valid t = Some true -> nth_error a t = Some x -> nth_error b t = Some y -> x = y.


(* ---------- helpers ---------- *)
Lemma agree_nil_inv {A} (a b : list A) : agree_on_valid [] a b -> a = [] /\ b = [].
Proof.
  intros [Ha [Hb _]]. destruct a; destruct b; try discriminate. split; reflexivity.
Qed.

Lemma agree_cons_inv {A} (m : bool) (v : list bool) (a b : list A) :
  agree_on_valid (m :: v) a b ->
  exists x a' y b', a = x :: a' /\ b = y :: b' /\ (m = true -> x = y) /\ agree_on_valid v a' b'.
Proof.
  intros [Ha [Hb H]]. destruct a as [|x a']; [discriminate|]. destruct b as [|y b']; [discriminate|].
  exists x, a', y, b'. split; [reflexivity|]. split; [reflexivity|]. split.
  - intros Hm. subst m. apply (H 0%nat); reflexivity.
  - split; [simpl in Ha; lia|]. split; [simpl in Hb; lia|].
    intros t x0 y0 Hv Hx Hy. apply (H (S t)); assumption.
Qed.

Lemma count_agree (valid : list bool) (idx idx' : list nat) (j : nat) :
  agree_on_valid valid idx idx' ->
  count_j R_ops (combine idx valid) j = count_j R_ops (combine idx' valid) j.
Proof.
  unfold count_j. revert idx idx'. induction valid as [|m v IH]; intros idx idx' H.
  - destruct (agree_nil_inv _ _ H) as [Ha Hb]. subst idx idx'. reflexivity.
  - destruct (agree_cons_inv _ _ _ _ H) as [x [a' [y [b' [Ha [Hb [Hm Hr]]]]]]]. subst idx idx'.
    cbn [combine map]. rewrite !fsum_cons, (IH _ _ Hr). f_equal.
    unfold sel. cbn [fst snd]. destruct m; [rewrite Hm by reflexivity; reflexivity | reflexivity].
Qed.

Lemma sum_agree (d : nat) (valid : list bool) (xs xs' : list Rv) (idx idx' : list nat) (j : nat) :
  agree_on_valid valid xs xs' -> agree_on_valid valid idx idx' ->
  sum_j R_ops d xs (combine idx valid) j = sum_j R_ops d xs' (combine idx' valid) j.
Proof.
  unfold sum_j, vsum. revert xs xs' idx idx'. induction valid as [|m v IH]; intros xs xs' idx idx' Hx Hi.
  - destruct (agree_nil_inv _ _ Hx) as [Ha Hb]. subst xs xs'. reflexivity.
  - destruct (agree_cons_inv _ _ _ _ Hx) as [x [a' [y [b' [Ha [Hb [Hm Hr]]]]]]]. subst xs xs'.
    destruct (agree_cons_inv _ _ _ _ Hi) as [i [ia [i' [ib [Ha [Hb [Hmi Hri]]]]]]]. subst idx idx'.
    cbn [combine map2 fold_right]. rewrite (IH _ _ _ _ Hr Hri). f_equal.
    unfold sel. cbn [fst snd]. destruct m; [|reflexivity].
    rewrite (Hm eq_refl), (Hmi eq_refl). reflexivity.
Qed.

Lemma accumulate_ext (decay : R) (d : nat) (s : cstate R) (xs xs' : list Rv) (ims ims' : list (nat * bool)) :
  (forall j, count_j R_ops ims j = count_j R_ops ims' j) ->
  (forall j, sum_j R_ops d xs ims j = sum_j R_ops d xs' ims' j) ->
  ema_accumulate R_ops decay d s xs ims = ema_accumulate R_ops decay d s xs' ims'.
Proof.
  intros Hc Hs. unfold ema_accumulate, counts, sums.
  rewrite (map_ext _ _ Hc), (map_ext _ _ Hs). reflexivity.
Qed.

(* statistics of a masked batch = statistics of its valid tokens only *)
Theorem accumulate_masked_is_filtered (decay : R) (d : nat) (s : cstate R) (xs : list Rv) (idx : list nat) (valid : list bool) :
  wf d s -> Forall (fun v => length v = d) xs -> length xs = length valid -> length idx = length valid ->
  let ims := combine idx valid in
  ema_accumulate R_ops decay d s xs ims =
  ema_accumulate R_ops decay d s (valid_only ims xs) (filter (fun im => snd im) ims).
Proof.
  intros Hwf Hxs Hlx Hli ims. subst ims. apply accumulate_ext; intros j.
  - apply count_masked.
  - apply sum_masked; [rewrite combine_length; lia | exact Hxs].
Qed.

(* arbitrary values (and arbitrary assignments) in the padded region never change the accumulated statistics *)
Theorem accumulate_padding_independent (decay : R) (d : nat) (s : cstate R) (xs xs' : list Rv) (idx idx' : list nat) (valid : list bool) :
  wf d s -> Forall (fun v => length v = d) xs -> Forall (fun v => length v = d) xs' ->
  agree_on_valid valid xs xs' -> agree_on_valid valid idx idx' ->
  ema_accumulate R_ops decay d s xs (combine idx valid) = ema_accumulate R_ops decay d s xs' (combine idx' valid).
Proof.
  intros Hwf Hxs Hxs' Hax Hai. apply accumulate_ext; intros j.
  - apply count_agree, Hai.
  - apply sum_agree; assumption.
Qed.

(* the whole state update of a masked training call is independent of the padding *)
Theorem update_padding_independent (cfg : ccfg R) (training freeze : bool) (s : cstate R) (d : nat)
  (xs xs' : list Rv) (idx idx' : list nat) (valid : list bool) (picks : list Rv) :
  wf d s -> xs <> [] -> Forall (fun v => length v = d) xs -> Forall (fun v => length v = d) xs' ->
  agree_on_valid valid xs xs' -> agree_on_valid valid idx idx' ->
  cb_update R_ops sqrt cfg training freeze true s xs valid idx picks =
  cb_update R_ops sqrt cfg training freeze true s xs' valid idx' picks.
Proof.
  intros Hwf Hne Hxs Hxs' Hax Hai. unfold cb_update.
  destruct (g_ema cfg training freeze) eqn:Hg; [|reflexivity].
  assert (Hm : g_maskhot cfg true training freeze = true).
  { revert Hg. unfold g_ema, g_maskhot, g_cosine_ema, g_euclid_ema, g_cosine_mask_onehot, g_euclid_mask_onehot.
    destruct (c_cosine cfg), training, freeze, (c_ema_update cfg); simpl; intros Hg; congruence. }
  rewrite Hm.
  assert (Hd : dim_of xs = d).
  { destruct xs as [|x xs0]; [contradiction Hne; reflexivity|]. inversion Hxs as [|x0 l0 Hx0 Hl0]. exact Hx0. }
  assert (Hd' : dim_of xs' = d).
  { destruct Hax as [Hl [Hl' _]]. destruct xs' as [|x' xs0'].
    - destruct xs as [|x xs0]; [contradiction Hne; reflexivity|]. simpl in Hl, Hl'. lia.
    - inversion Hxs' as [|x0 l0 Hx0 Hl0]. exact Hx0. }
  rewrite Hd, Hd'.
  rewrite (accumulate_padding_independent (c_decay cfg) d s xs xs' idx idx' valid Hwf Hxs Hxs' Hax Hai).
  reflexivity.
Qed.

(* k-means initialisation sees the valid tokens only *)
Theorem keep_padding_independent {A} (valid : list bool) (a b : list A) :
  agree_on_valid valid a b -> keep valid a = keep valid b.
Proof.
  unfold keep. revert a b. induction valid as [|m v IH]; intros a b H.
  - destruct (agree_nil_inv _ _ H) as [Ha Hb]. subst a b. reflexivity.
  - destruct (agree_cons_inv _ _ _ _ H) as [x [a' [y [b' [Ha [Hb [Hm Hr]]]]]]]. subst a b.
    cbn [combine filter fst]. destruct m; cbn [map snd]; rewrite (IH _ _ Hr); [|reflexivity].
    rewrite (Hm eq_refl). reflexivity.
Qed.

Lemma concat_uniform_length {A} (M : nat) (ls : list (list A)) :
  Forall (fun l => length l = M) ls -> length (concat ls) = (length ls * M)%nat.
Proof.
  induction 1 as [|l ls Hl Hls IH]; [reflexivity|].
  cbn [concat length]. rewrite app_length, Hl, IH. simpl. reflexivity.
Qed.

Lemma nth_concat_uniform {A} (M : nat) (ls : list (list A)) (i k : nat) (dflt : A) :
  Forall (fun l => length l = M) ls -> (k < M)%nat ->
  nth (i * M + k) (concat ls) dflt = nth k (nth i ls []) dflt.
Proof.
  intros HF Hk. revert i. induction HF as [|l ls Hl Hls IH]; intros i.
  - cbn [concat]. destruct (i * M + k)%nat; destruct i; destruct k; reflexivity.
  - cbn [concat]. destruct i as [|i].
    + cbn [nth]. simpl. apply app_nth1. rewrite Hl. exact Hk.
    + cbn [nth]. rewrite app_nth2 by (rewrite Hl; simpl; lia).
      replace (S i * M + k - length l)%nat with (i * M + k)%nat by (rewrite Hl; simpl; lia).
      apply IH.
Qed.

Lemma nth_repeat_lt {A} (x dflt : A) (H h : nat) : (h < H)%nat -> nth h (repeat x H) dflt = x.
Proof.
  revert h. induction H as [|H IH]; intros h Hh; [lia|].
  destruct h as [|h]; [reflexivity|]. cbn [repeat nth]. apply IH. lia.
Qed.

Lemma repeat_Forall {A} (P : A -> Prop) (x : A) (n : nat) : P x -> Forall P (repeat x n).
Proof. intros Hx. induction n as [|n IH]; simpl; constructor; assumption. Qed.

Lemma block_length (H N : nat) (row : list bool) :
  length row = N -> length (concat (repeat row H)) = (H * N)%nat.
Proof.
  intros Hr. rewrite (concat_uniform_length N) by (apply repeat_Forall; exact Hr).
  rewrite repeat_length. reflexivity.
Qed.

Lemma blocks_Forall (H N : nat) (mask : list (list bool)) :
  Forall (fun row => length row = N) mask ->
  Forall (fun l => length l = (H * N)%nat) (map (fun row : list bool => concat (repeat row H)) mask).
Proof.
  intros HF. induction HF as [|row mask Hr Hm IH]; simpl; constructor; [|exact IH].
  apply block_length, Hr.
Qed.

(* mask alignment with heads folded into the batch: the flattened token (b, h, n) of the codebook is valid iff mask[b][n] *)
Definition mask_flat (H : nat) (mask : list (list bool)) : list bool :=
  concat (map (fun row : list bool => concat (repeat row H)) mask).
Theorem mask_flat_alignment (H N : nat) (mask : list (list bool)) (b h n : nat) :
  Forall (fun row => length row = N) mask -> (b < length mask)%nat -> (h < H)%nat -> (n < N)%nat ->
  nth ((b * H + h) * N + n) (mask_flat H mask) false = nth n (nth b mask []) false.
Proof.
  intros HF Hb Hh Hn. unfold mask_flat.
  assert (Hk : (h * N + n < H * N)%nat).
  { assert (Hle : (S h * N <= H * N)%nat) by (apply Nat.mul_le_mono_r; lia). simpl in Hle. lia. }
  replace ((b * H + h) * N + n)%nat with (b * (H * N) + (h * N + n))%nat by ring.
  rewrite (nth_concat_uniform (H * N)) by (try apply blocks_Forall; assumption).
  rewrite (nth_map_in _ mask b [] []) by exact Hb.
  assert (Hrow : length (nth b mask []) = N).
  { apply (Forall_nth_P (fun row => length row = N)); assumption. }
  rewrite (nth_concat_uniform N) by (try apply repeat_Forall; assumption).
  rewrite nth_repeat_lt by exact Hh. reflexivity.
Qed.
Theorem mask_flat_length (H N : nat) (mask : list (list bool)) :
  Forall (fun row => length row = N) mask -> length (mask_flat H mask) = (length mask * H * N)%nat.
Proof.
  intros HF. unfold mask_flat.
  rewrite (concat_uniform_length (H * N)) by (apply blocks_Forall; exact HF).
  rewrite map_length. apply Nat.mul_assoc.
Qed.

(* outputs at padded positions: a fixed fill value (zero vector / the untouched input) and index -1, whatever was computed there *)
Definition mask_out {A} (valid : list bool) (computed fill : list A) : list A :=
  map2 (fun (m : bool) (qf : A * A) => if m then fst qf else snd qf) valid (combine computed fill).
Theorem mask_out_padded {A} (valid : list bool) (computed fill : list A) (t : nat) (a0 : A) :
  length computed = length valid -> length fill = length valid -> nth t valid true = false -> (t < length valid)%nat ->
  nth t (mask_out valid computed fill) a0 = nth t fill a0.
Proof.
  intros Hc Hf Hv Ht. unfold mask_out.
  rewrite (nth_map2 _ _ _ t true (a0, a0) a0) by (try rewrite combine_length; lia).
  rewrite Hv. rewrite combine_nth by lia. reflexivity.
Qed.
Theorem mask_out_valid {A} (valid : list bool) (computed fill : list A) (t : nat) (a0 : A) :
  length computed = length valid -> length fill = length valid -> nth t valid false = true ->
  nth t (mask_out valid computed fill) a0 = nth t computed a0.
Proof.
  intros Hc Hf Hv.
  assert (Ht : (t < length valid)%nat).
  { destruct (le_lt_dec (length valid) t) as [Hge|Hlt]; [|exact Hlt].
    rewrite nth_overflow in Hv by exact Hge. discriminate. }
  unfold mask_out.
  rewrite (nth_map2 _ _ _ t false (a0, a0) a0) by (try rewrite combine_length; lia).
  rewrite Hv. rewrite combine_nth by lia. reflexivity.
Qed.
Theorem mask_out_padding_independent {A} (valid : list bool) (c c' fill : list A) :
  agree_on_valid valid c c' -> length fill = length valid -> mask_out valid c fill = mask_out valid c' fill.
Proof.
  unfold mask_out. revert c c' fill. induction valid as [|m v IH]; intros c c' fill H Hf.
  - reflexivity.
  - destruct (agree_cons_inv _ _ _ _ H) as [x [a' [y [b' [Ha [Hb [Hm Hr]]]]]]]. subst c c'.
    destruct fill as [|f fill]; [discriminate|]. injection Hf as Hf.
    cbn [combine map2]. rewrite (IH _ _ _ Hr Hf). f_equal.
    destruct m; [|reflexivity]. cbn [fst]. apply Hm. reflexivity.
Qed.

(* masked mean loss = mean over the valid tokens only *)
Definition masked_mean (valid : list bool) (vals : list R) : R :=
  fsum R_ops (keep valid vals) / INR (length (keep valid vals)).
Theorem masked_mean_padding_independent (valid : list bool) (v v' : list R) :
  agree_on_valid valid v v' -> masked_mean valid v = masked_mean valid v'.
Proof.
  intros H. unfold masked_mean. rewrite (keep_padding_independent valid v v' H). reflexivity.
Qed.

From Coq Require Import Arith List Bool Lia.
From VQ Require Import Model.Strides.
Import ListNotations.

Section P.
Variable A : Type.
Variable zero : A.

(* uniqueness of the (row, column) decomposition of an address *)
Lemma divmod_unique (d a x c y : nat) : x < d -> y < d -> a * d + x = c * d + y -> a = c /\ x = y.
Proof.
  intros Hx Hy H.
  destruct (lt_eq_lt_dec a c) as [[Hl | He] | Hg].
  - exfalso. assert (a * d + d <= c * d) by nia. lia.
  - subst c. lia.
  - exfalso. assert (c * d + d <= a * d) by nia. lia.
Qed.

Lemma row_addr_contiguous (b n d r k : nat) : row_addr (contiguous b n d) r k = r * d + k.
Proof. unfold row_addr, contiguous. cbn [off sn sd]. lia. Qed.

Lemma addr_contiguous (b n d i j k : nat) : addr (contiguous b n d) i j k = (i * n + j) * d + k.
Proof. unfold addr, contiguous. cbn [off sb sn sd]. nia. Qed.

Lemma zero_cols_contiguous (m : storage A) (b n d r kk r' k' : nat) :
  kk <= d -> k' < d ->
  zero_cols A zero m (contiguous b n d) r kk (r' * d + k')
  = if (r' =? r) && (k' <? kk) then zero else m (r' * d + k').
Proof.
  induction kk as [| kk IH]; intros Hkk Hk'.
  - cbn [zero_cols]. rewrite andb_false_r. reflexivity.
  - cbn [zero_cols]. unfold update. rewrite row_addr_contiguous.
    destruct (Nat.eqb_spec (r' * d + k') (r * d + kk)) as [E | NE].
    + apply divmod_unique in E; [| lia | lia]. destruct E as [E1 E2]. subst r' k'.
      rewrite Nat.eqb_refl. cbn [andb].
      destruct (Nat.ltb_spec kk (S kk)); [reflexivity | lia].
    + rewrite IH by lia.
      destruct (Nat.eqb_spec r' r) as [Er | Nr]; cbn [andb]; [| reflexivity].
      subst r'.
      destruct (Nat.ltb_spec k' kk); destruct (Nat.ltb_spec k' (S kk)); try reflexivity; lia.
Qed.

Lemma zero_rows_view_contiguous (m : storage A) (b n d : nat) (rows : nat -> bool) (R r0 k : nat) :
  k < d ->
  zero_rows_view A zero m (contiguous b n d) rows R (r0 * d + k)
  = if (r0 <? R) && rows r0 then zero else m (r0 * d + k).
Proof.
  intros Hk. induction R as [| R IH].
  - cbn [zero_rows_view]. reflexivity.
  - cbn [zero_rows_view]. cbv zeta.
    replace (nd (contiguous b n d)) with d by reflexivity.
    destruct (rows R) eqn:ER.
    + rewrite zero_cols_contiguous by lia.
      destruct (Nat.ltb_spec k d) as [_ | ?]; [| lia]. rewrite andb_true_r.
      destruct (Nat.eqb_spec r0 R) as [E | NE].
      * subst r0. destruct (Nat.ltb_spec R (S R)); [| lia]. rewrite ER. reflexivity.
      * rewrite IH.
        destruct (Nat.ltb_spec r0 R); destruct (Nat.ltb_spec r0 (S R)); try reflexivity; lia.
    + rewrite IH.
      destruct (Nat.ltb_spec r0 R); destruct (Nat.ltb_spec r0 (S R)); try reflexivity; try lia.
      assert (r0 = R) by lia. subst r0. rewrite ER. reflexivity.
Qed.

Lemma contiguous_mergeable (b n d : nat) : mergeable (contiguous b n d) = true.
Proof. unfold mergeable, contiguous. cbn [sb nn sn nb]. rewrite Nat.eqb_refl. reflexivity. Qed.

(* contiguous tensors: the write through reshape lands, and equals the functional where, for all extents and row selections *)
Theorem contiguous_write_lands (b n d : nat) (m : storage A) (rows : nat -> bool) (i j k : nat) :
  i < b -> j < n -> k < d ->
  get A (write_through_reshape A zero m (contiguous b n d) rows) (contiguous b n d) i j k
  = where_rows A zero m (contiguous b n d) rows i j k.
Proof.
  intros Hi Hj Hk.
  unfold write_through_reshape. rewrite contiguous_mergeable.
  unfold where_rows, get. rewrite addr_contiguous.
  replace (nb (contiguous b n d)) with b by reflexivity.
  replace (nn (contiguous b n d)) with n by reflexivity.
  rewrite zero_rows_view_contiguous by assumption.
  destruct (Nat.ltb_spec (i * n + j) (b * n)) as [_ | H]; [| exfalso; assert ((i + 1) * n <= b * n) by (apply Nat.mul_le_mono_r; lia); lia].
  reflexivity.
Qed.

(* a batch-permuted view with at least two rows in each leading axis is not mergeable: reshape copies, the write is lost *)
Theorem batch_permuted_not_mergeable (b n d : nat) : 2 <= b -> 2 <= n -> 1 <= d -> mergeable (batch_permuted b n d) = false.
Proof.
  intros Hb Hn Hd. unfold mergeable, batch_permuted. cbn [sb nn sn nb].
  assert (E1 : (d =? n * (b * d)) = false) .
  { apply Nat.eqb_neq.
    assert (2 * d <= b * d) by (apply Nat.mul_le_mono_r; lia).
    assert (2 * (b * d) <= n * (b * d)) by (apply Nat.mul_le_mono_r; lia).
    lia. }
  assert (E2 : (b <=? 1) = false) by (apply Nat.leb_gt; lia).
  assert (E3 : (n <=? 1) = false) by (apply Nat.leb_gt; lia).
  rewrite E1, E2, E3. reflexivity.
Qed.

(* the feature-permuted view (strides (n, 1, b*n)) IS mergeable: stride_b = n * stride_n, reshape(-1, d) is a view there *)
Theorem feature_permuted_mergeable (b n d : nat) : mergeable (feature_permuted b n d) = true.
Proof.
  unfold mergeable, feature_permuted. cbn [sb nn sn nb].
  rewrite Nat.mul_1_r, Nat.eqb_refl. reflexivity.
Qed.

Theorem permuted_write_is_lost (b n d : nat) (m : storage A) (rows : nat -> bool) :
  2 <= b -> 2 <= n -> 1 <= d ->
  write_through_reshape A zero m (batch_permuted b n d) rows = m.
Proof.
  intros Hb Hn Hd. unfold write_through_reshape.
  rewrite batch_permuted_not_mergeable by assumption. reflexivity.
Qed.

(* hence the in-place form differs from the functional form on a permuted view: a selected row keeps its old (non-zero) content *)
Theorem write_through_reshape_refuted (one : A) : one <> zero ->
  exists (t : t3) (m : storage A) (rows : nat -> bool) (i j k : nat),
    i < nb t /\ j < nn t /\ k < nd t /\
    get A (write_through_reshape A zero m t rows) t i j k <> where_rows A zero m t rows i j k.
Proof.
  intros Hne.
  exists (batch_permuted 2 2 1), (fun _ => one), (fun _ => true), 0, 0, 0.
  cbn [nb nn nd batch_permuted].
  repeat split; try lia.
  rewrite permuted_write_is_lost by lia.
  unfold where_rows, get. exact Hne.
Qed.
End P.

From Coq Require Import Arith List Bool Lia.
From VQ Require Import Model.Strides.
From VQ.Proofs Require Import StridesProofs.
Import ListNotations.

Section G.
Variable A : Type.
Variable zero : A.

(* no two in-range indices share an address (dense or strided-without-overlap layouts; excludes expanded stride-0 tensors) *)
Definition injective_addressing (t : t3) : Prop :=
  forall i j k i' j' k', i < nb t -> j < nn t -> k < nd t -> i' < nb t -> j' < nn t -> k' < nd t ->
    addr t i j k = addr t i' j' k' -> i = i' /\ j = j' /\ k = k'.

Lemma addr_row_addr (t : t3) (i j k : nat) : sb t = nn t * sn t -> addr t i j k = row_addr t (i * nn t + j) k.
Proof. intros H. unfold addr, row_addr. rewrite H. nia. Qed.

Lemma row_decomp (t : t3) (r : nat) : r < nb t * nn t ->
  exists i j, i < nb t /\ j < nn t /\ r = i * nn t + j.
Proof.
  intros Hr. assert (Hn : nn t <> 0) by nia.
  exists (r / nn t), (r mod nn t). split; [| split].
  - apply Nat.div_lt_upper_bound; [assumption | lia].
  - apply Nat.mod_upper_bound. assumption.
  - pose proof (Nat.div_mod r (nn t) Hn). lia.
Qed.

Lemma row_addr_inj (t : t3) (r k r' k' : nat) :
  sb t = nn t * sn t -> injective_addressing t ->
  r < nb t * nn t -> r' < nb t * nn t -> k < nd t -> k' < nd t ->
  row_addr t r k = row_addr t r' k' -> r = r' /\ k = k'.
Proof.
  intros Hs Hinj Hr Hr' Hk Hk' E.
  destruct (row_decomp t r Hr) as (i & j & Hi & Hj & Er).
  destruct (row_decomp t r' Hr') as (i' & j' & Hi' & Hj' & Er').
  subst r r'. rewrite <- !addr_row_addr in E by assumption.
  apply Hinj in E; try assumption. destruct E as (E1 & E2 & E3). subst. split; reflexivity.
Qed.

Lemma zero_cols_gen (m : storage A) (t : t3) (r kk r0 k : nat) :
  sb t = nn t * sn t -> injective_addressing t ->
  r < nb t * nn t -> r0 < nb t * nn t -> kk <= nd t -> k < nd t ->
  zero_cols A zero m t r kk (row_addr t r0 k)
  = if (r0 =? r) && (k <? kk) then zero else m (row_addr t r0 k).
Proof.
  intros Hs Hinj Hr Hr0. induction kk as [| kk IH]; intros Hkk Hk.
  - cbn [zero_cols]. rewrite andb_false_r. reflexivity.
  - cbn [zero_cols]. unfold update.
    destruct (Nat.eqb_spec (row_addr t r0 k) (row_addr t r kk)) as [E | NE].
    + apply row_addr_inj in E; try assumption; try lia. destruct E as [E1 E2]. subst r0 k.
      rewrite Nat.eqb_refl. cbn [andb].
      destruct (Nat.ltb_spec kk (S kk)); [reflexivity | lia].
    + rewrite IH by lia.
      destruct (Nat.eqb_spec r0 r) as [Er | Nr]; cbn [andb]; [| reflexivity].
      subst r0.
      destruct (Nat.ltb_spec k kk); destruct (Nat.ltb_spec k (S kk)); try reflexivity; try lia.
      assert (k = kk) by lia. subst k. exfalso. apply NE. reflexivity.
Qed.

Lemma zero_rows_view_gen (m : storage A) (t : t3) (rows : nat -> bool) (R r0 k : nat) :
  sb t = nn t * sn t -> injective_addressing t ->
  R <= nb t * nn t -> r0 < nb t * nn t -> k < nd t ->
  zero_rows_view A zero m t rows R (row_addr t r0 k)
  = if (r0 <? R) && rows r0 then zero else m (row_addr t r0 k).
Proof.
  intros Hs Hinj HR Hr0 Hk. induction R as [| R IH].
  - cbn [zero_rows_view]. reflexivity.
  - cbn [zero_rows_view]. cbv zeta.
    destruct (rows R) eqn:ER.
    + rewrite zero_cols_gen; try assumption; try lia.
      destruct (Nat.ltb_spec k (nd t)) as [_ | ?]; [| lia]. rewrite andb_true_r.
      destruct (Nat.eqb_spec r0 R) as [E | NE].
      * subst r0. destruct (Nat.ltb_spec R (S R)); [| lia]. rewrite ER. reflexivity.
      * rewrite IH by lia.
        destruct (Nat.ltb_spec r0 R); destruct (Nat.ltb_spec r0 (S R)); try reflexivity; lia.
    + rewrite IH by lia.
      destruct (Nat.ltb_spec r0 R); destruct (Nat.ltb_spec r0 (S R)); try reflexivity; try lia.
      assert (r0 = R) by lia. subst r0. rewrite ER. reflexivity.
Qed.

(* ANY layout whose leading axes merge (stride_b = n * stride_n) and whose addressing is injective: the write through the reshape handle lands and
   equals the functional where - contiguous tensors, strided slices, storage offsets, the feature-permuted view ... *)
Theorem mergeable_write_lands (t : t3) (m : storage A) (rows : nat -> bool) (i j k : nat) :
  sb t = nn t * sn t -> injective_addressing t ->
  i < nb t -> j < nn t -> k < nd t ->
  get A (write_through_reshape A zero m t rows) t i j k = where_rows A zero m t rows i j k.
Proof.
  intros Hs Hinj Hi Hj Hk.
  assert (Hr : i * nn t + j < nb t * nn t).
  { assert ((i + 1) * nn t <= nb t * nn t) by (apply Nat.mul_le_mono_r; lia). lia. }
  unfold write_through_reshape, mergeable. rewrite Hs, Nat.eqb_refl. cbn [orb].
  unfold where_rows, get. rewrite addr_row_addr by assumption.
  rewrite zero_rows_view_gen; try assumption; try lia.
  destruct (Nat.ltb_spec (i * nn t + j) (nb t * nn t)) as [_ | H]; [| lia].
  reflexivity.
Qed.

(* the feature-permuted view (stored feature-major, viewed channel-last) is such a layout *)
Theorem feature_permuted_injective (b n d : nat) : injective_addressing (feature_permuted b n d).
Proof.
  unfold injective_addressing, addr, feature_permuted. cbn [off sb sn sd nb nn nd].
  intros i j k i' j' k' Hi Hj Hk Hi' Hj' Hk' E.
  assert (H1 : i * n + j < b * n).
  { assert ((i + 1) * n <= b * n) by (apply Nat.mul_le_mono_r; lia). lia. }
  assert (H2 : i' * n + j' < b * n).
  { assert ((i' + 1) * n <= b * n) by (apply Nat.mul_le_mono_r; lia). lia. }
  assert (E' : k * (b * n) + (i * n + j) = k' * (b * n) + (i' * n + j')) by lia.
  apply divmod_unique in E'; try assumption. destruct E' as [Ek E2].
  apply divmod_unique in E2; try assumption. destruct E2 as [Ei Ej].
  repeat split; assumption.
Qed.

Corollary feature_permuted_write_lands (b n d : nat) (m : storage A) (rows : nat -> bool) (i j k : nat) :
  i < b -> j < n -> k < d ->
  get A (write_through_reshape A zero m (feature_permuted b n d) rows) (feature_permuted b n d) i j k
  = where_rows A zero m (feature_permuted b n d) rows i j k.
Proof.
  intros Hi Hj Hk. apply mergeable_write_lands.
  - unfold feature_permuted. cbn [sb nn sn]. lia.
  - apply feature_permuted_injective.
  - exact Hi.
  - exact Hj.
  - exact Hk.
Qed.

(* an expanded (stride-0) batch is NOT injective: a write meant for one row hits every row that shares its storage *)
Theorem expanded_write_aliases (one : A) : one <> zero ->
  exists (t : t3) (m : storage A) (rows : nat -> bool) (i j k : nat),
    sb t = nn t * sn t /\ i < nb t /\ j < nn t /\ k < nd t /\
    get A (write_through_reshape A zero m t rows) t i j k <> where_rows A zero m t rows i j k.
Proof.
  intros Hne.
  exists (mk3 0 0 0 1 2 1 1), (fun _ => one), (fun r => Nat.eqb r 0), 1, 0, 0.
  cbn [sb nn sn nb nd].
  repeat split; try lia.
  cbv. intros H. apply Hne. symmetry. exact H.
Qed.
End G.

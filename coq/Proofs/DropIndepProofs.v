From Coq Require Import Bool String List Arith Lia.
From VQ Require Import Model.GroupCat Model.DropIndep.
Import ListNotations.

Section P.
Context {P St I L : Type}.
Variable run : P -> St -> St * I * L.
Variable null_i : I.
Variable null_l : L.

(* in the dropped region only the number of layers matters *)
Lemma forward_from_dropped (r : nat) : forall (ps ps' : list P) (k : nat) (s : St),
  (r < k)%nat -> List.length ps = List.length ps' ->
  forward_from run null_i null_l k r ps s = forward_from run null_i null_l k r ps' s.
Proof.
  induction ps as [|p ps IH]; destruct ps' as [|p' ps']; intros k s Hlt Hlen; cbn [List.length] in Hlen; try discriminate; [reflexivity|].
  cbn [forward_from].
  destruct (Nat.ltb_spec r k) as [_|Hge]; [|lia].
  rewrite (IH ps' (S k) s); [reflexivity|lia|lia].
Qed.

Lemma forward_from_independent (r : nat) : forall (ps ps' : list P) (k : nat) (s : St),
  List.length ps = List.length ps' -> firstn (S r - k) ps = firstn (S r - k) ps' ->
  forward_from run null_i null_l k r ps s = forward_from run null_i null_l k r ps' s.
Proof.
  induction ps as [|p ps IH]; destruct ps' as [|p' ps']; intros k s Hlen Hfst; cbn [List.length] in Hlen; try discriminate; [reflexivity|].
  cbn [forward_from].
  destruct (Nat.ltb_spec r k) as [Hlt|Hge].
  - rewrite (forward_from_dropped r ps ps' (S k) s); [reflexivity|lia|lia].
  - replace (S r - k)%nat with (S (r - k)) in Hfst by lia.
    cbn [firstn] in Hfst. injection Hfst as Hp Hfst. subst p'.
    destruct (run p s) as [[s1 i] l].
    rewrite (IH ps' (S k) s1); [reflexivity|lia|].
    replace (S r - S k)%nat with (r - k)%nat by lia. exact Hfst.
Qed.

(* the results of a call with dropout depth r do not depend on what the dropped layers own: two stacks that agree on layers 0..r (and have the same
   number of layers) give the same state, indices and losses - for ARBITRARY layers *)
Theorem forward_independent_of_dropped_layers (r : nat) (ps ps' : list P) (s : St) :
  List.length ps = List.length ps' -> firstn (S r) ps = firstn (S r) ps' ->
  forward run null_i null_l r ps s = forward run null_i null_l r ps' s.
Proof.
  intros Hlen Hfst. unfold forward.
  apply forward_from_independent; [exact Hlen|].
  rewrite Nat.sub_0_r. exact Hfst.
Qed.

Lemma forward_from_dropped_null (r : nat) : forall (ps : list P) (k : nat) (s : St) (j : nat),
  (r < k + j)%nat -> (j < List.length ps)%nat ->
  let '(_, is_, ls) := forward_from run null_i null_l k r ps s in nth_error is_ j = Some null_i /\ nth_error ls j = Some null_l.
Proof.
  induction ps as [|p ps IH]; intros k s j Hr Hj; cbn [List.length] in Hj; [lia|].
  cbn [forward_from].
  destruct (Nat.ltb_spec r k) as [Hlt|Hge].
  - destruct j as [|j].
    + destruct (forward_from run null_i null_l (S k) r ps s) as [[s' is_] ls]. cbn. split; reflexivity.
    + specialize (IH (S k) s j ltac:(lia) ltac:(lia)).
      destruct (forward_from run null_i null_l (S k) r ps s) as [[s' is_] ls]. cbn. exact IH.
  - destruct j as [|j]; [lia|].
    destruct (run p s) as [[s1 i] l].
    specialize (IH (S k) s1 j ltac:(lia) ltac:(lia)).
    destruct (forward_from run null_i null_l (S k) r ps s1) as [[s' is_] ls]. cbn. exact IH.
Qed.

(* every dropped layer reports exactly the null index and the null loss *)
Theorem dropped_entries_are_null (r : nat) (ps : list P) (s : St) (k : nat) :
  (r < k < List.length ps)%nat ->
  let '(_, is_, ls) := forward run null_i null_l r ps s in nth_error is_ k = Some null_i /\ nth_error ls k = Some null_l.
Proof.
  intros [Hr Hk]. unfold forward.
  apply (forward_from_dropped_null r ps 0 s k); [lia|exact Hk].
Qed.

Lemma forward_from_lengths (r : nat) : forall (ps : list P) (k : nat) (s : St),
  let '(_, is_, ls) := forward_from run null_i null_l k r ps s in List.length is_ = List.length ps /\ List.length ls = List.length ps.
Proof.
  induction ps as [|p ps IH]; intros k s; cbn [forward_from].
  - split; reflexivity.
  - destruct (Nat.ltb r k).
    + specialize (IH (S k) s).
      destruct (forward_from run null_i null_l (S k) r ps s) as [[s' is_] ls]. cbn [List.length]. destruct IH as [H1 H2]. rewrite H1, H2. split; reflexivity.
    + destruct (run p s) as [[s1 i] l].
      specialize (IH (S k) s1).
      destruct (forward_from run null_i null_l (S k) r ps s1) as [[s' is_] ls]. cbn [List.length]. destruct IH as [H1 H2]. rewrite H1, H2. split; reflexivity.
Qed.

(* one entry per layer *)
Theorem forward_lengths (r : nat) (ps : list P) (s : St) :
  let '(_, is_, ls) := forward run null_i null_l r ps s in List.length is_ = List.length ps /\ List.length ls = List.length ps.
Proof.
  unfold forward. apply forward_from_lengths.
Qed.
End P.

(* the leaky variant is refuted: two stacks that differ only in a DROPPED layer report different losses *)
Theorem forward_leaky_refuted : exists (run : nat -> nat -> nat * nat * nat) (leak : nat -> nat) (r : nat) (ps ps' : list nat) (s : nat),
  List.length ps = List.length ps' /\ firstn (S r) ps = firstn (S r) ps' /\
  forward_leaky run 0 leak r ps s <> forward_leaky run 0 leak r ps' s.
Proof.
  exists (fun _ s => (s, 0, 0)), (fun p => p), 0, [0; 1], [0; 2], 0.
  split; [reflexivity|]. split; [reflexivity|].
  vm_compute. discriminate.
Qed.

Lemma forward_leaky_from_agrees {P St I L : Type} (run : P -> St -> St * I * L) (null_i : I) (null_l : L) (leak : P -> L) (r : nat) :
  forall (ps : list P) (k : nat) (s : St),
  (forall p, In p ps -> leak p = null_l) ->
  forward_leaky_from run null_i leak k r ps s = forward_from run null_i null_l k r ps s.
Proof.
  induction ps as [|p ps IH]; intros k s Hleak; [reflexivity|].
  cbn [forward_leaky_from forward_from].
  rewrite (Hleak p (in_eq p ps)).
  destruct (Nat.ltb r k).
  - rewrite (IH (S k) s (fun q Hq => Hleak q (in_cons p q ps Hq))). reflexivity.
  - destruct (run p s) as [[s1 i] l].
    rewrite (IH (S k) s1 (fun q Hq => Hleak q (in_cons p q ps Hq))). reflexivity.
Qed.

(* ... and it agrees with the real forward exactly when the leak is the null loss on every dropped layer (ordinary magnitudes: x * 0 = 0) *)
Theorem forward_leaky_agrees_when_leak_is_null {P St I L : Type} (run : P -> St -> St * I * L) (null_i : I) (null_l : L) (leak : P -> L) (r : nat) (ps : list P) (s : St) :
  (forall p, In p ps -> leak p = null_l) -> forward_leaky run null_i leak r ps s = forward run null_i null_l r ps s.
Proof.
  intros Hleak. unfold forward_leaky, forward. apply forward_leaky_from_agrees. exact Hleak.
Qed.

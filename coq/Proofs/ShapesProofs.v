(* C13: shapes for every extent >= 1, including all degenerate ones. *)
From Coq Require Import Arith List Bool Lia.
From VQ Require Import Model.Shapes.
Import ListNotations.

(* ---------- rotate_to: squeezing only the unit axis it created keeps the shape for EVERY (tokens, dim) *)
Theorem rotate_shape_squeeze_dim (m d : nat) : 1 <= m -> 1 <= d -> rotate_to_shape (squeeze_at 1) m d = Some [m; d].
Proof.
  intros Hm Hd. unfold rotate_to_shape, broadcast. simpl.
  rewrite Nat.eqb_refl. simpl.
  destruct (Nat.eqb d 1) eqn:E; reflexivity.
Qed.
(* a bare squeeze() is wrong exactly in the degenerate corner: feature dimension 1 with more than one token *)
Theorem rotate_shape_bare_squeeze_refuted : rotate_to_shape squeeze_all 6 1 = Some [6; 6].
Proof. reflexivity. Qed.
Theorem rotate_shape_bare_squeeze_ok_otherwise (m d : nat) : 2 <= m -> 2 <= d -> rotate_to_shape squeeze_all m d = Some [m; d].
Proof.
  intros Hm Hd. unfold rotate_to_shape, broadcast, squeeze_all. simpl.
  assert (Em : Nat.eqb m 1 = false) by (apply Nat.eqb_neq; lia).
  assert (Ed : Nat.eqb d 1 = false) by (apply Nat.eqb_neq; lia).
  rewrite Em, Ed. simpl. rewrite Nat.eqb_refl, Ed. simpl. reflexivity.
Qed.

(* ---------- the quantized output has the shape of the input, for every layout and every extent *)
Theorem output_shape_is_input_shape (l : layout) (s : shape) (bnd : nat * nat * nat) :
  to_seq l s = Some bnd -> from_seq l s bnd = s.
Proof.
  intros H. destruct l; destruct s as [|a [|b [|c [|d [|e t]]]]]; simpl in *; try discriminate;
    injection H as H; subst bnd; reflexivity.
Qed.
(* the number of tokens the codebook sees is the product of the non-feature extents *)
Theorem tokens_count (l : layout) (s : shape) (b n d : nat) :
  to_seq l s = Some (b, n, d) -> b * n = prod (drop_feature l s).
Proof.
  intros H. destruct l; destruct s as [|a0 [|b0 [|c0 [|d0 [|e0 t]]]]]; simpl in *; try discriminate;
    injection H as Hb Hn Hd; subst; ring.
Qed.
(* indices: the input without its feature axis, plus a trailing heads axis when heads > 1 *)
Theorem index_shape_documented (l : layout) (s : shape) (heads b n d : nat) :
  to_seq l s = Some (b, n, d) -> idx_from_seq l s heads (b, n) = trailing heads (drop_feature l s).
Proof.
  intros H. destruct l; destruct s as [|a0 [|b0 [|c0 [|d0 [|e0 t]]]]]; simpl in *; try discriminate;
    injection H as Hb Hn Hd; subst; reflexivity.
Qed.
Theorem residual_index_shape (layers : nat) (s : shape) : residual_idx layers s = s ++ [layers] /\ length (residual_idx layers s) = S (length s).
Proof.
  split; [reflexivity|]. unfold residual_idx. rewrite app_length. simpl. lia.
Qed.
Theorem grouped_index_shape (groups : nat) (s : shape) : grouped_idx groups s = groups :: s.
Proof. reflexivity. Qed.

(* ---------- squeeze / broadcast facts *)
Lemma squeeze_at_unit (pre post : shape) : squeeze_at (length pre) (pre ++ 1 :: post) = pre ++ post.
Proof.
  induction pre as [|x pre IH]; simpl; [reflexivity|]. rewrite IH. reflexivity.
Qed.
Lemma squeeze_at_nonunit (pre post : shape) (n : nat) : n <> 1 -> squeeze_at (length pre) (pre ++ n :: post) = pre ++ n :: post.
Proof.
  intros Hn. induction pre as [|x pre IH]; simpl.
  - apply Nat.eqb_neq in Hn. rewrite Hn. reflexivity.
  - rewrite IH. reflexivity.
Qed.
Lemma squeeze_all_no_units (s : shape) : Forall (fun n => n <> 1) s -> squeeze_all s = s.
Proof.
  intros HF. induction HF as [|x t Hx HF IH]; [reflexivity|].
  apply Nat.eqb_neq in Hx. unfold squeeze_all in *. cbn [filter]. rewrite Hx. cbn [negb].
  rewrite IH. reflexivity.
Qed.
Lemma bcast_rev_same (s : shape) : bcast_rev s s = Some s.
Proof.
  induction s as [|x s IH]; simpl; [reflexivity|]. rewrite IH, Nat.eqb_refl. reflexivity.
Qed.
Lemma broadcast_same (s : shape) : broadcast s s = Some s.
Proof.
  unfold broadcast. rewrite bcast_rev_same. simpl. rewrite rev_involutive. reflexivity.
Qed.

(* The block (run-length) form of the EMA update equals the codebook model on the expanded batch, for every multiplicity. *)
From Coq Require Import ZArith List Bool Reals Lra Lia.
From VQ Require Import Num Model.Vec Model.Core Model.CoreCheck Model.Blocks.
From VQ.Proofs Require Import CoreEMA.
From VQ.Gen Require Import g_euclid_ema g_euclid_update_ema g_euclid_expire g_euclid_replace g_euclid_mask_onehot
  g_cosine_ema g_cosine_update_ema g_cosine_expire g_cosine_replace g_cosine_mask_onehot.
Import ListNotations.
Open Scope R_scope.

Definition rblock (b : nblock R) : block R := match b with (x, i, v, n) => mkblock x i v (INR n) end.


(* ---------- helpers ---------- *)
Lemma combine_repeat_app {A B} (a : A) (b : B) (n : nat) (l : list A) (l' : list B) :
  combine (repeat a n ++ l) (repeat b n ++ l') = repeat (a, b) n ++ combine l l'.
Proof. induction n as [|n IH]; cbn [repeat app combine]; [reflexivity | rewrite IH; reflexivity]. Qed.

Lemma expand_ims_cons (x : list R) (i : nat) (v : bool) (n : nat) (bs : list (nblock R)) :
  combine (expand_idx ((x, i, v, n) :: bs)) (expand_valid ((x, i, v, n) :: bs))
  = repeat (i, v) n ++ combine (expand_idx bs) (expand_valid bs).
Proof. unfold expand_idx, expand_valid. cbn [flat_map]. apply combine_repeat_app. Qed.

Lemma expand_xs_cons (x : list R) (i : nat) (v : bool) (n : nat) (bs : list (nblock R)) :
  expand_xs ((x, i, v, n) :: bs) = repeat x n ++ expand_xs bs.
Proof. reflexivity. Qed.

Lemma expand_xs_dims (d : nat) (bs : list (nblock R)) :
  Forall (fun b => length (fst (fst (fst b))) = d) bs -> Forall (fun v => length v = d) (expand_xs bs).
Proof.
  induction 1 as [|[[[x i] v] n] bs Hb Hbs IH]; [constructor|].
  rewrite expand_xs_cons. apply Forall_app. split; [|exact IH].
  cbn [fst] in Hb. clear -Hb. induction n as [|n IHn]; cbn [repeat]; constructor; assumption.
Qed.

Lemma count_repeat_app (im : nat * bool) (n : nat) (L : list (nat * bool)) (j : nat) :
  count_j R_ops (repeat im n ++ L) j = (if sel j im then INR n else 0) + count_j R_ops L j.
Proof.
  unfold count_j. induction n as [|n IH].
  - cbn [repeat app INR]. destruct (sel j im); lra.
  - cbn [repeat app map]. rewrite fsum_cons, IH, S_INR. destruct (sel j im); cbn [one zero R_ops]; lra.
Qed.

Lemma vadd_scale_step (c : R) (x r : list R) :
  vadd R_ops x (vadd R_ops (vscale R_ops c x) r) = vadd R_ops (vscale R_ops (c + 1) x) r.
Proof.
  unfold vadd, vscale. revert r; induction x as [|a x IH]; intros [|b r]; cbn [map map2]; try reflexivity.
  rewrite IH. f_equal. cbn [add mul R_ops]. ring.
Qed.

Lemma vadd_scale0 (x r : list R) : length x = length r -> vadd R_ops (vscale R_ops 0 x) r = r.
Proof.
  unfold vadd, vscale. revert r; induction x as [|a x IH]; intros [|b r] Hl; try discriminate; [reflexivity|].
  injection Hl as Hl. cbn [map map2]. rewrite IH by exact Hl. f_equal. cbn [add mul R_ops]. ring.
Qed.

Lemma sum_repeat_app (d : nat) (x : list R) (im : nat * bool) (n : nat) (xs : list (list R)) (ims : list (nat * bool)) (j : nat) :
  length x = d -> Forall (fun v => length v = d) xs ->
  sum_j R_ops d (repeat x n ++ xs) (repeat im n ++ ims) j
  = vadd R_ops (if sel j im then vscale R_ops (INR n) x else vzero R_ops d) (sum_j R_ops d xs ims j).
Proof.
  intros Hx Hxs. pose proof (sum_j_length d xs ims j Hxs) as Hr.
  induction n as [|n IH].
  - cbn [repeat app INR]. destruct (sel j im).
    + rewrite vadd_scale0; [reflexivity | congruence].
    + rewrite vadd_vzero_l; [reflexivity | exact Hr].
  - change (sum_j R_ops d (repeat x (S n) ++ xs) (repeat im (S n) ++ ims) j)
      with (vadd R_ops (if sel j im then x else vzero R_ops d) (sum_j R_ops d (repeat x n ++ xs) (repeat im n ++ ims) j)).
    rewrite IH, S_INR. destruct (sel j im).
    + apply vadd_scale_step.
    + rewrite !(vadd_vzero_l d _ Hr). reflexivity.
Qed.

Lemma count_repeat_self (j n : nat) : count_j R_ops (repeat (j, true) n) j = INR n.
Proof.
  rewrite <- (app_nil_r (repeat (j, true) n)), count_repeat_app.
  unfold sel. cbn [fst snd andb]. rewrite Nat.eqb_refl. unfold count_j. cbn [map]. rewrite fsum_nil. lra.
Qed.

(* usage count of code j in the expanded batch = sum of the multiplicities of the blocks that select j *)
Theorem block_counts (bs : list (nblock R)) (j : nat) :
  count_j R_ops (combine (expand_idx bs) (expand_valid bs)) j = bcount_j R_ops (map rblock bs) j.
Proof.
  induction bs as [|[[[x i] v] n] bs IH]; [reflexivity|].
  rewrite expand_ims_cons, count_repeat_app, IH. unfold bcount_j. cbn [map rblock]. rewrite fsum_cons.
  cbn [b_idx b_valid b_mult]. reflexivity.
Qed.

(* vector sum of code j in the expanded batch = sum of multiplicity * x *)
Theorem block_sums (d : nat) (bs : list (nblock R)) (j : nat) :
  Forall (fun b => length (fst (fst (fst b))) = d) bs ->
  sum_j R_ops d (expand_xs bs) (combine (expand_idx bs) (expand_valid bs)) j = bsum_j R_ops d (map rblock bs) j.
Proof.
  induction 1 as [|[[[x i] v] n] bs Hb Hbs IH]; [reflexivity|].
  cbn [fst] in Hb.
  rewrite expand_ims_cons, expand_xs_cons, (sum_repeat_app d x (i, v) n _ _ j Hb (expand_xs_dims d bs Hbs)), IH.
  reflexivity.
Qed.

Theorem block_accumulate (decay : R) (d : nat) (s : cstate R) (bs : list (nblock R)) :
  Forall (fun b => length (fst (fst (fst b))) = d) bs ->
  ema_accumulate R_ops decay d s (expand_xs bs) (combine (expand_idx bs) (expand_valid bs))
  = ema_accumulate_stats R_ops decay s (bsums R_ops (length (cluster_size s)) d (map rblock bs)) (bcounts R_ops (length (cluster_size s)) (map rblock bs)).
Proof.
  intros Hbs. unfold ema_accumulate, ema_accumulate_stats. f_equal.
  - f_equal. unfold sums, bsums. apply map_ext. intros j. apply block_sums, Hbs.
  - f_equal. unfold counts, bcounts. apply map_ext. intros j. apply block_counts.
Qed.

(* the whole call: a training, non-frozen EMA call with a mask (validity flags), expiry threshold 0, on the expanded batch *)
Theorem block_update_correct (cfg : ccfg R) (d : nat) (s : cstate R) (bs : list (nblock R)) (picks : list (list R)) :
  Forall (fun b => length (fst (fst (fst b))) = d) bs ->
  dim_of (expand_xs bs) = d ->
  c_ema_update cfg = true -> c_manual cfg = false -> c_thr cfg = 0 ->
  cb_update R_ops sqrt cfg true false true s (expand_xs bs) (expand_valid bs) (expand_idx bs) picks
  = block_update R_ops sqrt cfg d s (map rblock bs).
Proof.
  intros Hbs Hd Hema Hman Hthr.
  unfold cb_update, g_ema, g_maskhot, g_update, g_expire, expire,
    g_cosine_ema, g_euclid_ema, g_cosine_mask_onehot, g_euclid_mask_onehot,
    g_cosine_update_ema, g_euclid_update_ema, g_cosine_expire, g_euclid_expire,
    g_cosine_replace, g_euclid_replace.
  rewrite Hema, Hman, Hthr, Hd.
  assert (Hz : eqb R_ops 0 (zero R_ops) = true) by (apply Reqb_true; reflexivity).
  rewrite Hz. unfold block_update.
  destruct (c_cosine cfg); cbn [andb negb]; rewrite (block_accumulate _ _ _ _ Hbs); reflexivity.
Qed.

(* a saturating counter is NOT the law: with one block of n tokens on code j the count moves to decay * old + (1 - decay) * n for every n *)
Corollary block_single_code_count (decay : R) (d : nat) (s : cstate R) (x : list R) (j n : nat) :
  length x = d -> (j < length (cluster_size s))%nat ->
  nth j (cluster_size (ema_accumulate R_ops decay d s (repeat x n) (repeat (j, true) n))) 0
  = decay * nth j (cluster_size s) 0 + (1 - decay) * INR n.
Proof.
  intros _ Hj. rewrite ema_counts_law by exact Hj. rewrite count_repeat_self. reflexivity.
Qed.

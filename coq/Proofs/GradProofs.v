(* C07: gradient contract over the reals; every dimension. *)
From Coq Require Import ZArith List Bool Reals Lra Lia.
From Coquelicot Require Import Coquelicot.
From VQ Require Import Num Model.Vec Model.Core Model.Grad Model.Scalar Proofs.ScalarProofs.
From VQ Require Import Proofs.CoreKmeans Proofs.CoreNearest.
From VQ.Gen Require Import k_safe_div g_vq_maybe_detach g_vq_rotate k_fsq_bound.
Import ListNotations.
Open Scope R_scope.

Notation Rv := (list R).

(* ====================================================================== helper library *)
Lemma gvadd_cons (a b : R) (x y : Rv) : vadd R_ops (a :: x) (b :: y) = (a + b) :: vadd R_ops x y.
Proof. reflexivity. Qed.
Lemma gvscale_cons (k a : R) (x : Rv) : vscale R_ops k (a :: x) = (k * a) :: vscale R_ops k x.
Proof. reflexivity. Qed.
Lemma gvscale_nil (k : R) : vscale R_ops k [] = [].
Proof. reflexivity. Qed.

Lemma gvscale_vscale (a b : R) (x : Rv) : vscale R_ops a (vscale R_ops b x) = vscale R_ops (a * b) x.
Proof.
  induction x as [|c x IH]; [reflexivity|].
  rewrite !gvscale_cons, IH. f_equal. ring.
Qed.
Lemma gvscale_eq_one (k : R) (x : Rv) : k = 1 -> vscale R_ops k x = x.
Proof. intros ->. apply vscale_one. Qed.

Lemma gdot_comm (a b : Rv) : dot R_ops a b = dot R_ops b a.
Proof.
  revert b; induction a as [|x a IH]; intros [|y b]; rewrite ?dot_nil_l, ?dot_nil_r; try reflexivity.
  rewrite !dot_cons, IH. ring.
Qed.
Lemma gdot_vscale_r (k : R) (a b : Rv) : dot R_ops a (vscale R_ops k b) = k * dot R_ops a b.
Proof. rewrite gdot_comm, dot_vscale_l, gdot_comm. reflexivity. Qed.
Lemma gdot_vadd_l (a b c : Rv) : length a = length b ->
  dot R_ops (vadd R_ops a b) c = dot R_ops a c + dot R_ops b c.
Proof.
  revert b c; induction a as [|x a IH]; intros [|y b] c H; try discriminate H.
  - change (vadd R_ops [] []) with (@nil R). rewrite !dot_nil_l. ring.
  - destruct c as [|z c]; [rewrite !dot_nil_r; ring|].
    rewrite gvadd_cons, !dot_cons, IH by (simpl in H; lia). ring.
Qed.
Lemma gdot_vadd_r (a b c : Rv) : length a = length b ->
  dot R_ops c (vadd R_ops a b) = dot R_ops c a + dot R_ops c b.
Proof. intros H. rewrite gdot_comm, gdot_vadd_l, (gdot_comm a), (gdot_comm b); auto. Qed.
Lemma gdot_vdivs_r (a b : Rv) (r : R) : dot R_ops a (vdivs R_ops b r) = dot R_ops a b / r.
Proof. rewrite vdivs_as_vscale, gdot_vscale_r. unfold Rdiv. ring. Qed.

Lemma gsqnorm_vadd (a b : Rv) : length a = length b ->
  sqnorm R_ops (vadd R_ops a b) = sqnorm R_ops a + 2 * dot R_ops a b + sqnorm R_ops b.
Proof.
  intros H. unfold sqnorm. rewrite gdot_vadd_l, !gdot_vadd_r by assumption.
  rewrite (gdot_comm b a). ring.
Qed.
Lemma gsqnorm_vdivs (x : Rv) (c : R) : c <> 0 -> sqnorm R_ops (vdivs R_ops x c) = sqnorm R_ops x / (c * c).
Proof.
  intros Hc. unfold sqnorm. rewrite vdivs_as_vscale, dot_vscale_l, gdot_vscale_r. field. exact Hc.
Qed.

Lemma gsqrt_arg_pos (a : R) : 0 < sqrt a -> 0 < a.
Proof.
  intros H. destruct (Rlt_le_dec 0 a) as [Ha|Ha]; [exact Ha|].
  rewrite (sqrt_neg_0 a Ha) in H. lra.
Qed.
Lemma gsqrt_sqnorm_sq (x : Rv) : sqrt (sqnorm R_ops x) * sqrt (sqnorm R_ops x) = sqnorm R_ops x.
Proof. apply sqrt_sqrt. apply sqnorm_nonneg. Qed.
Lemma gsqnorm_unit (x : Rv) : 0 < sqrt (sqnorm R_ops x) ->
  sqnorm R_ops (vdivs R_ops x (sqrt (sqnorm R_ops x))) = 1.
Proof.
  intros H. rewrite gsqnorm_vdivs by lra. rewrite gsqrt_sqnorm_sq.
  apply gsqrt_arg_pos in H. field. lra.
Qed.

Lemma gfmax_inactive (a b : R) : b <= a -> fmax R_ops a b = a.
Proof.
  intros H. unfold fmax. cbn. unfold Rleb. destruct (Rle_dec a b) as [Hab|Hab]; [lra|reflexivity].
Qed.
Lemma gsafe_div_inactive (num den eps : R) : eps <= den -> k_safe_div R_ops num den eps = num / den.
Proof. intros H. unfold k_safe_div. rewrite gfmax_inactive by exact H. reflexivity. Qed.

(* the differentiated map with its two inner products abstracted: pointwise in the coordinates *)
Definition rl (lam c1 c2 : R) (e w qh : Rv) : Rv :=
  vscale R_ops lam (vadd R_ops (vsub R_ops e (vscale R_ops c1 w)) (vscale R_ops c2 qh)).
Lemma rl_cons lam c1 c2 a b c (e w qh : Rv) :
  rl lam c1 c2 (a :: e) (b :: w) (c :: qh) = (lam * (a - c1 * b + c2 * c)) :: rl lam c1 c2 e w qh.
Proof. reflexivity. Qed.
Lemma rot_apply_rl (u qh w : Rv) (lam : R) (e : Rv) :
  rot_apply R_ops u qh w lam e = rl lam (2 * dot R_ops e w) (2 * dot R_ops e u) e w qh.
Proof. reflexivity. Qed.

Lemma rl_linear (lam a c1 c2 c1' c2' : R) (e1 e2 w qh : Rv) :
  length w = length e1 -> length qh = length e1 -> length e2 = length e1 ->
  rl lam (a * c1 + c1') (a * c2 + c2') (vadd R_ops (vscale R_ops a e1) e2) w qh =
  vadd R_ops (vscale R_ops a (rl lam c1 c2 e1 w qh)) (rl lam c1' c2' e2 w qh).
Proof.
  revert e2 w qh; induction e1 as [|x e1 IH]; intros [|y e2] [|z w] [|t qh] Hw Hq He; try discriminate; try reflexivity.
  rewrite gvscale_cons, gvadd_cons, !rl_cons, gvscale_cons, gvadd_cons.
  rewrite IH by (simpl in *; lia). f_equal. ring.
Qed.
Lemma rl_scale (lam a c1 c2 : R) (e w qh : Rv) :
  rl lam (a * c1) (a * c2) (vscale R_ops a e) w qh = vscale R_ops a (rl lam c1 c2 e w qh).
Proof.
  revert w qh; induction e as [|x e IH]; intros [|z w] [|t qh]; try reflexivity.
  rewrite gvscale_cons, !rl_cons, gvscale_cons, IH. f_equal. ring.
Qed.
Lemma rl_lam (lam c1 c2 : R) (e w qh : Rv) : rl lam c1 c2 e w qh = vscale R_ops lam (rl 1 c1 c2 e w qh).
Proof. unfold rl. rewrite vscale_one. reflexivity. Qed.

Lemma rot_apply_scale (u qh w : Rv) (lam a : R) (e : Rv) :
  rot_apply R_ops u qh w lam (vscale R_ops a e) = vscale R_ops a (rot_apply R_ops u qh w lam e).
Proof.
  rewrite !rot_apply_rl, !dot_vscale_l, <- rl_scale. f_equal; ring.
Qed.
Lemma rot_apply_lam (u qh w : Rv) (lam : R) (e : Rv) :
  rot_apply R_ops u qh w lam e = vscale R_ops lam (rot_apply R_ops u qh w 1 e).
Proof. rewrite !rot_apply_rl. apply rl_lam. Qed.

Lemma reflect_sum (u qh : Rv) : length u = length qh ->
  vadd R_ops (vsub R_ops u (vadd R_ops u qh)) (vscale R_ops 2 qh) = qh.
Proof.
  revert qh; induction u as [|a u IH]; intros [|b qh] H; try discriminate H; try reflexivity.
  rewrite gvadd_cons, vsub_cons, gvscale_cons, gvadd_cons, IH by (simpl in H; lia). f_equal. ring.
Qed.

(* ---------- straight-through: forward value is the code, derivative w.r.t. the input is the identity *)
Theorem ste_value_is_code (x q : Rv) : length x = length q -> ste_value R_ops x q = q.
Proof.
  unfold ste_value. revert q; induction x as [|a x IH]; intros [|b q] H; try discriminate H; try reflexivity.
  rewrite vsub_cons, gvadd_cons, IH by (simpl in H; lia). f_equal. ring.
Qed.
Theorem ste_jacobian_is_identity (dx : Rv) : ste_tangent dx = dx.
Proof. reflexivity. Qed.

(* ---------- rotation trick *)
(* the differentiated map is linear in e once the detached parts are constants *)
Theorem rot_apply_linear (u qh w : Rv) (lam a : R) (e1 e2 : Rv) (d : nat) :
  length u = d -> length qh = d -> length w = d -> length e1 = d -> length e2 = d ->
  rot_apply R_ops u qh w lam (vadd R_ops (vscale R_ops a e1) e2) =
  vadd R_ops (vscale R_ops a (rot_apply R_ops u qh w lam e1)) (rot_apply R_ops u qh w lam e2).
Proof.
  intros Hu Hq Hw H1 H2. rewrite !rot_apply_rl.
  rewrite <- rl_linear by congruence.
  assert (Hl : length (vscale R_ops a e1) = length e2) by (rewrite vscale_length; congruence).
  rewrite !gdot_vadd_l, !dot_vscale_l by exact Hl.
  f_equal; ring.
Qed.
(* unit vectors u, qh with u + qh <> 0, w = (u + qh) / |u + qh| : the linear part carries the input direction onto the code direction *)
Theorem rotation_maps_input_direction_to_code_direction (u qh : Rv) (d : nat) :
  length u = d -> length qh = d -> sqnorm R_ops u = 1 -> sqnorm R_ops qh = 1 -> 0 < sqnorm R_ops (vadd R_ops u qh) ->
  let w := vdivs R_ops (vadd R_ops u qh) (sqrt (sqnorm R_ops (vadd R_ops u qh))) in
  rot_apply R_ops u qh w 1 u = qh.
Proof.
  intros Hu Hq Nu Nq Hpos w. subst w.
  assert (Hlen : length u = length qh) by congruence.
  rewrite rot_apply_rl. unfold rl.
  set (s := vadd R_ops u qh) in *. set (r := sqrt (sqnorm R_ops s)).
  assert (Hr : r * r = sqnorm R_ops s) by apply gsqrt_sqnorm_sq.
  assert (Hr0 : 0 < r) by (apply sqrt_lt_R0; exact Hpos).
  assert (Hn2 : sqnorm R_ops s = 2 + 2 * dot R_ops u qh).
  { unfold s. rewrite gsqnorm_vadd by exact Hlen. lra. }
  assert (Hus : dot R_ops u s = 1 + dot R_ops u qh).
  { unfold s. rewrite gdot_vadd_r by exact Hlen. fold (sqnorm R_ops u). lra. }
  fold (sqnorm R_ops u). rewrite Nu, gdot_vdivs_r, Hus.
  rewrite (vdivs_as_vscale s r), gvscale_vscale.
  rewrite (gvscale_eq_one _ s).
  - rewrite vscale_one. replace (2 * 1) with 2 by ring. unfold s. apply reflect_sum. exact Hlen.
  - rewrite Hn2 in Hr. rewrite Hn2 in Hpos.
    assert (Hrr : r * r <> 0) by nra.
    apply Rmult_eq_reg_r with (r * r); [|exact Hrr].
    transitivity (2 + 2 * dot R_ops u qh); [field; lra|lra].
Qed.

Lemma rot_parts_nondegenerate (eps : R) (x q : Rv) :
  eps <= sqrt (sqnorm R_ops x) -> eps <= sqrt (sqnorm R_ops q) ->
  let u := vdivs R_ops x (sqrt (sqnorm R_ops x)) in let qh := vdivs R_ops q (sqrt (sqnorm R_ops q)) in
  eps <= sqrt (sqnorm R_ops (vadd R_ops u qh)) ->
  rot_parts R_ops sqrt eps x q =
  (u, qh, vdivs R_ops (vadd R_ops u qh) (sqrt (sqnorm R_ops (vadd R_ops u qh))),
   sqrt (sqnorm R_ops q) / sqrt (sqnorm R_ops x)).
Proof.
  intros Hx Hq u qh Hs. unfold rot_parts, vnorm.
  assert (Eu : map (fun a => k_safe_div R_ops a (sqrt (sqnorm R_ops x)) eps) x = u).
  { unfold u, vdivs. apply map_ext. intros a. apply gsafe_div_inactive. exact Hx. }
  assert (Eq : map (fun a => k_safe_div R_ops a (sqrt (sqnorm R_ops q)) eps) q = qh).
  { unfold qh, vdivs. apply map_ext. intros a. apply gsafe_div_inactive. exact Hq. }
  rewrite Eu, Eq. rewrite (gfmax_inactive _ eps Hs). rewrite (gsafe_div_inactive _ _ eps Hx).
  reflexivity.
Qed.

(* forward value of the rotation trick is the code itself (non-degenerate case: norms above the clamp) *)
Theorem rotation_value_is_code (eps : R) (x q : Rv) (d : nat) :
  length x = d -> length q = d -> 0 < eps -> eps <= sqrt (sqnorm R_ops x) -> eps <= sqrt (sqnorm R_ops q) ->
  let u := vdivs R_ops x (sqrt (sqnorm R_ops x)) in let qh := vdivs R_ops q (sqrt (sqnorm R_ops q)) in
  eps <= sqrt (sqnorm R_ops (vadd R_ops u qh)) ->
  rotate_value R_ops sqrt eps x q = q.
Proof.
  intros Hlx Hlq He Hx Hq u qh Hs. unfold rotate_value.
  rewrite (rot_parts_nondegenerate eps x q Hx Hq Hs). fold u qh.
  set (nx := sqrt (sqnorm R_ops x)) in *. set (nq := sqrt (sqnorm R_ops q)) in *.
  set (w := vdivs R_ops (vadd R_ops u qh) (sqrt (sqnorm R_ops (vadd R_ops u qh)))).
  assert (Hnx : 0 < nx) by lra. assert (Hnq : 0 < nq) by lra.
  assert (Ex : x = vscale R_ops nx u) by (unfold u; rewrite vscale_vdivs; [reflexivity|lra]).
  assert (Eq : vscale R_ops nq qh = q) by (unfold qh; rewrite vscale_vdivs; [reflexivity|lra]).
  rewrite Ex at 1. rewrite rot_apply_scale, rot_apply_lam.
  assert (Hrot : rot_apply R_ops u qh w 1 u = qh).
  { apply (rotation_maps_input_direction_to_code_direction u qh d).
    - unfold u. rewrite vdivs_length. exact Hlx.
    - unfold qh. rewrite vdivs_length. exact Hlq.
    - apply gsqnorm_unit. exact Hnx.
    - apply gsqnorm_unit. exact Hnq.
    - apply gsqrt_arg_pos. lra. }
  rewrite Hrot, gvscale_vscale. transitivity (vscale R_ops nq qh); [f_equal; field; lra | exact Eq].
Qed.
(* derivative = norm ratio times the same linear map applied to dx *)
Theorem rotation_tangent_formula (eps : R) (x q dx : Rv) :
  rotate_tangent R_ops sqrt eps x q dx =
  (let '(u, qh, w, lam) := rot_parts R_ops sqrt eps x q in rot_apply R_ops u qh w lam dx).
Proof. reflexivity. Qed.

(* ---------- which estimator is applied *)
Theorem eval_output_has_no_input_gradient (eps v : R) (rg rot : bool) (x q dx : Rv) :
  vq_out_tangent R_ops sqrt eps false rg rot v x q dx = map (fun _ => 0) dx.
Proof. unfold vq_out_tangent, g_vq_rotate. destruct rg, rot; reflexivity. Qed.
Theorem training_ste_identity (eps : R) (x q dx : Rv) :
  vq_out_tangent R_ops sqrt eps true true false 0 x q dx = dx.
Proof.
  unfold vq_out_tangent, g_vq_rotate, ste_tangent. cbn [andb add one R_ops].
  apply gvscale_eq_one. lra.
Qed.
Theorem sync_update_scales_gradient (eps v : R) (x q dx : Rv) :
  vq_out_tangent R_ops sqrt eps true true false v x q dx = vscale R_ops (1 + v) dx.
Proof. unfold vq_out_tangent, g_vq_rotate, ste_tangent. reflexivity. Qed.

(* ---------- commitment loss: pulls only the input towards the gradient-stopped code *)
Lemma sqdist_poly (q x dx : Rv) (t : R) : length x = length q -> length dx = length q ->
  sqdist R_ops q (vadd R_ops x (vscale R_ops t dx)) =
  sqdist R_ops q x + 2 * dot R_ops (vsub R_ops x q) dx * t + sqnorm R_ops dx * t * t.
Proof.
  unfold sqdist.
  revert x dx; induction q as [|a q IH]; intros [|b x] [|c dx] Hx Hd; try discriminate.
  - cbn. ring.
  - rewrite gvscale_cons, gvadd_cons, !vsub_cons, !sqnorm_cons, dot_cons.
    rewrite IH by (simpl in *; lia). ring.
Qed.

(* d/dx [ weight * mean (q - x)^2 ] in direction dx  =  <commit_grad_x, dx> *)
Theorem commit_loss_gradient_wrt_input (weight : R) (x q dx : Rv) (t : R) (d : nat) :
  length x = d -> length q = d -> length dx = d -> (0 < d)%nat ->
  is_derive (fun t => weight * mse R_ops q (vadd R_ops x (vscale R_ops t dx))) 0 (dot R_ops (commit_grad_x R_ops weight x q) dx).
Proof.
  intros Hx Hq Hdx Hd.
  unfold commit_grad_x, mse. rewrite dot_vscale_l. rewrite Hx, Hq.
  change (two R_ops) with 2. cbn [div mul R_ops].
  set (N := ofnat R_ops d).
  assert (HN : N <> 0).
  { unfold N, ofnat. cbn. apply not_0_IZR. lia. }
  set (D := dot R_ops (vsub R_ops x q) dx).
  apply is_derive_ext with
    (fun t0 : R => weight * ((sqdist R_ops q x + 2 * D * t0 + sqnorm R_ops dx * t0 * t0) / N)).
  - intros t0. rewrite sqdist_poly by congruence. reflexivity.
  - generalize (sqdist R_ops q x) (sqnorm R_ops dx) D. intros A C B.
    auto_derive; [exact I|]. field. exact HN.
Qed.
Theorem ema_or_frozen_codebook_gets_no_commit_gradient (weight : R) (learnable freeze : bool) (x q : Rv) :
  learnable = false \/ freeze = true -> commit_grad_q R_ops weight learnable freeze x q = map (fun _ => 0) q.
Proof.
  unfold commit_grad_q, g_vq_maybe_detach. intros [-> | ->]; destruct freeze || destruct learnable; reflexivity.
Qed.
Theorem learnable_codebook_commit_gradient (weight : R) (x q : Rv) :
  commit_grad_q R_ops weight true false x q = vscale R_ops (weight * 2 / INR (length x)) (vsub R_ops q x).
Proof.
  unfold commit_grad_q, g_vq_maybe_detach. cbn [negb orb].
  unfold ofnat. cbn [div mul ofZ R_ops]. change (two R_ops) with 2. rewrite <- INR_IZR_INZ. reflexivity.
Qed.

(* ---------- FSQ: derivative of round_ste(bound(z)) / (L // 2) is the derivative of the bounding function *)
Theorem fsq_gradient (eps : R) (L : Z) (z : R) : (2 <= L)%Z -> 0 < eps ->
  is_derive (fun z => fsq_bound eps L z / IZR (L / 2)) z
            (fsq_half_l eps L * (1 - th (z + fsq_shift eps L) ^ 2) / IZR (L / 2)).
Proof.
  intros HL He.
  assert (Hc : IZR (L / 2) <> 0).
  { apply not_0_IZR. pose proof (half_ge_1 L HL). lia. }
  apply is_derive_ext with
    (fun z0 : R => (th (z0 + fsq_shift eps L) * fsq_half_l eps L - fsq_offset L) / IZR (L / 2)).
  - intros z0. rewrite fsq_bound_formula. reflexivity.
  - generalize (fsq_shift eps L) (fsq_half_l eps L) (fsq_offset L) (IZR (L / 2)) Hc.
    intros s h off c Hc'. unfold th.
    assert (Hexp : exp (2 * (z + s)) + 1 <> 0) by (pose proof (exp_pos (2 * (z + s))); lra).
    auto_derive.
    + repeat split; assumption.
    + field. split; assumption.
Qed.

(* ---------- gradients never flow between positions: the output at a position is a function of that position's input only *)
Theorem no_cross_position {A B} (f : A -> B) (xs : list A) (p : nat) (a0 : A) (b0 : B) : (p < length xs)%nat ->
  nth p (map f xs) b0 = f (nth p xs a0).
Proof.
  intros H. rewrite (nth_indep (map f xs) b0 (f a0)) by (rewrite map_length; exact H). apply map_nth.
Qed.
Theorem no_cross_position_update {A B} (f : A -> B) (xs : list A) (p p' : nat) (x' a0 : A) (b0 : B) :
  p <> p' -> (p < length xs)%nat ->
  nth p (map f (firstn p' xs ++ x' :: skipn (S p') xs)) b0 = nth p (map f xs) b0.
Proof.
  revert p p'; induction xs as [|a xs IH]; intros p p' Hne Hlt; [simpl in Hlt; lia|].
  destruct p' as [|p'].
  - destruct p as [|p]; [congruence|]. reflexivity.
  - destruct p as [|p]; [reflexivity|].
    change (firstn (S p') (a :: xs)) with (a :: firstn p' xs).
    change (skipn (S (S p')) (a :: xs)) with (skipn (S p') xs).
    simpl. apply IH; [congruence|simpl in Hlt; lia].
Qed.

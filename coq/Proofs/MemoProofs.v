From Coq Require Import List Bool.
From VQ Require Import Model.Memo.
Import ListNotations.

Section P.
Variables (P C : Type) (f : P -> C).

(* without memoisation: in EVERY history of calls, writes and freezes, each call uses the codebook derived from the parameters in force *)
Theorem plain_calls_use_current (h : list (mop P)) (s : mstate P C) :
  Forall (fun pc => snd pc = f (fst pc)) (run P C (step_plain P C f) s h).
Proof.
  revert s. induction h as [|o r IH]; intros s; cbn [run]; [constructor|].
  destruct o as [|p|b]; cbn [step_plain].
  - constructor; [reflexivity | apply IH].
  - apply IH.
  - apply IH.
Qed.

(* with memoisation: freeze, call, write, call - the second call still uses the codebook of the overwritten parameters *)
Theorem memo_refuted (p p' : P) : f p <> f p' ->
  exists (h : list (mop P)) (s : mstate P C),
    ~ Forall (fun pc => snd pc = f (fst pc)) (run P C (step_memo P C f) s h).
Proof.
  intros Hne. exists [MFreeze P true; MCall P; MWrite P p'; MCall P], (mkm P C p false None).
  cbn. intros H. inversion H as [|x l _ H2]; subst. inversion H2 as [|y l2 Hy _]; subst. cbn in Hy. exact (Hne Hy).
Qed.
End P.

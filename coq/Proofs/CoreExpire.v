(* C11: dead-code expiry of the codebook model.  Over the reals; every codebook size, threshold (incl. fractional),
   reset value and pick list. *)
From Coq Require Import ZArith List Bool Reals Lra Lia.
From VQ Require Import Num Model.Vec Model.Core.
From VQ.Gen Require Import k_expire_cmp g_euclid_replace g_cosine_replace g_euclid_expire g_cosine_expire.
Import ListNotations.
Open Scope R_scope.

Notation Rv := (list R).

Lemma expire_cmp_spec (c thr : R) : k_expire_cmp R_ops c thr = true <-> c < thr.
Proof.
  unfold k_expire_cmp. cbn [ltb R_ops]. apply Rltb_true.
Qed.

(* number of expired codes strictly before position j *)
Definition dead_before (thr : R) (cs : list R) (j : nat) : nat :=
  length (filter (fun c => k_expire_cmp R_ops c thr) (firstn j cs)).
Definition dead_total (thr : R) (cs : list R) : nat := length (filter (fun c => k_expire_cmp R_ops c thr) cs).

Definition rowsE (r : list Rv * list Rv * list R) := fst (fst r).
Definition rowsA (r : list Rv * list Rv * list R) := snd (fst r).
Definition rowsC (r : list Rv * list Rv * list R) := snd r.

Lemma expire_cmp_false (c thr : R) : k_expire_cmp R_ops c thr = false <-> ~ (c < thr).
Proof.
  split.
  - intros Hc Hlt. apply expire_cmp_spec in Hlt. rewrite Hlt in Hc. discriminate.
  - intros Hn. destruct (k_expire_cmp R_ops c thr) eqn:Hc; [ | reflexivity ].
    apply expire_cmp_spec in Hc. contradiction.
Qed.

(* one-step unfoldings of [expire_rows], stated on the three projections *)
Lemma er_live thr reset picks e es a eas c cs :
  k_expire_cmp R_ops c thr = false ->
  rowsE (expire_rows R_ops thr reset picks (e :: es) (a :: eas) (c :: cs)) =
    e :: rowsE (expire_rows R_ops thr reset picks es eas cs) /\
  rowsA (expire_rows R_ops thr reset picks (e :: es) (a :: eas) (c :: cs)) =
    a :: rowsA (expire_rows R_ops thr reset picks es eas cs) /\
  rowsC (expire_rows R_ops thr reset picks (e :: es) (a :: eas) (c :: cs)) =
    c :: rowsC (expire_rows R_ops thr reset picks es eas cs).
Proof.
  intros Hc. cbn [expire_rows]. rewrite Hc.
  destruct (expire_rows R_ops thr reset picks es eas cs) as [[E A] C].
  repeat split.
Qed.

Lemma er_dead_pick thr reset p picks e es a eas c cs :
  k_expire_cmp R_ops c thr = true ->
  rowsE (expire_rows R_ops thr reset (p :: picks) (e :: es) (a :: eas) (c :: cs)) =
    p :: rowsE (expire_rows R_ops thr reset picks es eas cs) /\
  rowsA (expire_rows R_ops thr reset (p :: picks) (e :: es) (a :: eas) (c :: cs)) =
    vscale R_ops reset p :: rowsA (expire_rows R_ops thr reset picks es eas cs) /\
  rowsC (expire_rows R_ops thr reset (p :: picks) (e :: es) (a :: eas) (c :: cs)) =
    reset :: rowsC (expire_rows R_ops thr reset picks es eas cs).
Proof.
  intros Hc. cbn [expire_rows]. rewrite Hc.
  destruct (expire_rows R_ops thr reset picks es eas cs) as [[E A] C].
  repeat split.
Qed.

Lemma er_dead_nopick thr reset e es a eas c cs :
  k_expire_cmp R_ops c thr = true ->
  rowsE (expire_rows R_ops thr reset [] (e :: es) (a :: eas) (c :: cs)) =
    e :: rowsE (expire_rows R_ops thr reset [] es eas cs) /\
  rowsA (expire_rows R_ops thr reset [] (e :: es) (a :: eas) (c :: cs)) =
    a :: rowsA (expire_rows R_ops thr reset [] es eas cs) /\
  rowsC (expire_rows R_ops thr reset [] (e :: es) (a :: eas) (c :: cs)) =
    c :: rowsC (expire_rows R_ops thr reset [] es eas cs).
Proof.
  intros Hc. cbn [expire_rows]. rewrite Hc.
  destruct (expire_rows R_ops thr reset [] es eas cs) as [[E A] C].
  repeat split.
Qed.

Lemma dead_total_cons thr c cs :
  dead_total thr (c :: cs) = if k_expire_cmp R_ops c thr then S (dead_total thr cs) else dead_total thr cs.
Proof.
  unfold dead_total. cbn [filter]. destruct (k_expire_cmp R_ops c thr); reflexivity.
Qed.

Lemma dead_before_0 thr cs : dead_before thr cs 0 = 0%nat.
Proof. reflexivity. Qed.

Lemma dead_before_S thr c cs j :
  dead_before thr (c :: cs) (S j) =
  if k_expire_cmp R_ops c thr then S (dead_before thr cs j) else dead_before thr cs j.
Proof.
  unfold dead_before. cbn [firstn filter]. destruct (k_expire_cmp R_ops c thr); reflexivity.
Qed.

Lemma expire_rows_lengths thr reset picks es eas cs :
  length es = length cs -> length eas = length cs ->
  length (rowsE (expire_rows R_ops thr reset picks es eas cs)) = length cs /\
  length (rowsA (expire_rows R_ops thr reset picks es eas cs)) = length cs /\
  length (rowsC (expire_rows R_ops thr reset picks es eas cs)) = length cs.
Proof.
  revert picks es eas.
  induction cs as [ | c cs IH]; intros picks es eas Hes Heas.
  - destruct es as [ | e es]; [ | discriminate Hes ].
    cbn. repeat split.
  - destruct es as [ | e es]; [ discriminate Hes | ].
    destruct eas as [ | a eas]; [ discriminate Heas | ].
    cbn [length] in Hes, Heas.
    injection Hes as Hes. injection Heas as Heas.
    destruct (k_expire_cmp R_ops c thr) eqn:Hc.
    + destruct picks as [ | p picks].
      * destruct (er_dead_nopick thr reset e es a eas c cs Hc) as (HE & HA & HC).
        unfold vec in *.
        rewrite HE, HA, HC. cbn [length].
        destruct (IH [] es eas Hes Heas) as (IE & IA & IC).
        rewrite IE, IA, IC. repeat split.
      * destruct (er_dead_pick thr reset p picks e es a eas c cs Hc) as (HE & HA & HC).
        unfold vec in *.
        rewrite HE, HA, HC. cbn [length].
        destruct (IH picks es eas Hes Heas) as (IE & IA & IC).
        rewrite IE, IA, IC. repeat split.
    + destruct (er_live thr reset picks e es a eas c cs Hc) as (HE & HA & HC).
      unfold vec in *.
      rewrite HE, HA, HC. cbn [length].
      destruct (IH picks es eas Hes Heas) as (IE & IA & IC).
      rewrite IE, IA, IC. repeat split.
Qed.

(* codes at or above the threshold are not modified *)
Theorem expire_live_untouched thr reset picks es eas cs j :
  length es = length cs -> length eas = length cs -> (j < length cs)%nat ->
  ~ (nth j cs 0 < thr) ->
  nth j (rowsE (expire_rows R_ops thr reset picks es eas cs)) [] = nth j es [] /\
  nth j (rowsA (expire_rows R_ops thr reset picks es eas cs)) [] = nth j eas [] /\
  nth j (rowsC (expire_rows R_ops thr reset picks es eas cs)) 0 = nth j cs 0.
Proof.
  revert picks es eas j.
  induction cs as [ | c cs IH]; intros picks es eas j Hes Heas Hj Hlive.
  - cbn [length] in Hj. lia.
  - destruct es as [ | e es]; [ discriminate Hes | ].
    destruct eas as [ | a eas]; [ discriminate Heas | ].
    cbn [length] in Hes, Heas, Hj.
    injection Hes as Hes. injection Heas as Heas.
    destruct (k_expire_cmp R_ops c thr) eqn:Hc.
    + destruct j as [ | j].
      * cbn [nth] in Hlive. apply expire_cmp_spec in Hc. contradiction.
      * cbn [nth] in Hlive. assert (Hj' : (j < length cs)%nat) by lia.
        destruct picks as [ | p picks].
        -- destruct (er_dead_nopick thr reset e es a eas c cs Hc) as (HE & HA & HC).
           unfold vec in *.
           rewrite HE, HA, HC. cbn [nth].
           exact (IH [] es eas j Hes Heas Hj' Hlive).
        -- destruct (er_dead_pick thr reset p picks e es a eas c cs Hc) as (HE & HA & HC).
           unfold vec in *.
           rewrite HE, HA, HC. cbn [nth].
           exact (IH picks es eas j Hes Heas Hj' Hlive).
    + destruct (er_live thr reset picks e es a eas c cs Hc) as (HE & HA & HC).
      unfold vec in *.
      rewrite HE, HA, HC.
      destruct j as [ | j].
      * cbn [nth]. repeat split.
      * cbn [nth] in Hlive |- *. assert (Hj' : (j < length cs)%nat) by lia.
        exact (IH picks es eas j Hes Heas Hj' Hlive).
Qed.

(* a code below the threshold takes the next sampled vector, its count is reset and its running sum made consistent *)
Theorem expire_dead_revived thr reset picks es eas cs j :
  length es = length cs -> length eas = length cs -> (j < length cs)%nat ->
  (dead_total thr cs <= length picks)%nat ->
  nth j cs 0 < thr ->
  let p := nth (dead_before thr cs j) picks [] in
  (dead_before thr cs j < length picks)%nat /\
  nth j (rowsE (expire_rows R_ops thr reset picks es eas cs)) [] = p /\
  nth j (rowsC (expire_rows R_ops thr reset picks es eas cs)) 0 = reset /\
  nth j (rowsA (expire_rows R_ops thr reset picks es eas cs)) [] = vscale R_ops reset p.
Proof.
  revert picks es eas j.
  induction cs as [ | c cs IH]; intros picks es eas j Hes Heas Hj Hpicks Hdead; cbv zeta.
  - cbn [length] in Hj. lia.
  - destruct es as [ | e es]; [ discriminate Hes | ].
    destruct eas as [ | a eas]; [ discriminate Heas | ].
    cbn [length] in Hes, Heas, Hj.
    injection Hes as Hes. injection Heas as Heas.
    rewrite dead_total_cons in Hpicks.
    destruct (k_expire_cmp R_ops c thr) eqn:Hc.
    + destruct picks as [ | p picks]; [ cbn [length] in Hpicks; lia | ].
      cbn [length] in Hpicks.
      assert (Hpicks' : (dead_total thr cs <= length picks)%nat) by lia.
      destruct (er_dead_pick thr reset p picks e es a eas c cs Hc) as (HE & HA & HC).
      unfold vec in *.
      rewrite HE, HA, HC.
      destruct j as [ | j].
      * rewrite dead_before_0. cbn [nth length]. repeat split. lia.
      * cbn [nth] in Hdead. assert (Hj' : (j < length cs)%nat) by lia.
        rewrite dead_before_S, Hc. cbn [nth length].
        pose proof (IH picks es eas j Hes Heas Hj' Hpicks' Hdead) as IHj. cbv zeta in IHj.
        destruct IHj as (Ilt & IE & IC & IA).
        repeat split; try assumption. lia.
    + destruct j as [ | j].
      * cbn [nth] in Hdead. apply expire_cmp_false in Hc. contradiction.
      * cbn [nth] in Hdead. assert (Hj' : (j < length cs)%nat) by lia.
        destruct (er_live thr reset picks e es a eas c cs Hc) as (HE & HA & HC).
        unfold vec in *.
        rewrite HE, HA, HC.
        rewrite dead_before_S, Hc. cbn [nth].
        pose proof (IH picks es eas j Hes Heas Hj' Hpicks Hdead) as IHj. cbv zeta in IHj.
        exact IHj.
Qed.

(* hence: if every pick is a vector of the pool, every revived code is a vector of the pool *)
Theorem expire_dead_from_pool thr reset picks es eas cs j (pool : list Rv) :
  length es = length cs -> length eas = length cs -> (j < length cs)%nat ->
  (dead_total thr cs <= length picks)%nat -> Forall (fun p => In p pool) picks ->
  nth j cs 0 < thr -> In (nth j (rowsE (expire_rows R_ops thr reset picks es eas cs)) []) pool.
Proof.
  intros Hes Heas Hj Hpicks Hpool Hdead.
  pose proof (expire_dead_revived thr reset picks es eas cs j Hes Heas Hj Hpicks Hdead) as Hrev.
  cbv zeta in Hrev. destruct Hrev as (Hlt & HE & _ & _).
  rewrite HE.
  rewrite Forall_forall in Hpool. apply Hpool. apply nth_In. exact Hlt.
Qed.

(* after expiry no code is below the threshold when the reset value is at least the threshold *)
Theorem expire_no_reexpire thr reset picks es eas cs :
  length es = length cs -> length eas = length cs -> (dead_total thr cs <= length picks)%nat -> thr <= reset ->
  any_expired R_ops thr (rowsC (expire_rows R_ops thr reset picks es eas cs)) = false.
Proof.
  revert picks es eas.
  induction cs as [ | c cs IH]; intros picks es eas Hes Heas Hpicks Hreset.
  - destruct es as [ | e es]; [ | discriminate Hes ]. reflexivity.
  - destruct es as [ | e es]; [ discriminate Hes | ].
    destruct eas as [ | a eas]; [ discriminate Heas | ].
    cbn [length] in Hes, Heas.
    injection Hes as Hes. injection Heas as Heas.
    rewrite dead_total_cons in Hpicks.
    destruct (k_expire_cmp R_ops c thr) eqn:Hc.
    + destruct picks as [ | p picks]; [ cbn [length] in Hpicks; lia | ].
      cbn [length] in Hpicks.
      assert (Hpicks' : (dead_total thr cs <= length picks)%nat) by lia.
      destruct (er_dead_pick thr reset p picks e es a eas c cs Hc) as (_ & _ & HC).
      unfold vec in *.
      rewrite HC. unfold any_expired in *. cbn [existsb].
      assert (Hr : k_expire_cmp R_ops reset thr = false) by (apply expire_cmp_false; lra).
      rewrite Hr. cbn [orb].
      exact (IH picks es eas Hes Heas Hpicks' Hreset).
    + destruct (er_live thr reset picks e es a eas c cs Hc) as (_ & _ & HC).
      unfold vec in *.
      rewrite HC. unfold any_expired in *. cbn [existsb].
      rewrite Hc. cbn [orb].
      exact (IH picks es eas Hes Heas Hpicks Hreset).
Qed.

(* threshold 0: nothing is ever replaced; nothing expired: nothing is replaced *)
(* the replace guard needs a non-zero threshold and at least one expired code; proved by case analysis on the
   atoms, independent of how the generated definition is associated *)
Lemma replace_guard_off (cosine z anyx : bool) : z = true \/ anyx = false ->
  (if cosine then g_cosine_replace z anyx else g_euclid_replace z anyx) = false.
Proof.
  intros Hoff. unfold g_cosine_replace, g_euclid_replace.
  destruct cosine, z, anyx; simpl; try reflexivity; destruct Hoff as [Hoff | Hoff]; discriminate Hoff.
Qed.

Theorem expire_threshold_zero cosine reset picks (s : cstate R) : expire R_ops cosine 0 reset picks s = s.
Proof.
  unfold expire.
  rewrite replace_guard_off; [ reflexivity | ].
  left. cbn [eqb zero R_ops]. apply Reqb_true. reflexivity.
Qed.
Theorem expire_nothing_dead cosine thr reset picks (s : cstate R) :
  any_expired R_ops thr (cluster_size s) = false -> expire R_ops cosine thr reset picks s = s.
Proof.
  intros Hnone.
  unfold expire.
  rewrite replace_guard_off; [ reflexivity | ].
  right. exact Hnone.
Qed.
Theorem expire_keeps_initted cosine thr reset picks (s : cstate R) :
  initted (expire R_ops cosine thr reset picks s) = initted s.
Proof.
  unfold expire.
  destruct (if cosine
            then g_cosine_replace (eqb R_ops thr (zero R_ops)) (any_expired R_ops thr (cluster_size s))
            else g_euclid_replace (eqb R_ops thr (zero R_ops)) (any_expired R_ops thr (cluster_size s)));
    [ | reflexivity ].
  destruct (expire_rows R_ops thr reset picks (embed s) (embed_avg s) (cluster_size s)) as [[E A] C].
  reflexivity.
Qed.

(* the expiry call is reached only in an unfrozen training call with automatic EMA updates *)
Ltac unfold_core_guards :=
  unfold g_expire, g_ema, g_update, g_maskhot,
    g_euclid_expire, g_cosine_expire,
    g_euclid_ema.g_euclid_ema, g_cosine_ema.g_cosine_ema,
    g_euclid_update_ema.g_euclid_update_ema, g_cosine_update_ema.g_cosine_update_ema,
    g_euclid_mask_onehot.g_euclid_mask_onehot, g_cosine_mask_onehot.g_cosine_mask_onehot in *.

Theorem expire_guard (cfg : ccfg R) (training freeze : bool) :
  g_expire cfg training freeze = true -> training = true /\ freeze = false /\ c_ema_update cfg = true /\ c_manual cfg = false.
Proof.
  intros Hg.
  destruct cfg as [cos dec eps thr rst emau man iters sto l2eps].
  unfold_core_guards; cbn [c_cosine c_ema_update c_manual] in *.
  destruct cos, training, freeze, emau, man; simpl in *; try discriminate; auto.
Qed.

(* step order of the code: EMA -> normalise -> expire, the expiry reading the post-EMA counts *)
Lemma expire_guard_implies (cfg : ccfg R) (has_mask : bool) :
  g_expire cfg true false = true ->
  g_ema cfg true false = true /\ g_update cfg true false = true /\ g_maskhot cfg has_mask true false = has_mask.
Proof.
  intros Hg.
  destruct cfg as [cos dec eps thr rst emau man iters sto l2eps].
  unfold_core_guards; cbn [c_cosine c_ema_update c_manual] in *.
  destruct cos, emau, man, has_mask; simpl in *; try discriminate; auto.
Qed.

Theorem update_order (cfg : ccfg R) (has_mask : bool) (s1 : cstate R) (xs : list Rv) (valid : list bool) (idx : list nat) (picks : list Rv) :
  g_expire cfg true false = true ->
  cb_update R_ops sqrt cfg true false has_mask s1 xs valid idx picks =
  expire R_ops (c_cosine cfg) (c_thr cfg) (c_reset cfg) picks
    (normalise R_ops (c_eps cfg) (post_of R_ops sqrt cfg)
       (ema_accumulate R_ops (c_decay cfg) (dim_of xs) s1 xs
          (combine idx (if has_mask then valid else map (fun _ => true) xs)))).
Proof.
  intros Hg.
  destruct (expire_guard_implies cfg has_mask Hg) as (Hema & Hupd & Hmask).
  unfold cb_update.
  rewrite Hema, Hupd, Hmask, Hg.
  reflexivity.
Qed.

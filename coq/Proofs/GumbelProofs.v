(* C19: stochastic code sampling follows the softmax-temperature law.
   Proved: the deterministic fallback, the event characterisation of the Gumbel-max selection as an exponential race
   (pure exp / ln algebra, every codebook size), and the value of the race integral w_j / sum w.
   The probability space itself (independent uniforms, the conditioning formula) is definitional: see DESIGN. *)
From Coq Require Import ZArith Reals List Bool Lra Lia.
From Coquelicot Require Import Coquelicot.
From VQ Require Import Num Model.Vec Model.Gumbel Proofs.CoreNearest.
From VQ.Gen Require Import g_gumbel_noise.
Import ListNotations.
Open Scope R_scope.

(* ---------- deterministic fallback: temperature <= 0, evaluation mode, or no flag => plain argmax (nearest code, C01) *)
Theorem gumbel_fallback (eps : R) (stochastic temp_pos training : bool) (T : R) (ls us : list R) :
  stochastic = false \/ temp_pos = false \/ training = false ->
  gselect eps stochastic temp_pos training T ls us = argmax_first R_ops ls.
Proof.
  intros H. unfold gselect, g_gumbel_noise.
  destruct stochastic, temp_pos, training; simpl; try reflexivity;
    destruct H as [H|[H|H]]; discriminate.
Qed.
Theorem gumbel_active (eps : R) (T : R) (ls us : list R) :
  gselect eps true true true T ls us = argmax_first R_ops (sampling_logits eps T ls us).
Proof. unfold gselect, g_gumbel_noise. reflexivity. Qed.

(* ---------- the noise for u in (0,1), away from the clamps *)
Lemma gnoise_unclamped (eps u : R) : 0 < eps -> eps <= u -> u < 1 -> eps <= - ln u -> gnoise eps u = - ln (- ln u).
Proof.
  intros _ H1 _ H2. unfold gnoise, clog.
  rewrite (Rmax_left u eps H1). rewrite (Rmax_left (- ln u) eps H2). reflexivity.
Qed.

Lemma neg_ln_pos (u : R) : 0 < u < 1 -> 0 < - ln u.
Proof.
  intros [H0 H1]. pose proof (ln_increasing u 1 H0 H1) as H. rewrite ln_1 in H. lra.
Qed.
Lemma ln_le_iff (x y : R) : 0 < x -> 0 < y -> (ln x <= ln y <-> x <= y).
Proof.
  intros Hx Hy. split.
  - intros H. destruct (Rle_or_lt x y) as [Hle|Hlt]; [exact Hle|].
    pose proof (ln_increasing y x Hy Hlt). lra.
  - intros H. apply ln_le; assumption.
Qed.
Lemma map2_length {A B C : Type} (f : A -> B -> C) (a : list A) (b : list B) :
  length a = length b -> length (map2 f a b) = length a.
Proof.
  revert b. induction a as [|x a IH]; intros [|y b] H; simpl in *; try reflexivity; try discriminate.
  f_equal. apply IH. injection H as H. exact H.
Qed.
(* ---------- Gumbel-max is an exponential race: with E := -ln u (standard exponential when u is uniform) and
   w := exp(logit / T), code j beats code i iff E_j / w_j <= E_i / w_i *)
Theorem gumbel_max_is_exponential_race (T li lj ui uj : R) : 0 < T -> 0 < ui < 1 -> 0 < uj < 1 ->
  (li / T + - ln (- ln ui) <= lj / T + - ln (- ln uj)  <->  (- ln uj) / sweight T lj <= (- ln ui) / sweight T li).
Proof.
  intros HT Hui Huj. unfold sweight.
  pose proof (neg_ln_pos ui Hui) as HEi. pose proof (neg_ln_pos uj Huj) as HEj.
  pose proof (exp_pos (li / T)) as Hwi. pose proof (exp_pos (lj / T)) as Hwj.
  assert (Hqi : 0 < - ln ui / exp (li / T)) by (apply Rdiv_lt_0_compat; assumption).
  assert (Hqj : 0 < - ln uj / exp (lj / T)) by (apply Rdiv_lt_0_compat; assumption).
  rewrite <- (ln_le_iff _ _ Hqj Hqi).
  rewrite (ln_div _ _ HEj Hwj), (ln_div _ _ HEi Hwi), !ln_exp.
  split; intros H; lra.
Qed.
(* the selected index wins every pairwise race *)
Theorem selected_wins_all_races (eps T : R) (ls us : list R) (i : nat) : ls <> [] -> length us = length ls -> (i < length ls)%nat ->
  let j := gselect eps true true true T ls us in
  nth i (sampling_logits eps T ls us) 0 <= nth j (sampling_logits eps T ls us) 0.
Proof.
  intros Hne Hlen Hi j. subst j. rewrite gumbel_active.
  apply argmax_first_max. unfold sampling_logits.
  rewrite map2_length; [exact Hi | symmetry; exact Hlen].
Qed.

(* ---------- the race integral: P(j wins) = int_0^inf  w_j e^{-w_j t} * prod_{i<>j} e^{-w_i t} dt = w_j / sum w *)
(* product of the survival functions of all competitors times the density of j *)
Lemma race_integrand (ws : list R) (wj t : R) :
  wj * exp (- wj * t) * fold_right Rmult 1 (map (fun w => exp (- w * t)) ws) = wj * exp (- (wj + fold_right Rplus 0 ws) * t).
Proof.
  induction ws as [|a ws IH]; simpl.
  - rewrite Rplus_0_r. ring.
  - replace (- (wj + (a + fold_right Rplus 0 ws)) * t)
      with (- a * t + - (wj + fold_right Rplus 0 ws) * t) by ring.
    rewrite exp_plus.
    transitivity (exp (- a * t) * (wj * exp (- wj * t) * fold_right Rmult 1 (map (fun w => exp (- w * t)) ws))); [ring|].
    rewrite IH. ring.
Qed.
Theorem race_integral_finite (wj W a : R) : 0 < W -> 0 <= a ->
  is_RInt (fun t => wj * exp (- W * t)) 0 a (wj / W * (1 - exp (- W * a))).
Proof.
  intros HW Ha.
  evar_last.
  apply (is_RInt_derive (fun t => - (wj / W) * exp (- W * t)) (fun t => wj * exp (- W * t))).
  - intros x _. auto_derive; [exact I|]. field. lra.
  - intros x _. apply (ex_derive_continuous (fun t => wj * exp (- W * t))). auto_derive. exact I.
  - unfold Hierarchy.minus, Hierarchy.plus, Hierarchy.opp; simpl. rewrite Rmult_0_r, exp_0. field. lra.
Qed.
Theorem race_integral_limit (wj W : R) : 0 < W ->
  is_lim (fun a => wj / W * (1 - exp (- W * a))) p_infty (wj / W).
Proof.
  intros HW.
  assert (Hexp : is_lim (fun a => exp (- W * a)) p_infty 0).
  { apply is_lim_ext with (fun a => exp (- W * a + 0)).
    - intros y. f_equal. ring.
    - apply (is_lim_comp_lin (fun y => exp y) (- W) 0 p_infty 0); [|lra].
      replace (Rbar_plus (Rbar_mult (- W) p_infty) 0) with m_infty; [apply is_lim_exp_m|].
      unfold Rbar_mult; simpl. destruct (Rle_dec 0 (- W)) as [H|H]; [exfalso; lra|]. reflexivity. }
  replace (Finite (wj / W)) with (Rbar_mult (wj / W) (Finite (1 - 0))).
  2:{ simpl. f_equal. ring. }
  apply is_lim_scal_l.
  apply is_lim_minus'; [apply is_lim_const | exact Hexp].
Qed.
Lemma sum_div_const (f : R -> R) (S : R) (ls : list R) :
  fold_right Rplus 0 (map (fun l => f l / S) ls) = fold_right Rplus 0 (map f ls) / S.
Proof.
  induction ls as [|a ls IH]; simpl.
  - unfold Rdiv. ring.
  - rewrite IH. unfold Rdiv. ring.
Qed.
Lemma sum_sweight_pos (T : R) (ls : list R) : ls <> [] -> 0 < fold_right Rplus 0 (map (sweight T) ls).
Proof.
  intros Hne. destruct ls as [|a ls]; [congruence|]. clear Hne. revert a.
  induction ls as [|b ls IH]; intros a; simpl.
  - unfold sweight. pose proof (exp_pos (a / T)). lra.
  - specialize (IH b). simpl in IH. unfold sweight at 1. pose proof (exp_pos (a / T)). lra.
Qed.
(* softmax: w_j / sum_i w_i with w = exp(logit / T) is exactly softmax(logits / T)_j, positive and summing to one *)
Theorem softmax_weights_sum_to_one (T : R) (ls : list R) : ls <> [] ->
  fold_right Rplus 0 (map (fun l => sweight T l / fold_right Rplus 0 (map (sweight T) ls)) ls) = 1.
Proof.
  intros Hne. rewrite (sum_div_const (sweight T)).
  pose proof (sum_sweight_pos T ls Hne) as H. field. lra.
Qed.

(* C14: k-means initialisation of the codebook model (Euclidean codebook, post = identity).  Over the reals; every
   data set with at least one row, every number of clusters (more or fewer than rows), every iteration count. *)
From Coq Require Import ZArith List Bool Reals Lra Lia.
From VQ Require Import Num Model.Vec Model.Core.
Import ListNotations.
Open Scope R_scope.

Notation Rv := (list R).
Definition idv : Rv -> Rv := fun v => v.
Definition shapedv (d : nat) (vs : list Rv) : Prop := Forall (fun v => length v = d) vs.

(* ====================================================================== helper library *)
(* ---------- lists ---------- *)
Lemma map2_length {A B C} (f : A -> B -> C) (a : list A) (b : list B) :
  length (map2 f a b) = Nat.min (length a) (length b).
Proof. revert b; induction a as [|x a IH]; intros [|y b]; simpl; auto. Qed.

Lemma map2_map_map {A B C D} (f : B -> C -> D) (g : A -> B) (h : A -> C) (l : list A) :
  map2 f (map g l) (map h l) = map (fun x => f (g x) (h x)) l.
Proof. induction l as [|x l IH]; simpl; [reflexivity | now rewrite IH]. Qed.

Lemma map2_map_r {A C D} (f : A -> C -> D) (h : A -> C) (l : list A) :
  map2 f l (map h l) = map (fun x => f x (h x)) l.
Proof. induction l as [|x l IH]; simpl; [reflexivity | now rewrite IH]. Qed.

Lemma map2_map_l {A B D} (f : B -> A -> D) (g : A -> B) (l : list A) :
  map2 f (map g l) l = map (fun x => f (g x) x) l.
Proof. induction l as [|x l IH]; simpl; [reflexivity | now rewrite IH]. Qed.

Lemma combine_map_seq {A B} (f : nat -> A) (l : list B) (dflt : B) :
  combine (map f (seq 0 (length l))) l = map (fun j => (f j, nth j l dflt)) (seq 0 (length l)).
Proof.
  revert f; induction l as [|a l IH]; intros f; [reflexivity|].
  cbn [length seq map combine nth]. f_equal.
  rewrite <- seq_shift, !map_map. exact (IH (fun j => f (S j))).
Qed.

Lemma nth_map_seq {A} (f : nat -> A) (K j : nat) (dflt : A) :
  (j < K)%nat -> nth j (map f (seq 0 K)) dflt = f j.
Proof.
  intros Hj. rewrite (nth_indep _ dflt (f 0%nat)) by (now rewrite map_length, seq_length).
  rewrite map_nth. now rewrite seq_nth.
Qed.

(* ---------- argmax / select ---------- *)
Lemma argmax_first_lt (l : list R) : l <> [] -> (argmax_first R_ops l < length l)%nat.
Proof.
  induction l as [|x t IH]; intros Hne; [congruence|].
  destruct t as [|y t']; [simpl; lia|].
  assert (Hj : (argmax_first R_ops (y :: t') < length (y :: t'))%nat) by (apply IH; discriminate).
  change (argmax_first R_ops (x :: y :: t')) with
    (if ltb R_ops x (nth (argmax_first R_ops (y :: t')) (y :: t') (zero R_ops))
     then S (argmax_first R_ops (y :: t')) else 0%nat).
  destruct (ltb R_ops x (nth (argmax_first R_ops (y :: t')) (y :: t') (zero R_ops)));
    cbn [length] in *; lia.
Qed.

Lemma select_lt score (means : list Rv) (x : Rv) :
  means <> [] -> (select R_ops score means x < length means)%nat.
Proof.
  intros Hne. unfold select.
  pose proof (argmax_first_lt (map (score x) means)) as H. rewrite map_length in H.
  apply H. destruct means; [congruence | discriminate].
Qed.

(* ---------- scalar sums ---------- *)
Lemma fsum_cons a l : fsum R_ops (a :: l) = a + fsum R_ops l.
Proof. reflexivity. Qed.
Lemma fsum_nil : fsum R_ops [] = 0.
Proof. reflexivity. Qed.

Lemma fsum_map_add {A} (f g : A -> R) (l : list A) :
  fsum R_ops (map (fun x => f x + g x) l) = fsum R_ops (map f l) + fsum R_ops (map g l).
Proof.
  induction l as [|x l IH]; cbn [map].
  - rewrite fsum_nil. lra.
  - rewrite !fsum_cons, IH. lra.
Qed.

Lemma fsum_map_div {A} (f : A -> R) (b : R) (l : list A) :
  fsum R_ops (map (fun x => f x / b) l) = fsum R_ops (map f l) / b.
Proof.
  induction l as [|x l IH]; cbn [map].
  - rewrite fsum_nil. unfold Rdiv. ring.
  - rewrite !fsum_cons, IH. unfold Rdiv. ring.
Qed.

Lemma fsum_map_zero {A} (l : list A) : fsum R_ops (map (fun _ => 0) l) = 0.
Proof.
  induction l as [|x l IH]; cbn [map].
  - apply fsum_nil.
  - rewrite fsum_cons, IH. lra.
Qed.

Lemma fsum_repeat_zero (n : nat) : fsum R_ops (repeat 0 n) = 0.
Proof.
  induction n as [|n IH]; cbn [repeat].
  - apply fsum_nil.
  - rewrite fsum_cons, IH. lra.
Qed.

Lemma fsum_ind_out (i s n : nat) : (i < s)%nat ->
  fsum R_ops (map (fun j => if Nat.eqb i j then 1 else 0) (seq s n)) = 0.
Proof.
  revert s; induction n as [|n IH]; intros s Hi; cbn [seq map].
  - apply fsum_nil.
  - rewrite fsum_cons, IH by lia. destruct (Nat.eqb_spec i s); [lia | lra].
Qed.

Lemma fsum_ind_in (i s n : nat) : (s <= i < s + n)%nat ->
  fsum R_ops (map (fun j => if Nat.eqb i j then 1 else 0) (seq s n)) = 1.
Proof.
  revert s; induction n as [|n IH]; intros s Hi; [lia|].
  cbn [seq map]. rewrite fsum_cons. destruct (Nat.eqb_spec i s) as [E|E].
  - rewrite fsum_ind_out by lia. lra.
  - rewrite IH by lia. lra.
Qed.

(* ---------- vectors ---------- *)
Lemma vsum_cons d v vs : vsum R_ops d (v :: vs) = vadd R_ops v (vsum R_ops d vs).
Proof. reflexivity. Qed.
Lemma vsum_nil d : vsum R_ops d [] = vzero R_ops d.
Proof. reflexivity. Qed.

Lemma vzero_length d : length (vzero R_ops d) = d.
Proof. apply repeat_length. Qed.
Lemma vadd_length a b : length (vadd R_ops a b) = Nat.min (length a) (length b).
Proof. apply map2_length. Qed.
Lemma vscale_length c a : length (vscale R_ops c a) = length a.
Proof. apply map_length. Qed.
Lemma vdivs_length a c : length (vdivs R_ops a c) = length a.
Proof. apply map_length. Qed.

Lemma vadd_comm (a b : Rv) : vadd R_ops a b = vadd R_ops b a.
Proof.
  unfold vadd. revert b; induction a as [|x a IH]; intros [|y b]; simpl; auto.
  f_equal; [apply Rplus_comm | apply IH].
Qed.

Lemma vadd_assoc (a b c : Rv) : vadd R_ops a (vadd R_ops b c) = vadd R_ops (vadd R_ops a b) c.
Proof.
  unfold vadd. revert b c; induction a as [|x a IH]; intros [|y b] [|z c]; simpl; auto.
  f_equal; [symmetry; apply Rplus_assoc | apply IH].
Qed.

Lemma vadd_shuffle (a b c e : Rv) :
  vadd R_ops (vadd R_ops a b) (vadd R_ops c e) = vadd R_ops (vadd R_ops a c) (vadd R_ops b e).
Proof.
  rewrite <- (vadd_assoc a b (vadd R_ops c e)). rewrite (vadd_assoc b c e).
  rewrite (vadd_comm b c). rewrite <- (vadd_assoc c b e). rewrite (vadd_assoc a c (vadd R_ops b e)).
  reflexivity.
Qed.

Lemma vadd_zero_r_len (a : Rv) : vadd R_ops a (vzero R_ops (length a)) = a.
Proof.
  unfold vadd, vzero. induction a as [|x a IH]; simpl; [reflexivity|].
  f_equal; [apply Rplus_0_r | apply IH].
Qed.
Lemma vadd_zero_r d (a : Rv) : length a = d -> vadd R_ops a (vzero R_ops d) = a.
Proof. intros <-. apply vadd_zero_r_len. Qed.
Lemma vadd_zero_l d (a : Rv) : length a = d -> vadd R_ops (vzero R_ops d) a = a.
Proof. intros H. rewrite vadd_comm. now apply vadd_zero_r. Qed.
Lemma vadd_zero_zero d : vadd R_ops (vzero R_ops d) (vzero R_ops d) = vzero R_ops d.
Proof. apply vadd_zero_r, vzero_length. Qed.

Lemma vsum_length d (vs : list Rv) : shapedv d vs -> length (vsum R_ops d vs) = d.
Proof.
  induction 1 as [|v vs Hv Hvs IH].
  - rewrite vsum_nil. apply vzero_length.
  - rewrite vsum_cons, vadd_length, Hv, IH. apply Nat.min_id.
Qed.

Lemma vsum_map_vadd {A} d (f g : A -> Rv) (l : list A) :
  vsum R_ops d (map (fun x => vadd R_ops (f x) (g x)) l)
  = vadd R_ops (vsum R_ops d (map f l)) (vsum R_ops d (map g l)).
Proof.
  induction l as [|x l IH]; cbn [map].
  - rewrite !vsum_nil. symmetry. apply vadd_zero_zero.
  - rewrite !vsum_cons, IH. apply vadd_shuffle.
Qed.

Lemma vsum_map_zero {A} d (l : list A) : vsum R_ops d (map (fun _ => vzero R_ops d) l) = vzero R_ops d.
Proof.
  induction l as [|x l IH]; cbn [map].
  - apply vsum_nil.
  - rewrite vsum_cons, IH. apply vadd_zero_zero.
Qed.

Lemma vsum_ind_out d (x : Rv) (i s n : nat) : (i < s)%nat ->
  vsum R_ops d (map (fun j => if Nat.eqb i j then x else vzero R_ops d) (seq s n)) = vzero R_ops d.
Proof.
  revert s; induction n as [|n IH]; intros s Hi; cbn [seq map].
  - apply vsum_nil.
  - rewrite vsum_cons, IH by lia. destruct (Nat.eqb_spec i s); [lia | apply vadd_zero_zero].
Qed.

Lemma vsum_ind_in d (x : Rv) (i s n : nat) : length x = d -> (s <= i < s + n)%nat ->
  vsum R_ops d (map (fun j => if Nat.eqb i j then x else vzero R_ops d) (seq s n)) = x.
Proof.
  intros Hx. revert s; induction n as [|n IH]; intros s Hi; [lia|].
  cbn [seq map]. rewrite vsum_cons. destruct (Nat.eqb_spec i s) as [E|E].
  - rewrite vsum_ind_out by lia. now apply vadd_zero_r.
  - rewrite IH by lia. now apply vadd_zero_l.
Qed.

Lemma vscale_zero (k : R) (x : Rv) : k = 0 -> vscale R_ops k x = vzero R_ops (length x).
Proof.
  intros ->. unfold vscale, vzero. induction x as [|a x IH]; simpl; [reflexivity|].
  f_equal; [apply Rmult_0_l | apply IH].
Qed.

Lemma vscale_one (x : Rv) : vscale R_ops 1 x = x.
Proof.
  unfold vscale. induction x as [|a x IH]; simpl; [reflexivity|].
  f_equal; [apply Rmult_1_l | apply IH].
Qed.

Lemma vscale_vdivs (c : R) (s : Rv) : c <> 0 -> vscale R_ops c (vdivs R_ops s c) = s.
Proof.
  intros Hc. unfold vscale, vdivs. rewrite map_map.
  induction s as [|a s IH]; simpl; [reflexivity|].
  f_equal; [field; exact Hc | apply IH].
Qed.

Lemma vdivs_zero d c : vdivs R_ops (vzero R_ops d) c = vzero R_ops d.
Proof.
  unfold vdivs, vzero. induction d as [|d IH]; simpl; [reflexivity|].
  f_equal; [unfold Rdiv; apply Rmult_0_l | apply IH].
Qed.

Lemma vdivs_vadd (a b : Rv) c : vdivs R_ops (vadd R_ops a b) c = vadd R_ops (vdivs R_ops a c) (vdivs R_ops b c).
Proof.
  unfold vdivs, vadd. revert b; induction a as [|x a IH]; intros [|y b]; simpl; auto.
  f_equal; [unfold Rdiv; ring | apply IH].
Qed.

Lemma vdivs_as_vscale (x : Rv) c : vdivs R_ops x c = vscale R_ops (1 / c) x.
Proof.
  unfold vdivs, vscale. apply map_ext. intros a. simpl. unfold Rdiv. ring.
Qed.

Lemma dim_of_shaped d (data : list Rv) : shapedv d data -> data <> [] -> dim_of data = d.
Proof. intros H Hne. destruct H as [|v vs Hv _]; [congruence | exact Hv]. Qed.

Lemma shaped_nth d (vs : list Rv) j : shapedv d vs -> (j < length vs)%nat -> length (nth j vs []) = d.
Proof.
  intros H Hj. unfold shapedv in H. rewrite Forall_forall in H. apply H. now apply nth_In.
Qed.

(* ---------- cluster statistics for an assignment function g ---------- *)
Definition cnt (g : Rv -> nat) (data : list Rv) (j : nat) : R :=
  fsum R_ops (map (fun x => if Nat.eqb (g x) j then 1 else 0) data).
Definition sm (d : nat) (g : Rv -> nat) (data : list Rv) (j : nat) : Rv :=
  vsum R_ops d (map (fun x => if Nat.eqb (g x) j then x else vzero R_ops d) data).

Lemma count_j_cnt g (data : list Rv) j : count_j R_ops (map (fun x => (g x, true)) data) j = cnt g data j.
Proof. unfold count_j, cnt. rewrite map_map. reflexivity. Qed.

Lemma sum_j_sm d g (data : list Rv) j : sum_j R_ops d data (map (fun x => (g x, true)) data) j = sm d g data j.
Proof. unfold sum_j, sm. rewrite map2_map_r. reflexivity. Qed.

Lemma cnt_cons g x data j : cnt g (x :: data) j = (if Nat.eqb (g x) j then 1 else 0) + cnt g data j.
Proof. reflexivity. Qed.
Lemma sm_cons d g x data j :
  sm d g (x :: data) j = vadd R_ops (if Nat.eqb (g x) j then x else vzero R_ops d) (sm d g data j).
Proof. reflexivity. Qed.

Lemma cnt_nonneg g data j : 0 <= cnt g data j.
Proof.
  induction data as [|x data IH].
  - unfold cnt. cbn [map]. rewrite fsum_nil. lra.
  - rewrite cnt_cons. destruct (Nat.eqb (g x) j); lra.
Qed.

Lemma cnt_total g data K : (forall x, (g x < K)%nat) ->
  fsum R_ops (map (cnt g data) (seq 0 K)) = INR (length data).
Proof.
  intros HK. induction data as [|x data IH].
  - rewrite (map_ext (cnt g []) (fun _ => 0)) by reflexivity. rewrite fsum_map_zero. reflexivity.
  - rewrite (map_ext (cnt g (x :: data)) (fun j => (if Nat.eqb (g x) j then 1 else 0) + cnt g data j))
      by reflexivity.
    rewrite fsum_map_add, IH, fsum_ind_in by (specialize (HK x); lia).
    cbn [length]. rewrite S_INR. lra.
Qed.

Lemma sm_length d g data j : shapedv d data -> length (sm d g data j) = d.
Proof.
  induction 1 as [|x data Hx Hd IH].
  - apply vzero_length.
  - rewrite sm_cons, vadd_length, IH. destruct (Nat.eqb (g x) j).
    + rewrite Hx. apply Nat.min_id.
    + rewrite vzero_length. apply Nat.min_id.
Qed.

Lemma cnt_zero_sm d g data j : cnt g data j = 0 -> sm d g data j = vzero R_ops d.
Proof.
  induction data as [|x data IH]; intros H0.
  - reflexivity.
  - rewrite cnt_cons in H0. rewrite sm_cons. pose proof (cnt_nonneg g data j) as Hnn.
    destruct (Nat.eqb (g x) j).
    + lra.
    + rewrite IH by lra. apply vadd_zero_zero.
Qed.

Lemma sm_total d g data K : (forall x, (g x < K)%nat) -> shapedv d data ->
  vsum R_ops d (map (sm d g data) (seq 0 K)) = vsum R_ops d data.
Proof.
  intros HK. induction 1 as [|x data Hx Hd IH].
  - rewrite (map_ext (sm d g []) (fun _ => vzero R_ops d)) by reflexivity.
    rewrite vsum_map_zero. reflexivity.
  - rewrite (map_ext (sm d g (x :: data))
               (fun j => vadd R_ops (if Nat.eqb (g x) j then x else vzero R_ops d) (sm d g data j)))
      by reflexivity.
    rewrite (vsum_map_vadd d (fun j => if Nat.eqb (g x) j then x else vzero R_ops d) (sm d g data)).
    rewrite IH, vsum_ind_in by (try exact Hx; specialize (HK x); lia).
    rewrite vsum_cons. reflexivity.
Qed.

Lemma vdivs_sm d g data j c : shapedv d data ->
  vdivs R_ops (sm d g data j) c
  = vsum R_ops d (map (fun x => vscale R_ops ((if Nat.eqb (g x) j then 1 else 0) / c) x) data).
Proof.
  induction 1 as [|x data Hx Hd IH].
  - cbn [map]. rewrite vsum_nil. apply vdivs_zero.
  - rewrite sm_cons, vdivs_vadd, IH. cbn [map]. rewrite vsum_cons. f_equal.
    destruct (Nat.eqb (g x) j).
    + apply vdivs_as_vscale.
    + rewrite vdivs_zero, vscale_zero by (unfold Rdiv; ring). now rewrite Hx.
Qed.

(* ---------- closed form of one iteration ---------- *)
Definition newmean (d : nat) (g : Rv -> nat) (data means : list Rv) (j : nat) : Rv :=
  if Reqb (cnt g data j) 0 then nth j means [] else vdivs R_ops (sm d g data j) (cnt g data j).

Lemma kmeans_iter_repr score (data means : list Rv) :
  kmeans_iter R_ops score idv data means =
  (map (newmean (dim_of data) (select R_ops score means) data means) (seq 0 (length means)),
   map (cnt (select R_ops score means) data) (seq 0 (length means))).
Proof.
  unfold kmeans_iter, counts, sums.
  set (g := select R_ops score means).
  rewrite (map_ext (count_j R_ops (map (fun x => (g x, true)) data)) (cnt g data))
    by (intros; apply count_j_cnt).
  rewrite (map_ext (sum_j R_ops (dim_of data) data (map (fun x => (g x, true)) data)) (sm (dim_of data) g data))
    by (intros; apply sum_j_sm).
  f_equal.
  rewrite (combine_map_seq _ means []).
  rewrite map2_map_map, map2_map_map.
  apply map_ext. intros j. unfold newmean, idv. cbn [fst snd]. simpl.
  destruct (Reqb (cnt g data j) 0); reflexivity.
Qed.

Lemma kmeans_S score n (data means : list Rv) bins :
  kmeans R_ops score idv (S n) data means bins =
  kmeans R_ops score idv n data (fst (kmeans_iter R_ops score idv data means))
                                 (snd (kmeans_iter R_ops score idv data means)).
Proof. cbn [kmeans]. destruct (kmeans_iter R_ops score idv data means); reflexivity. Qed.

(* ====================================================================== the statements *)
(* ---------- one iteration ---------- *)
Lemma kmeans_iter_lengths score (data means : list Rv) :
  length (fst (kmeans_iter R_ops score idv data means)) = length means /\
  length (snd (kmeans_iter R_ops score idv data means)) = length means.
Proof. rewrite kmeans_iter_repr. cbn [fst snd]. now rewrite !map_length, seq_length. Qed.

(* the bins are the cluster sizes: non-negative integers that add up to the number of rows *)
Lemma kmeans_iter_bins_total score (data means : list Rv) : means <> [] ->
  fsum R_ops (snd (kmeans_iter R_ops score idv data means)) = INR (length data).
Proof.
  intros Hne. rewrite kmeans_iter_repr. cbn [snd]. apply cnt_total. intros x. now apply select_lt.
Qed.
Lemma kmeans_iter_bins_nonneg score (data means : list Rv) (j : nat) :
  0 <= nth j (snd (kmeans_iter R_ops score idv data means)) 0.
Proof.
  rewrite kmeans_iter_repr. cbn [snd]. destruct (lt_dec j (length means)) as [Hj|Hj].
  - rewrite nth_map_seq by exact Hj. apply cnt_nonneg.
  - rewrite nth_overflow by (rewrite map_length, seq_length; lia). lra.
Qed.

(* an empty cluster keeps its previous mean; a non-empty one becomes the mean of its members *)
Lemma kmeans_iter_mean_law score (data means : list Rv) (j : nat) (d : nat) :
  shapedv d data -> shapedv d means -> data <> [] -> (j < length means)%nat ->
  let ims := map (fun x => (select R_ops score means x, true)) data in
  let b := nth j (snd (kmeans_iter R_ops score idv data means)) 0 in
  (b = 0 -> nth j (fst (kmeans_iter R_ops score idv data means)) [] = nth j means []) /\
  (b <> 0 -> nth j (fst (kmeans_iter R_ops score idv data means)) [] = vdivs R_ops (sum_j R_ops d data ims j) b).
Proof.
  intros Hd Hm Hne Hj ims b. subst ims b.
  rewrite kmeans_iter_repr. cbn [fst snd]. rewrite !nth_map_seq by exact Hj.
  rewrite (dim_of_shaped d data Hd Hne). unfold newmean.
  destruct (Reqb (cnt (select R_ops score means) data j) 0) eqn:E.
  - apply Reqb_true in E. split; [reflexivity | intros Hb; contradiction].
  - apply Reqb_false in E. split; [intros Hb; contradiction | intros _].
    f_equal. symmetry. apply sum_j_sm.
Qed.

(* count-weighted sum of the new means = sum of the data (Euclidean) *)
Definition wsum_means (d : nat) (means : list Rv) (bins : list R) : Rv :=
  vsum R_ops d (map2 (fun m b => vscale R_ops b m) means bins).
Lemma kmeans_iter_weighted_sum score (data means : list Rv) (d : nat) :
  shapedv d data -> shapedv d means -> data <> [] -> means <> [] ->
  wsum_means d (fst (kmeans_iter R_ops score idv data means)) (snd (kmeans_iter R_ops score idv data means)) = vsum R_ops d data.
Proof.
  intros Hd Hm Hne Hmne. unfold wsum_means. rewrite kmeans_iter_repr. cbn [fst snd].
  rewrite (dim_of_shaped d data Hd Hne). set (g := select R_ops score means).
  rewrite map2_map_map.
  rewrite (map_ext_in _ (sm d g data)).
  - apply sm_total; [|exact Hd]. intros x. now apply select_lt.
  - intros j Hj. apply in_seq in Hj. unfold newmean.
    destruct (Reqb (cnt g data j) 0) eqn:E.
    + apply Reqb_true in E. rewrite (cnt_zero_sm d g data j E).
      rewrite vscale_zero by exact E. f_equal. apply shaped_nth; [exact Hm | lia].
    + apply Reqb_false in E. now apply vscale_vdivs.
Qed.

(* ---------- convex hull ---------- *)
(* v is a convex combination of the data rows *)
Definition in_hull (d : nat) (data : list Rv) (v : Rv) : Prop :=
  exists ws : list R, length ws = length data /\ Forall (fun w => 0 <= w) ws /\ fsum R_ops ws = 1 /\
                      v = vsum R_ops d (map2 (fun w x => vscale R_ops w x) ws data).

Lemma vsum_zero_weights d (data : list Rv) : shapedv d data ->
  vsum R_ops d (map2 (fun w x => vscale R_ops w x) (repeat 0 (length data)) data) = vzero R_ops d.
Proof.
  induction 1 as [|x data Hx Hd IH].
  - reflexivity.
  - cbn [length repeat map2]. rewrite vsum_cons, IH, vscale_zero by reflexivity.
    rewrite Hx. apply vadd_zero_zero.
Qed.

Lemma data_row_in_hull (d : nat) (data : list Rv) (x : Rv) : shapedv d data -> In x data -> in_hull d data x.
Proof.
  induction 1 as [|a data Ha Hd IH]; intros Hin; [contradiction|].
  destruct Hin as [E|Hin].
  - subst a. exists (1 :: repeat 0 (length data)). split; [|split; [|split]].
    + cbn [length]. now rewrite repeat_length.
    + constructor; [lra|]. apply Forall_forall. intros w Hw. apply repeat_spec in Hw. lra.
    + rewrite fsum_cons, fsum_repeat_zero. lra.
    + cbn [map2]. rewrite vsum_cons, vsum_zero_weights by exact Hd. rewrite vscale_one.
      symmetry. now apply vadd_zero_r.
  - destruct (IH Hin) as [ws [Hl [Hnn [Hs Hv]]]].
    exists (0 :: ws). split; [|split; [|split]].
    + cbn [length]. now rewrite Hl.
    + constructor; [lra | exact Hnn].
    + rewrite fsum_cons, Hs. lra.
    + cbn [map2]. rewrite vsum_cons, <- Hv, vscale_zero by reflexivity. rewrite Ha.
      symmetry. apply vadd_zero_l.
      unfold shapedv in Hd. rewrite Forall_forall in Hd. now apply Hd.
Qed.

Lemma newmean_in_hull d g (data : list Rv) j : shapedv d data -> cnt g data j <> 0 ->
  in_hull d data (vdivs R_ops (sm d g data j) (cnt g data j)).
Proof.
  intros Hd Hb. pose proof (cnt_nonneg g data j) as Hnn.
  exists (map (fun x => (if Nat.eqb (g x) j then 1 else 0) / cnt g data j) data).
  split; [apply map_length|]. split; [|split].
  - apply Forall_forall. intros w Hw. apply in_map_iff in Hw. destruct Hw as [x [Hw _]]. subst w.
    destruct (Nat.eqb (g x) j).
    + apply Rlt_le. apply Rdiv_lt_0_compat; lra.
    + unfold Rdiv. rewrite Rmult_0_l. lra.
  - rewrite (fsum_map_div (fun x => if Nat.eqb (g x) j then 1 else 0)).
    fold (cnt g data j). field. exact Hb.
  - rewrite map2_map_l. now apply vdivs_sm.
Qed.

Lemma kmeans_iter_hull score (data means : list Rv) (d : nat) :
  shapedv d data -> shapedv d means -> data <> [] ->
  Forall (in_hull d data) means -> Forall (in_hull d data) (fst (kmeans_iter R_ops score idv data means)).
Proof.
  intros Hd Hm Hne Hh. rewrite kmeans_iter_repr. cbn [fst].
  rewrite (dim_of_shaped d data Hd Hne).
  apply Forall_forall. intros v Hv. apply in_map_iff in Hv. destruct Hv as [j [Hv Hj]]. subst v.
  apply in_seq in Hj. unfold newmean.
  destruct (Reqb (cnt (select R_ops score means) data j) 0) eqn:E.
  - rewrite Forall_forall in Hh. apply Hh. apply nth_In. lia.
  - apply Reqb_false in E. now apply newmean_in_hull.
Qed.

Lemma kmeans_iter_shaped score (data means : list Rv) (d : nat) :
  shapedv d data -> shapedv d means -> data <> [] ->
  shapedv d (fst (kmeans_iter R_ops score idv data means)).
Proof.
  intros Hd Hm Hne. rewrite kmeans_iter_repr. cbn [fst].
  rewrite (dim_of_shaped d data Hd Hne).
  apply Forall_forall. intros v Hv. apply in_map_iff in Hv. destruct Hv as [j [Hv Hj]]. subst v.
  apply in_seq in Hj. unfold newmean.
  destruct (Reqb (cnt (select R_ops score means) data j) 0).
  - apply shaped_nth; [exact Hm | lia].
  - rewrite vdivs_length. now apply sm_length.
Qed.

(* ---------- the whole initialisation ---------- *)
Lemma kmeans_shaped score iters (data means : list Rv) bins (d : nat) :
  shapedv d data -> shapedv d means -> data <> [] -> shapedv d (fst (kmeans R_ops score idv iters data means bins)).
Proof.
  intros Hd Hm Hne. revert means bins Hm. induction iters as [|n IH]; intros means bins Hm.
  - exact Hm.
  - rewrite kmeans_S. apply IH. now apply kmeans_iter_shaped.
Qed.

Lemma kmeans_hull_gen score iters (data means : list Rv) bins (d : nat) :
  shapedv d data -> data <> [] -> shapedv d means -> Forall (in_hull d data) means ->
  Forall (in_hull d data) (fst (kmeans R_ops score idv iters data means bins)).
Proof.
  intros Hd Hne. revert means bins. induction iters as [|n IH]; intros means bins Hm Hh.
  - exact Hh.
  - rewrite kmeans_S. apply IH.
    + now apply kmeans_iter_shaped.
    + now apply kmeans_iter_hull.
Qed.

(* every code lies in the convex hull of the data (seeds are data rows) *)
Theorem kmeans_in_hull score iters (data seeds : list Rv) bins (d : nat) :
  shapedv d data -> data <> [] -> Forall (fun s => In s data) seeds ->
  Forall (in_hull d data) (fst (kmeans R_ops score idv iters data seeds bins)).
Proof.
  intros Hd Hne Hs. apply kmeans_hull_gen; try assumption.
  - unfold shapedv in *. rewrite Forall_forall in *. intros s Hin. apply Hd. now apply Hs.
  - rewrite Forall_forall in *. intros s Hin. apply data_row_in_hull; [exact Hd | now apply Hs].
Qed.

(* counts are the final cluster sizes and add up to the number of tokens *)
Theorem kmeans_bins_total score iters (data seeds : list Rv) bins : seeds <> [] -> (0 < iters)%nat ->
  fsum R_ops (snd (kmeans R_ops score idv iters data seeds bins)) = INR (length data).
Proof.
  revert seeds bins. induction iters as [|n IH]; intros seeds bins Hne Hit; [lia|].
  rewrite kmeans_S. destruct n as [|n].
  - cbn [kmeans snd]. now apply kmeans_iter_bins_total.
  - apply IH; [|lia]. intros E.
    pose proof (proj1 (kmeans_iter_lengths score data seeds)) as Hl. rewrite E in Hl.
    destruct seeds; [congruence | discriminate].
Qed.

(* count-weighted sum of the codes = sum of the data *)
Theorem kmeans_weighted_sum score iters (data seeds : list Rv) bins (d : nat) :
  shapedv d data -> shapedv d seeds -> data <> [] -> seeds <> [] -> (0 < iters)%nat ->
  wsum_means d (fst (kmeans R_ops score idv iters data seeds bins)) (snd (kmeans R_ops score idv iters data seeds bins)) = vsum R_ops d data.
Proof.
  intros Hd Hs Hne. revert seeds bins Hs. induction iters as [|n IH]; intros seeds bins Hs Hsne Hit; [lia|].
  rewrite kmeans_S. destruct n as [|n].
  - cbn [kmeans fst snd]. now apply kmeans_iter_weighted_sum.
  - apply IH; [now apply kmeans_iter_shaped | | lia]. intros E.
    pose proof (proj1 (kmeans_iter_lengths score data seeds)) as Hl. rewrite E in Hl.
    destruct seeds; [congruence | discriminate].
Qed.

(* init_embed writes: codes = means, counts = bins, running sums = code * count, flag set *)
Theorem init_embed_writes score iters (data seeds : list Rv) (s : cstate R) :
  let r := kmeans R_ops score idv iters data seeds (map (fun _ => 0) seeds) in
  let s' := init_embed R_ops score idv iters data seeds s in
  embed s' = fst r /\ cluster_size s' = snd r /\ initted s' = true /\
  embed_avg s' = map2 (fun m b => vscale R_ops b m) (fst r) (snd r).
Proof.
  intros r s'. subst r s'. unfold init_embed.
  change (zero R_ops) with 0. unfold vec.
  destruct (kmeans R_ops score idv iters data seeds (map (fun _ => 0) seeds)) as [m b].
  cbn. repeat split.
Qed.

(* masks: only valid tokens reach k-means *)
Theorem keep_valid_only {A} (mask : list bool) (xs : list A) (x : A) :
  In x (keep mask xs) -> exists i, nth_error xs i = Some x /\ nth i mask false = true.
Proof.
  unfold keep. revert xs. induction mask as [|m mask IH]; intros xs Hin; [contradiction|].
  destruct xs as [|y ys]; [contradiction|].
  cbn [combine filter fst] in Hin. destruct m.
  - cbn [map snd] in Hin. destruct Hin as [E|Hin].
    + subst y. exists 0%nat. split; reflexivity.
    + destruct (IH ys Hin) as [i [H1 H2]]. exists (S i). split; assumption.
  - destruct (IH ys Hin) as [i [H1 H2]]. exists (S i). split; assumption.
Qed.
Lemma keep_all_true {A} (xs : list A) : keep (map (fun _ => true) xs) xs = xs.
Proof.
  unfold keep. induction xs as [|x xs IH]; [reflexivity|].
  cbn [map combine filter fst snd]. f_equal. exact IH.
Qed.

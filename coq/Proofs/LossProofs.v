(* C17: facts about the documented loss formulas. *)
From Coq Require Import ZArith Reals List Bool Lra Lia.
From VQ Require Import Num Model.Vec Model.Losses.
From VQ.Gen Require Import g_vq_commit.
Import ListNotations.
Open Scope R_scope.

(* ---------- helpers: logarithm *)
Lemma ln_le_sub1 (y : R) : 0 < y -> ln y <= y - 1.
Proof.
  intros Hy. pose proof (exp_ineq1_le (ln y)) as H.
  rewrite exp_ln in H by assumption. lra.
Qed.

Lemma ln_mono (x y : R) : 0 < x -> x <= y -> ln x <= ln y.
Proof.
  intros Hx [H|H].
  - left; apply ln_increasing; assumption.
  - subst; lra.
Qed.

(* tangent-line bound: a ln m - a ln a <= m - a *)
Lemma ln_tangent (a m : R) : 0 < a -> 0 < m -> a * ln m - a * ln a <= m - a.
Proof.
  intros Ha Hm.
  assert (Hia : 0 < / a) by (apply Rinv_0_lt_compat; assumption).
  assert (H1 : ln (m * / a) <= m * / a - 1).
  { apply ln_le_sub1. apply Rmult_lt_0_compat; assumption. }
  rewrite ln_mult, ln_Rinv in H1 by assumption.
  apply Rmult_le_compat_l with (r := a) in H1; [|lra].
  replace (a * (m * / a - 1)) with (m - a) in H1 by (field; lra).
  lra.
Qed.

(* ---------- helpers: sums *)
Lemma rsum_cons (x : R) (l : list R) : rsum (x :: l) = x + rsum l.
Proof. reflexivity. Qed.

Lemma rsum_nonneg (l : list R) : Forall (fun x => 0 <= x) l -> 0 <= rsum l.
Proof.
  intros H; induction H.
  - simpl; lra.
  - rewrite rsum_cons; lra.
Qed.

Lemma rsum_zero_all (l : list R) :
  Forall (fun x => 0 <= x) l -> rsum l = 0 -> Forall (fun x => x = 0) l.
Proof.
  intros H; induction H; intros Hs.
  - constructor.
  - rewrite rsum_cons in Hs. pose proof (rsum_nonneg l H0) as Hl.
    constructor; [lra|]. apply IHForall; lra.
Qed.

Lemma rsum_map_repeat {A} (f : A -> R) (c : A) (n : nat) :
  rsum (map f (repeat c n)) = INR n * f c.
Proof.
  induction n.
  - simpl; ring.
  - change (repeat c (S n)) with (c :: repeat c n).
    rewrite S_INR. simpl map. rewrite rsum_cons, IHn. ring.
Qed.

Lemma rmean_nonneg (l : list R) : Forall (fun x => 0 <= x) l -> 0 <= rmean l.
Proof.
  intros H. unfold rmean. destruct l as [|x l].
  - simpl. unfold Rdiv; rewrite Rmult_0_l; lra.
  - unfold Rdiv. apply Rmult_le_pos.
    + apply rsum_nonneg; assumption.
    + left; apply Rinv_0_lt_compat. apply lt_0_INR; simpl; lia.
Qed.

Lemma map2_cons {A B C} (f : A -> B -> C) x a y b :
  map2 f (x :: a) (y :: b) = f x y :: map2 f a b.
Proof. reflexivity. Qed.

Lemma map2_sq_nonneg (a b : list R) :
  Forall (fun x => 0 <= x) (map2 (fun x y => (x - y) ^ 2) a b).
Proof.
  revert b; induction a as [|x a IH]; intros [|y b]; simpl; try constructor.
  - apply pow2_ge_0.
  - apply IH.
Qed.

Lemma map2_sq_sym (a b : list R) :
  map2 (fun x y => (x - y) ^ 2) a b = map2 (fun x y => (x - y) ^ 2) b a.
Proof.
  revert b; induction a as [|x a IH]; intros [|y b]; simpl; try reflexivity.
  f_equal; [ring | apply IH].
Qed.

Lemma map2_sq_zero_eq (a b : list R) : length a = length b ->
  Forall (fun x => x = 0) (map2 (fun x y => (x - y) ^ 2) a b) -> a = b.
Proof.
  revert b; induction a as [|x a IH]; intros [|y b] Hl H; simpl in *; try discriminate; try reflexivity.
  inversion H as [|? ? Hx Hr]; subst.
  f_equal.
  - assert (Hz : (x - y) * (x - y) = 0) by (rewrite <- Hx; ring).
    apply Rmult_integral in Hz. lra.
  - apply IH; [lia | assumption].
Qed.

Lemma map2_sq_self (a : list R) : rsum (map2 (fun x y => (x - y) ^ 2) a a) = 0.
Proof.
  induction a as [|x a IH].
  - reflexivity.
  - rewrite map2_cons, rsum_cons, IH. ring.
Qed.

(* ---------- evaluation mode: no commitment term *)
Theorem commit_zero_in_eval (has_commit : bool) (cw mse : R) : commit_term has_commit false cw mse = 0.
Proof.
  unfold commit_term, g_vq_commit.
  destruct has_commit; reflexivity.
Qed.
Theorem commit_present_in_training (cw mse : R) : commit_term true true cw mse = cw * mse.
Proof. reflexivity. Qed.

(* ---------- mse facts *)
Theorem mse_nonneg (a b : list R) : a <> [] -> length a = length b -> 0 <= mse_all a b.
Proof.
  intros _ _. unfold mse_all. apply rmean_nonneg, map2_sq_nonneg.
Qed.
Theorem mse_symmetric (a b : list R) : length a = length b -> mse_all a b = mse_all b a.
Proof.
  intros _. unfold mse_all. rewrite map2_sq_sym. reflexivity.
Qed.
Theorem mse_zero_iff_equal (a b : list R) : a <> [] -> length a = length b -> (mse_all a b = 0 <-> a = b).
Proof.
  intros Hne Hl. unfold mse_all, rmean. split.
  - intros H. apply map2_sq_zero_eq; [assumption|].
    apply rsum_zero_all; [apply map2_sq_nonneg|].
    destruct a as [|x a]; [congruence|]. destruct b as [|y b]; [discriminate|].
    set (l := map2 (fun x y => (x - y) ^ 2) (x :: a) (y :: b)) in *.
    assert (Hk : 0 < INR (length l)) by (apply lt_0_INR; subst l; simpl; lia).
    replace (rsum l) with (rsum l / INR (length l) * INR (length l)) by (field; lra).
    rewrite H; ring.
  - intros <-. rewrite map2_sq_self. unfold Rdiv; ring.
Qed.
(* SimVQ: the two-sided loss has value commitment_weight * (1 + w) * mse *)
Theorem simvq_loss_value (cw w : R) (x q : list R) : simvq_loss cw w x q = cw * (1 + w) * mse_all x q.
Proof. unfold simvq_loss. ring. Qed.

(* ---------- clamped entropy of a probability vector *)
Lemma centropy_nil (eps : R) : centropy eps [] = 0.
Proof. unfold centropy; simpl. ring. Qed.

Lemma centropy_cons (eps x : R) (p : list R) :
  centropy eps (x :: p) = - (x * ln (Rmax x eps)) + centropy eps p.
Proof. unfold centropy. simpl map. rewrite rsum_cons. ring. Qed.

(* each term - p ln(max(p, eps)) is non-negative for p in [0,1], eps in (0,1] *)
Theorem centropy_nonneg (eps : R) (p : list R) : 0 < eps <= 1 -> Forall (fun x => 0 <= x <= 1) p -> 0 <= centropy eps p.
Proof.
  intros He H. induction H as [|x p Hx Hp IH].
  - rewrite centropy_nil; lra.
  - rewrite centropy_cons.
    assert (Hm1 : Rmax x eps <= 1) by (apply Rmax_lub; lra).
    assert (Hm0 : 0 < Rmax x eps) by (pose proof (Rmax_r x eps); lra).
    pose proof (ln_mono _ _ Hm0 Hm1) as Hln. rewrite ln_1 in Hln.
    assert (x * ln (Rmax x eps) <= 0) by nra.
    lra.
Qed.

Lemma centropy_bound (eps k : R) (p : list R) : 0 < eps -> 0 < k ->
  Forall (fun x => eps <= x) p ->
  centropy eps p <= INR (length p) * / k - rsum p + rsum p * ln k.
Proof.
  intros He Hk H. induction H as [|x p Hx Hp IH].
  - rewrite centropy_nil. simpl. lra.
  - rewrite centropy_cons. change (length (x :: p)) with (S (length p)).
    rewrite S_INR, rsum_cons. rewrite Rmax_left by lra.
    assert (Hik : 0 < / k) by (apply Rinv_0_lt_compat; assumption).
    assert (Hx0 : 0 < x) by lra.
    pose proof (ln_tangent x (/ k) Hx0 Hik) as Ht.
    rewrite ln_Rinv in Ht by assumption.
    set (n := INR (length p)) in *. set (S0 := rsum p) in *.
    set (L := ln k) in *. set (xl := x * ln x) in *.
    lra.
Qed.

(* entropy of a distribution over K codes is at most ln K  (for the unclamped part p_j >= eps; Gibbs: ln y <= y - 1) *)
Theorem centropy_le_log_size (eps : R) (p : list R) : 0 < eps -> is_dist p -> Forall (fun x => eps <= x) p -> p <> [] ->
  centropy eps p <= ln (INR (length p)).
Proof.
  intros He [_ Hs] Hp Hne.
  assert (Hk : 0 < INR (length p)).
  { apply lt_0_INR. destruct p; [congruence | simpl; lia]. }
  pose proof (centropy_bound eps (INR (length p)) p He Hk Hp) as H.
  rewrite Hs in H. rewrite Rinv_r in H by lra. lra.
Qed.

Lemma centropy_one_hot_gen (eps : R) (j K s : nat) : 0 < eps <= 1 ->
  centropy eps (map (fun i => if Nat.eqb i j then 1 else 0) (seq s K)) = 0.
Proof.
  intros He. revert s; induction K as [|K IH]; intros s.
  - simpl. apply centropy_nil.
  - simpl seq. simpl map. rewrite centropy_cons, IH.
    destruct (Nat.eqb s j).
    + rewrite Rmax_left by lra. rewrite ln_1. ring.
    + ring.
Qed.

(* a one-hot distribution (confident prediction) has zero entropy; the uniform one has entropy ln K *)
Theorem centropy_one_hot (eps : R) (K j : nat) : 0 < eps <= 1 -> (j < K)%nat ->
  centropy eps (map (fun i => if Nat.eqb i j then 1 else 0) (seq 0 K)) = 0.
Proof. intros He _. apply centropy_one_hot_gen; assumption. Qed.

Theorem centropy_uniform (eps : R) (K : nat) : (0 < K)%nat -> 0 < eps -> eps <= / INR K ->
  centropy eps (repeat (/ INR K) K) = ln (INR K).
Proof.
  intros HK He Hle.
  assert (Hk : 0 < INR K) by (apply lt_0_INR; assumption).
  unfold centropy. rewrite rsum_map_repeat.
  rewrite Rmax_left by assumption. rewrite ln_Rinv by assumption.
  field. lra.
Qed.

(* concavity (two-point Jensen) of the entropy term f(p) = - p ln p on (0, 1]: mean of entropies <= entropy of the mean, for two tokens and K = any, unclamped region *)
Theorem entropy_term_concave (a b : R) : 0 < a -> 0 < b ->
  (- a * ln a + - b * ln b) / 2 <= - ((a + b) / 2) * ln ((a + b) / 2).
Proof.
  intros Ha Hb.
  assert (Hm : 0 < (a + b) / 2) by lra.
  pose proof (ln_tangent a _ Ha Hm) as H1.
  pose proof (ln_tangent b _ Hb Hm) as H2.
  set (L := ln ((a + b) / 2)) in *.
  set (la := ln a) in *. set (lb := ln b) in *.
  nra.
Qed.

Theorem per_token_entropy_le_batch_entropy_two (eps : R) (p q : list R) : 0 < eps -> length p = length q ->
  Forall (fun x => eps <= x) p -> Forall (fun x => eps <= x) q ->
  (centropy eps p + centropy eps q) / 2 <= centropy eps (map2 (fun a b => (a + b) / 2) p q).
Proof.
  intros He. revert q; induction p as [|x p IH]; intros [|y q] Hl Hp Hq; simpl in Hl; try discriminate.
  - simpl. rewrite centropy_nil. lra.
  - rewrite map2_cons, !centropy_cons.
    inversion Hp as [|? ? Hx Hp']; subst. inversion Hq as [|? ? Hy Hq']; subst.
    assert (Hlen : length p = length q) by lia.
    specialize (IH q Hlen Hp' Hq').
    rewrite !Rmax_left by lra.
    pose proof (entropy_term_concave x y ltac:(lra) ltac:(lra)) as Hc.
    set (lm := ln ((x + y) / 2)) in *. set (lx := ln x) in *. set (ly := ln y) in *.
    lra.
Qed.

(* ---------- orthogonality penalty: zero for an orthonormal set, positive maximum for identical codes *)
Theorem orth_penalty_identical (c : list R) (n : nat) : (0 < n)%nat -> dot R_ops c c = 1 -> orth_penalty (repeat c n) = 1 - 1 / INR n.
Proof.
  intros Hn Hd.
  assert (Hk : 0 < INR n) by (apply lt_0_INR; assumption).
  unfold orth_penalty. rewrite repeat_length.
  rewrite rsum_map_repeat. rewrite rsum_map_repeat. rewrite Hd.
  field. lra.
Qed.

(* General facts about the einops model (Model/Einops.v), for all patterns, environments and tensors. *)
From Coq Require Import String List Arith Lia Bool.
From VQ Require Import Model.Einops.
Import ListNotations.
Open Scope string_scope.

Definition env_pos (e : env) (s : side) : Prop := Forall (fun n => 0 < e n) (names_of s).

(* ---------- auxiliary notions *)
Local Open Scope list_scope.
Definition gnames (g : group) : list string := flat_map (fun a => match a with Ax n => [n] | One => [] end) g.
Definition keys (a : assignment) : list string := map fst a.
Arguments gnames : simpl never.

Lemma names_of_cons g s : names_of (g :: s) = (gnames g ++ names_of s)%list.
Proof. reflexivity. Qed.

Lemma names_of_single g : names_of [g] = gnames g.
Proof. rewrite names_of_cons. simpl. apply app_nil_r. Qed.

Lemma gnames_cons_ax s r : gnames (Ax s :: r) = s :: gnames r.
Proof. reflexivity. Qed.

Lemma gnames_cons_one r : gnames (One :: r) = gnames r.
Proof. reflexivity. Qed.

Lemma gnames_rev g : gnames (rev g) = rev (gnames g).
Proof.
  induction g as [|a r IH]; simpl. reflexivity.
  unfold gnames in *. rewrite flat_map_app, IH.
  destruct a; simpl; [reflexivity | apply app_nil_r].
Qed.

Lemma in_gnames_rev g n : In n (gnames (rev g)) <-> In n (gnames g).
Proof. rewrite gnames_rev. symmetry. apply in_rev. Qed.

Lemma in_gnames_names g s n : In g s -> In n (gnames g) -> In n (names_of s).
Proof. intros Hg Hn. unfold names_of. apply in_flat_map. exists g. split; assumption. Qed.

(* ---------- boolean reflection *)
Lemma existsb_eqb_In x l : existsb (String.eqb x) l = true <-> In x l.
Proof.
  rewrite existsb_exists. split.
  - intros [y [Hy He]]. apply String.eqb_eq in He. subst. assumption.
  - intros H. exists x. split; [assumption | apply String.eqb_refl].
Qed.

Lemma nodupb_NoDup l : nodupb l = true -> NoDup l.
Proof.
  induction l as [|x r IH]; simpl; intros H. constructor.
  apply andb_true_iff in H. destruct H as [H1 H2]. constructor; auto.
  intro Hin. apply existsb_eqb_In in Hin. rewrite Hin in H1. discriminate.
Qed.

Lemma subsetb_incl a b : subsetb a b = true -> incl a b.
Proof. unfold subsetb. rewrite forallb_forall. intros H x Hx. apply existsb_eqb_In. auto. Qed.

Lemma wf_rearrange_spec p : wf_rearrange p = true ->
  NoDup (names_of (lhs p)) /\ NoDup (names_of (rhs p)) /\ incl (names_of (lhs p)) (names_of (rhs p)) /\ incl (names_of (rhs p)) (names_of (lhs p)).
Proof.
  unfold wf_rearrange. intros H.
  apply andb_true_iff in H. destruct H as [H H4].
  apply andb_true_iff in H. destruct H as [H H3].
  apply andb_true_iff in H. destruct H as [H1 H2].
  repeat split; auto using nodupb_NoDup, subsetb_incl.
Qed.

(* ---------- NoDup of an append *)
Lemma NoDup_app_l {A} (l1 l2 : list A) : NoDup (l1 ++ l2) -> NoDup l1.
Proof.
  induction l1 as [|x r IH]; simpl; intros H. constructor.
  inversion H; subst. constructor; auto. intro Hx. apply H2. apply in_or_app. auto.
Qed.

Lemma NoDup_app_r {A} (l1 l2 : list A) : NoDup (l1 ++ l2) -> NoDup l2.
Proof.
  induction l1 as [|x r IH]; simpl; intros H. assumption.
  inversion H; subst. auto.
Qed.

Lemma NoDup_app_disj {A} (l1 l2 : list A) x : NoDup (l1 ++ l2) -> In x l1 -> In x l2 -> False.
Proof.
  induction l1 as [|y r IH]; simpl; intros H H1 H2. contradiction.
  inversion H; subst. destruct H1 as [H1|H1].
  - subst. apply H4. apply in_or_app. auto.
  - auto.
Qed.

(* ---------- lookup in an append *)
Lemma lookup_app_l a1 a2 n : In n (keys a1) -> lookup (a1 ++ a2) n = lookup a1 n.
Proof.
  induction a1 as [|[k v] r IH]; simpl; intros H. contradiction.
  destruct (String.eqb k n) eqn:E; auto. apply IH. destruct H; auto.
  subst. rewrite String.eqb_refl in E. discriminate.
Qed.

Lemma lookup_app_r a1 a2 n : ~ In n (keys a1) -> lookup (a1 ++ a2) n = lookup a2 n.
Proof.
  induction a1 as [|[k v] r IH]; simpl; intros H. reflexivity.
  destruct (String.eqb k n) eqn:E.
  - apply String.eqb_eq in E. exfalso. apply H. auto.
  - apply IH. intro. apply H. auto.
Qed.

(* ---------- reversed (fold_right style) presentations of gencode / gsize *)
Fixpoint genc_rev (e : env) (gr : list atom) (asg : assignment) : nat :=
  match gr with [] => 0 | a :: r => genc_rev e r asg * asize e a + aval asg a end.
Fixpoint gsz_rev (e : env) (gr : list atom) : nat :=
  match gr with [] => 1 | a :: r => gsz_rev e r * asize e a end.

Lemma gencode_rev e gr asg : gencode e (rev gr) asg = genc_rev e gr asg.
Proof.
  induction gr as [|a r IH]; simpl. reflexivity.
  unfold gencode in *. rewrite fold_left_app. simpl. rewrite IH. reflexivity.
Qed.

Lemma gencode_genc e g asg : gencode e g asg = genc_rev e (rev g) asg.
Proof. rewrite <- gencode_rev, rev_involutive. reflexivity. Qed.

Lemma gsize_rev e gr : gsize e (rev gr) = gsz_rev e gr.
Proof.
  induction gr as [|a r IH]; simpl. reflexivity.
  unfold gsize in *. rewrite fold_left_app. simpl. rewrite IH. reflexivity.
Qed.

Lemma gsize_gsz e g : gsize e g = gsz_rev e (rev g).
Proof. rewrite <- gsize_rev, rev_involutive. reflexivity. Qed.

Lemma keys_gdecode_rev e gr : forall c, keys (gdecode_rev e gr c) = gnames gr.
Proof.
  induction gr as [|a r IH]; intros c; simpl. reflexivity.
  destruct a as [s|]; simpl.
  - rewrite gnames_cons_ax. f_equal. apply IH.
  - rewrite gnames_cons_one. apply IH.
Qed.

Lemma genc_rev_ext e gr a1 a2 :
  (forall n, In n (gnames gr) -> lookup a1 n = lookup a2 n) -> genc_rev e gr a1 = genc_rev e gr a2.
Proof.
  induction gr as [|a r IH]; simpl; intros H. reflexivity.
  destruct a as [s|].
  - rewrite gnames_cons_ax in H. rewrite IH.
    + simpl. f_equal. apply H. simpl. auto.
    + intros n Hn. apply H. simpl. auto.
  - rewrite gnames_cons_one in H. rewrite IH; auto.
Qed.

Lemma genc_gdec_rev e gr : forall c,
  NoDup (gnames gr) -> (forall n, In n (gnames gr) -> 0 < e n) -> c < gsz_rev e gr ->
  genc_rev e gr (gdecode_rev e gr c) = c.
Proof.
  induction gr as [|a r IH]; intros c Hnd Hpos Hc.
  - simpl in *. lia.
  - destruct a as [s|].
    + rewrite gnames_cons_ax in *. simpl in Hc. simpl.
      inversion Hnd; subst. rewrite String.eqb_refl.
      assert (Hs : 0 < e s) by (apply Hpos; simpl; auto).
      rewrite (genc_rev_ext e r _ (gdecode_rev e r (c / e s))).
      2:{ intros n Hn. simpl. destruct (String.eqb s n) eqn:E; auto.
          apply String.eqb_eq in E. subst. contradiction. }
      rewrite IH; auto.
      * pose proof (Nat.div_mod c (e s)). rewrite (Nat.mul_comm (c / e s)). lia.
      * intros n Hn. apply Hpos. simpl. auto.
      * apply Nat.div_lt_upper_bound; lia.
    + rewrite gnames_cons_one in *. simpl in Hc. simpl.
      rewrite Nat.mul_1_r, Nat.add_0_r. apply IH; auto. lia.
Qed.

Lemma gdec_rev_range e gr : forall c n,
  (forall n, In n (gnames gr) -> 0 < e n) -> In n (gnames gr) -> lookup (gdecode_rev e gr c) n < e n.
Proof.
  induction gr as [|a r IH]; intros c n Hpos Hn.
  - simpl in Hn. contradiction.
  - destruct a as [s|].
    + rewrite gnames_cons_ax in *. simpl.
      destruct (String.eqb s n) eqn:E.
      * apply String.eqb_eq in E. subst. apply Nat.mod_upper_bound.
        assert (0 < e n) by (apply Hpos; simpl; auto). lia.
      * apply IH.
        -- intros m Hm. apply Hpos. simpl. auto.
        -- destruct Hn as [Hn|Hn]; auto. subst. rewrite String.eqb_refl in E. discriminate.
    + rewrite gnames_cons_one in *. simpl. apply IH; auto.
Qed.

Lemma genc_rev_range e gr asg :
  (forall n, In n (gnames gr) -> lookup asg n < e n) -> genc_rev e gr asg < gsz_rev e gr.
Proof.
  induction gr as [|a r IH]; intros Hr; simpl. lia.
  destruct a as [s|].
  - rewrite gnames_cons_ax in Hr. simpl.
    assert (H1 : lookup asg s < e s) by (apply Hr; simpl; auto).
    assert (H2 : genc_rev e r asg < gsz_rev e r) by (apply IH; intros n Hn; apply Hr; simpl; auto).
    nia.
  - rewrite gnames_cons_one in Hr. simpl. specialize (IH Hr). lia.
Qed.

Lemma gdec_genc_rev e gr asg :
  (forall n, In n (gnames gr) -> lookup asg n < e n) ->
  forall n, In n (gnames gr) -> lookup (gdecode_rev e gr (genc_rev e gr asg)) n = lookup asg n.
Proof.
  induction gr as [|a r IH]; intros Hr n Hn.
  - simpl in Hn. contradiction.
  - destruct a as [s|].
    + rewrite gnames_cons_ax in *. simpl.
      assert (Hs : lookup asg s < e s) by (apply Hr; simpl; auto).
      replace ((genc_rev e r asg * e s + lookup asg s) mod e s) with (lookup asg s).
      2:{ rewrite Nat.add_comm, Nat.mod_add by lia. rewrite Nat.mod_small; lia. }
      replace ((genc_rev e r asg * e s + lookup asg s) / e s) with (genc_rev e r asg).
      2:{ rewrite Nat.add_comm, Nat.div_add by lia. rewrite Nat.div_small; lia. }
      destruct (String.eqb s n) eqn:E.
      * apply String.eqb_eq in E. subst. reflexivity.
      * apply IH.
        -- intros m Hm. apply Hr. simpl. auto.
        -- destruct Hn as [Hn|Hn]; auto. subst. rewrite String.eqb_refl in E. discriminate.
    + rewrite gnames_cons_one in *. simpl.
      rewrite Nat.mul_1_r, Nat.add_0_r. apply IH; auto.
Qed.

(* ---------- group level *)
Lemma keys_gdecode e g c n : In n (keys (gdecode e g c)) <-> In n (gnames g).
Proof. unfold gdecode. rewrite keys_gdecode_rev. apply in_gnames_rev. Qed.

Lemma gencode_ext e g a1 a2 :
  (forall n, In n (gnames g) -> lookup a1 n = lookup a2 n) -> gencode e g a1 = gencode e g a2.
Proof.
  intros H. rewrite !gencode_genc. apply genc_rev_ext. intros n Hn. apply H. apply in_gnames_rev. assumption.
Qed.

Lemma gencode_gdecode_g e g c :
  NoDup (gnames g) -> (forall n, In n (gnames g) -> 0 < e n) -> c < gsize e g ->
  gencode e g (gdecode e g c) = c.
Proof.
  intros Hnd Hpos Hc. unfold gdecode. rewrite gencode_genc. apply genc_gdec_rev.
  - rewrite gnames_rev. apply NoDup_rev. assumption.
  - intros n Hn. apply Hpos. apply in_gnames_rev. assumption.
  - rewrite <- gsize_gsz. assumption.
Qed.

Lemma gdecode_range e g c n :
  (forall n, In n (gnames g) -> 0 < e n) -> In n (gnames g) -> lookup (gdecode e g c) n < e n.
Proof.
  intros Hpos Hn. unfold gdecode. apply gdec_rev_range.
  - intros m Hm. apply Hpos. apply in_gnames_rev. assumption.
  - apply in_gnames_rev. assumption.
Qed.

Lemma gencode_range e g asg :
  (forall n, In n (gnames g) -> lookup asg n < e n) -> gencode e g asg < gsize e g.
Proof.
  intros Hr. rewrite gencode_genc, gsize_gsz. apply genc_rev_range.
  intros n Hn. apply Hr. apply in_gnames_rev. assumption.
Qed.

Lemma gdecode_gencode e g asg n :
  (forall n, In n (gnames g) -> lookup asg n < e n) -> In n (gnames g) ->
  lookup (gdecode e g (gencode e g asg)) n = lookup asg n.
Proof.
  intros Hr Hn. unfold gdecode. rewrite gencode_genc. apply gdec_genc_rev.
  - intros m Hm. apply Hr. apply in_gnames_rev. assumption.
  - apply in_gnames_rev. assumption.
Qed.

(* mixed radix inside one group: decoding an in-range coordinate and re-encoding it gives the coordinate back *)
Lemma gencode_gdecode (e : env) (g : group) (c : nat) :
  nodupb (names_of [g]) = true -> Forall (fun n => 0 < e n) (names_of [g]) -> c < gsize e g ->
  gencode e g (gdecode e g c) = c.
Proof.
  rewrite names_of_single. intros Hnd Hpos Hc. apply gencode_gdecode_g.
  - apply nodupb_NoDup. assumption.
  - rewrite Forall_forall in Hpos. assumption.
  - assumption.
Qed.

(* ---------- side level *)
Lemma sencode_ext e s a1 a2 :
  (forall n, In n (names_of s) -> lookup a1 n = lookup a2 n) -> sencode e s a1 = sencode e s a2.
Proof.
  intros H. unfold sencode. apply map_ext_in. intros g Hg. apply gencode_ext.
  intros n Hn. apply H. eapply in_gnames_names; eassumption.
Qed.

Lemma sencode_sdecode e s o :
  NoDup (names_of s) -> (forall n, In n (names_of s) -> 0 < e n) -> in_range e s o ->
  sencode e s (sdecode e s o) = o.
Proof.
  intros Hnd Hpos Hr. unfold in_range in Hr.
  induction Hr as [|c g o' s' Hc Hr IH].
  - reflexivity.
  - rewrite names_of_cons in *. simpl. f_equal.
    + rewrite (gencode_ext e g _ (gdecode e g c)).
      * apply gencode_gdecode_g.
        -- eapply NoDup_app_l; eassumption.
        -- intros n Hn. apply Hpos. apply in_or_app. auto.
        -- assumption.
      * intros n Hn. apply lookup_app_l. apply keys_gdecode. assumption.
    + rewrite <- IH at 2.
      * apply map_ext_in. intros g' Hg'. apply gencode_ext. intros n Hn.
        apply lookup_app_r. rewrite keys_gdecode. intro Hn'.
        eapply NoDup_app_disj; [exact Hnd | exact Hn' |].
        eapply in_gnames_names; eassumption.
      * eapply NoDup_app_r; eassumption.
      * intros n Hn. apply Hpos. apply in_or_app. auto.
Qed.

Lemma sdecode_sencode e s asg :
  NoDup (names_of s) -> (forall n, In n (names_of s) -> lookup asg n < e n) ->
  forall n, In n (names_of s) -> lookup (sdecode e s (sencode e s asg)) n = lookup asg n.
Proof.
  induction s as [|g s' IH]; intros Hnd Hr n Hn.
  - simpl in Hn. contradiction.
  - rewrite names_of_cons in *. simpl.
    apply in_app_or in Hn. destruct Hn as [Hn|Hn].
    + rewrite lookup_app_l by (apply keys_gdecode; assumption).
      apply gdecode_gencode; auto. intros m Hm. apply Hr. apply in_or_app. auto.
    + rewrite lookup_app_r.
      * apply IH; auto.
        -- eapply NoDup_app_r; eassumption.
        -- intros m Hm. apply Hr. apply in_or_app. auto.
      * rewrite keys_gdecode. intro Hn'. eapply NoDup_app_disj; eassumption.
Qed.

Lemma sdecode_range e s o :
  (forall n, In n (names_of s) -> 0 < e n) -> in_range e s o ->
  forall n, In n (names_of s) -> lookup (sdecode e s o) n < e n.
Proof.
  intros Hpos Hr. unfold in_range in Hr.
  induction Hr as [|c g o' s' Hc Hr IH]; intros n Hn.
  - simpl in Hn. contradiction.
  - rewrite names_of_cons in *. simpl.
    destruct (in_dec string_dec n (gnames g)) as [Hg|Hg].
    + rewrite lookup_app_l by (apply keys_gdecode; assumption).
      apply gdecode_range; auto. intros m Hm. apply Hpos. apply in_or_app. auto.
    + rewrite lookup_app_r by (rewrite keys_gdecode; assumption).
      apply IH.
      * intros m Hm. apply Hpos. apply in_or_app. auto.
      * apply in_app_or in Hn. destruct Hn; [contradiction | assumption].
Qed.

Lemma sencode_range e s asg :
  (forall n, In n (names_of s) -> lookup asg n < e n) -> in_range e s (sencode e s asg).
Proof.
  unfold in_range. induction s as [|g s' IH]; intros Hr; simpl.
  - constructor.
  - rewrite names_of_cons in Hr. constructor.
    + apply gencode_range. intros n Hn. apply Hr. apply in_or_app. auto.
    + apply IH. intros n Hn. apply Hr. apply in_or_app. auto.
Qed.

(* the round trip L -> R -> L on index level *)
Lemma round_trip e (L R : side) (i : list nat) :
  NoDup (names_of L) -> NoDup (names_of R) -> incl (names_of L) (names_of R) -> incl (names_of R) (names_of L) ->
  (forall n, In n (names_of L) -> 0 < e n) -> in_range e L i ->
  sencode e L (sdecode e R (sencode e R (sdecode e L i))) = i.
Proof.
  intros HL HR HLR HRL Hpos Hi.
  assert (Hr0 : forall n, In n (names_of L) -> lookup (sdecode e L i) n < e n)
    by (apply sdecode_range; assumption).
  rewrite (sencode_ext e L _ (sdecode e L i)).
  - apply sencode_sdecode; assumption.
  - intros n Hn. apply sdecode_sencode; auto.
Qed.

(* a rearrange followed by the rearrange with the two sides swapped is the identity on in-range indices:
   rearrange(rearrange(x, 'L -> R'), 'R -> L') = x  for every well-formed pattern, every extent of every axis and every tensor *)
Theorem rearrange_swap_inverse (p : pattern) (e : env) {A} (X : list nat -> A) (i : list nat) :
  wf_rearrange p = true -> env_pos e (lhs p) -> in_range e (lhs p) i ->
  rearr (swap p) e (rearr p e X) i = X i.
Proof.
  intros Hwf Hpos Hi. apply wf_rearrange_spec in Hwf. destruct Hwf as [HL [HR [HLR HRL]]].
  unfold rearr, index_map, swap. simpl. f_equal.
  unfold env_pos in Hpos. rewrite Forall_forall in Hpos.
  apply round_trip; assumption.
Qed.

(* the index map of a well-formed rearrange sends in-range output indices to in-range input indices (no out-of-bounds read) *)
Theorem rearrange_in_range (p : pattern) (e : env) (o : list nat) :
  wf_rearrange p = true -> env_pos e (rhs p) -> in_range e (rhs p) o ->
  in_range e (lhs p) (index_map p e o).
Proof.
  intros Hwf Hpos Ho. apply wf_rearrange_spec in Hwf. destruct Hwf as [HL [HR [HLR HRL]]].
  unfold env_pos in Hpos. rewrite Forall_forall in Hpos.
  unfold index_map. apply sencode_range. intros n Hn.
  apply sdecode_range; auto.
Qed.

(* two distinct in-range output positions of a rearrange read two distinct input positions (it is a permutation, nothing is duplicated) *)
Theorem rearrange_injective (p : pattern) (e : env) (o1 o2 : list nat) :
  wf_rearrange p = true -> env_pos e (rhs p) -> in_range e (rhs p) o1 -> in_range e (rhs p) o2 ->
  index_map p e o1 = index_map p e o2 -> o1 = o2.
Proof.
  intros Hwf Hpos H1 H2 Heq. apply wf_rearrange_spec in Hwf. destruct Hwf as [HL [HR [HLR HRL]]].
  unfold env_pos in Hpos. rewrite Forall_forall in Hpos.
  unfold index_map in Heq.
  rewrite <- (round_trip e (rhs p) (lhs p) o1) by assumption.
  rewrite <- (round_trip e (rhs p) (lhs p) o2) by assumption.
  rewrite Heq. reflexivity.
Qed.

Print Assumptions rearrange_swap_inverse.
Print Assumptions rearrange_in_range.
Print Assumptions rearrange_injective.

From Coq Require Import Bool Reals String List Arith Lra Lia.
From VQ Require Import Model.GroupCat Model.CastBits.
Import ListNotations.
Open Scope R_scope.

(* one coordinate: whatever the cast does, the bit read off the emitted code decodes to that code *)
Theorem bit_from_code_decodes (c : R -> R) (s x : R) : 0 < s -> decode_bit s (bit_from_code (code_of c s x)) = code_of c s x.
Proof.
  intros Hs. unfold decode_bit, bit_from_code, code_of.
  destruct (Rpos (c x)); unfold Rpos.
  - destruct (Rlt_dec 0 s); [reflexivity | lra].
  - destruct (Rlt_dec 0 (- s)); [lra | reflexivity].
Qed.
(* the bit read off the INPUT does not: a cast that flushes a positive input to zero *)
Theorem bit_from_input_refuted : exists (c : R -> R) (s x : R), 0 < s /\ decode_bit s (bit_from_input x) <> code_of c s x.
Proof.
  exists (fun _ => 0), 1, 1. split; [lra |].
  unfold decode_bit, bit_from_input, code_of, Rpos.
  destruct (Rlt_dec 0 1); [| lra].
  destruct (Rlt_dec 0 0); lra.
Qed.
(* ... and it does whenever the cast keeps the sign of this input (exact casts: float32 / half / bfloat16 inputs, float32 subnormals) *)
Theorem bit_from_input_ok_when_sign_kept (c : R -> R) (s x : R) : (0 < c x <-> 0 < x) -> decode_bit s (bit_from_input x) = code_of c s x.
Proof.
  intros [H1 H2]. unfold decode_bit, bit_from_input, code_of, Rpos.
  destruct (Rlt_dec 0 x); destruct (Rlt_dec 0 (c x)); try reflexivity.
  - exfalso; auto.
  - exfalso; auto.
Qed.

Lemma bits_to_index_lt_aux (bs : list bool) : (bits_to_index bs < 2 ^ List.length bs)%nat.
Proof.
  induction bs as [| b r IH].
  - simpl. lia.
  - cbn [bits_to_index List.length]. rewrite Nat.pow_succ_r'.
    remember (2 ^ List.length r)%nat as p. destruct b; lia.
Qed.

(* index <-> bits, any width *)
Theorem index_to_bits_of_bits (bs : list bool) : index_to_bits (List.length bs) (bits_to_index bs) = bs.
Proof.
  induction bs as [| b r IH].
  - reflexivity.
  - cbn [index_to_bits bits_to_index List.length].
    pose proof (bits_to_index_lt_aux r) as Hlt.
    remember (2 ^ List.length r)%nat as p.
    destruct b.
    + assert (Hle : (p <=? p + bits_to_index r)%nat = true) by (apply Nat.leb_le; lia).
      rewrite Hle.
      replace (p + bits_to_index r - p)%nat with (bits_to_index r) by lia.
      rewrite IH. reflexivity.
    + assert (Hgt : (p <=? 0 + bits_to_index r)%nat = false) by (apply Nat.leb_gt; lia).
      rewrite Hgt. rewrite Nat.add_0_l. rewrite IH. reflexivity.
Qed.
Theorem bits_to_index_lt (bs : list bool) : (bits_to_index bs < 2 ^ List.length bs)%nat.
Proof. exact (bits_to_index_lt_aux bs). Qed.

Lemma decode_bits_of_codes (c : R -> R) (s : R) (xs : list R) : 0 < s ->
  map (decode_bit s) (map bit_from_code (map (code_of c s) xs)) = map (code_of c s) xs.
Proof.
  intros Hs. induction xs as [| x r IH].
  - reflexivity.
  - cbn [map]. rewrite IH. rewrite bit_from_code_decodes by exact Hs. reflexivity.
Qed.

(* the whole vector: the returned index is in range and decodes to the emitted code, for every cast, width and input *)
Theorem lfq_forward_roundtrip (c : R -> R) (s : R) (xs : list R) : 0 < s ->
  let '(q, n) := lfq_forward c s xs in (n < 2 ^ List.length xs)%nat /\ lfq_decode s (List.length xs) n = q.
Proof.
  intros Hs. unfold lfq_forward, lfq_decode. cbv zeta.
  assert (Hlen : List.length xs = List.length (map bit_from_code (map (code_of c s) xs)))
    by (rewrite !map_length; reflexivity).
  rewrite Hlen. split.
  - apply bits_to_index_lt.
  - rewrite index_to_bits_of_bits. apply decode_bits_of_codes. exact Hs.
Qed.
Theorem lfq_forward_bits_from_input_refuted : exists (c : R -> R) (s : R) (xs : list R), 0 < s /\
  let '(q, n) := lfq_forward_bits_from_input c s xs in lfq_decode s (List.length xs) n <> q.
Proof.
  exists (fun _ => 0), 1, [1]. split; [lra |].
  unfold lfq_forward_bits_from_input, lfq_decode.
  cbn [map List.length bits_to_index].
  unfold bit_from_input, code_of, Rpos.
  destruct (Rlt_dec 0 1); [| lra].
  destruct (Rlt_dec 0 0); [lra |].
  cbn. intros H. inversion H. lra.
Qed.

(* The full C17 entropy chain, INCLUDING the clamped region: for any token distributions (entries may be 0 or below the clamp eps),
     0 <= mean_i H_eps(p_i) <= H_eps(mean_i p_i) <= ln K,
   where H_eps(p) = - sum_j p_j ln (max p_j eps) is the entropy the library computes (log of the clamped probability).
   Key fact: t |-> - t ln (max t eps) = min (- t ln eps) (- t ln t) on t >= 0, a minimum of a linear and a concave function, hence concave. *)
From Coq Require Import Reals List Lra Lia.
From VQ Require Import Num Model.Vec Model.Losses Proofs.LossProofs Proofs.StretchJensen.
Import ListNotations.
Open Scope R_scope.

(* all token distributions range over the same K codes *)
Definition same_length (ps : list (list R)) : Prop :=
  match ps with [] => True | p0 :: _ => Forall (fun p => length p = length p0) ps end.

(* ---------- the clamped entropy term f(t) = - t ln (max t eps) *)
Definition cterm (eps t : R) : R := - (t * ln (Rmax t eps)).

Lemma centropy_cterm (eps : R) (p : list R) : centropy eps p = rsum (map (cterm eps) p).
Proof.
  induction p as [|x p IH].
  - rewrite centropy_nil. reflexivity.
  - rewrite centropy_cons, IH. simpl map. rewrite rsum_cons. reflexivity.
Qed.

(* f <= g1, the linear branch *)
Lemma cterm_le_lin (eps t : R) : 0 < eps -> 0 <= t -> cterm eps t <= - t * ln eps.
Proof.
  intros He Ht. unfold cterm.
  assert (ln eps <= ln (Rmax t eps)) by (apply ln_mono; [assumption | apply Rmax_r]).
  nra.
Qed.

(* f <= g2, the concave branch (with 0 ln 0 = 0) *)
Lemma cterm_le_ent (eps t : R) : 0 < eps -> 0 <= t -> cterm eps t <= - t * ln t.
Proof.
  intros He [Ht|<-]; unfold cterm.
  - assert (ln t <= ln (Rmax t eps)) by (apply ln_mono; [assumption | apply Rmax_l]).
    nra.
  - rewrite !Rmult_0_l. lra.
Qed.

(* a supporting line at every mu >= 0 *)
Lemma cterm_support (eps mu : R) : 0 < eps -> 0 <= mu ->
  exists s, forall t, 0 <= t -> cterm eps t <= cterm eps mu + s * (t - mu).
Proof.
  intros He Hmu. destruct (Rlt_le_dec mu eps) as [Hlt|Hge].
  - exists (- ln eps). intros t Ht.
    pose proof (cterm_le_lin eps t He Ht) as H1.
    unfold cterm at 2. rewrite Rmax_right by lra.
    set (L := ln eps) in *. nra.
  - exists (- ln mu - 1). intros t Ht.
    unfold cterm at 2. rewrite Rmax_left by lra.
    pose proof (cterm_le_ent eps t He Ht) as H1.
    destruct Ht as [Ht|<-].
    + assert (Hmu0 : 0 < mu) by lra.
      pose proof (ln_tangent t mu Ht Hmu0) as H2.
      set (L := ln mu) in *. set (lt := ln t) in *. set (c := cterm eps t) in *.
      nra.
    + unfold cterm. rewrite !Rmult_0_l.
      set (L := ln mu) in *. nra.
Qed.

Lemma rsum_map_affine (a s : R) (ts : list R) :
  rsum (map (fun t => a + s * t) ts) = INR (length ts) * a + s * rsum ts.
Proof.
  induction ts as [|t ts IH].
  - simpl. ring.
  - simpl map. change (length (t :: ts)) with (S (length ts)).
    rewrite S_INR, !rsum_cons, IH. ring.
Qed.

(* finite Jensen for the clamped term on [0, +inf) *)
Theorem cterm_jensen (eps : R) (ts : list R) : 0 < eps -> ts <> [] -> Forall (fun t => 0 <= t) ts ->
  rmean (map (cterm eps) ts) <= cterm eps (rmean ts).
Proof.
  intros He Hne Hpos.
  pose proof (length_pos ts Hne) as Hm.
  pose proof (rmean_nonneg ts Hpos) as Hmu.
  destruct (cterm_support eps (rmean ts) He Hmu) as [s Hs].
  assert (HB : rsum (map (cterm eps) ts)
               <= rsum (map (fun t => (cterm eps (rmean ts) - s * rmean ts) + s * t) ts)).
  { apply rsum_map_le. intros t Ht. rewrite Forall_forall in Hpos.
    pose proof (Hs t (Hpos t Ht)). lra. }
  rewrite rsum_map_affine in HB.
  assert (Hms : INR (length ts) * rmean ts = rsum ts) by (unfold rmean; field; lra).
  set (c := cterm eps (rmean ts)) in *.
  unfold rmean at 1. rewrite map_length.
  set (X := rsum (map _ ts)) in *.
  assert (HX : X <= INR (length ts) * c).
  { replace (INR (length ts) * (c - s * rmean ts)) with (INR (length ts) * c - s * (INR (length ts) * rmean ts)) in HB by ring.
    rewrite Hms in HB. lra. }
  unfold Rdiv.
  assert (Hi : 0 < / INR (length ts)) by (apply Rinv_0_lt_compat; assumption).
  apply Rmult_le_compat_r with (r := / INR (length ts)) in HX; [|lra].
  replace (INR (length ts) * c * / INR (length ts)) with c in HX by (field; lra).
  exact HX.
Qed.

(* ---------- distributions *)
Lemma in_le_rsum (x : R) (p : list R) : Forall (fun y => 0 <= y) p -> In x p -> x <= rsum p.
Proof.
  intros H. induction H as [|y p Hy Hp IH]; intros Hin.
  - destruct Hin.
  - rewrite rsum_cons. pose proof (rsum_nonneg p Hp). destruct Hin as [<-|Hin].
    + lra.
    + specialize (IH Hin). lra.
Qed.

Lemma dist_entries_unit (p : list R) : is_dist p -> Forall (fun x => 0 <= x <= 1) p.
Proof.
  intros [Hnn Hs]. apply Forall_forall. intros x Hx. split.
  - rewrite Forall_forall in Hnn. apply Hnn; assumption.
  - rewrite <- Hs. apply in_le_rsum; assumption.
Qed.

Lemma dist_nonempty (p : list R) : is_dist p -> p <> [].
Proof. intros [_ Hs] ->. simpl in Hs. lra. Qed.

Lemma rsum_map_const {A} (c : R) (l : list A) : rsum (map (fun _ => c) l) = INR (length l) * c.
Proof.
  induction l as [|a l IH].
  - simpl. ring.
  - simpl map. change (length (a :: l)) with (S (length l)). rewrite S_INR, rsum_cons, IH. ring.
Qed.

(* the general Gibbs bound, no lower bound on entries *)
Lemma centropy_bound_full (eps k : R) (p : list R) : 0 < eps -> 0 < k ->
  Forall (fun x => 0 <= x) p ->
  centropy eps p <= INR (length p) * / k - rsum p + rsum p * ln k.
Proof.
  intros He Hk H. induction H as [|x p Hx Hp IH].
  - rewrite centropy_nil. simpl. lra.
  - rewrite centropy_cons. change (length (x :: p)) with (S (length p)).
    rewrite S_INR, rsum_cons.
    assert (Hik : 0 < / k) by (apply Rinv_0_lt_compat; assumption).
    pose proof (cterm_le_ent eps x He Hx) as Hc. unfold cterm in Hc.
    assert (Ht : - x * ln x <= / k - x + x * ln k).
    { destruct Hx as [Hx0|<-].
      - pose proof (ln_tangent x (/ k) Hx0 Hik) as Ht.
        rewrite ln_Rinv in Ht by assumption.
        set (L := ln k) in *. set (lx := ln x) in *. nra.
      - rewrite !Rmult_0_l. lra. }
    set (n := INR (length p)) in *. set (S0 := rsum p) in *.
    set (L := ln k) in *. set (xl := x * ln (Rmax x eps)) in *.
    set (ik := / k) in *. nra.
Qed.

Theorem centropy_le_log_size_full (eps : R) (p : list R) : 0 < eps -> is_dist p ->
  centropy eps p <= ln (INR (length p)).
Proof.
  intros He Hd. pose proof (dist_nonempty p Hd) as Hne. destruct Hd as [Hnn Hs].
  pose proof (length_pos p Hne) as Hk.
  pose proof (centropy_bound_full eps (INR (length p)) p He Hk Hnn) as H.
  rewrite Hs in H. rewrite Rinv_r in H by lra. lra.
Qed.

(* ---------- the mean distribution *)
Section MeanDist.
Variables (ps : list (list R)) (K : nat).
Hypothesis Hne : ps <> [].
Hypothesis Hdist : Forall is_dist ps.
Hypothesis Hlen : forall p, In p ps -> length p = K.

Lemma mean_dist_eq : mean_dist ps = map (fun j => rmean (map (fun p => nth j p 0) ps)) (seq 0 K).
Proof.
  destruct ps as [|p0 ps']; [congruence|]. unfold mean_dist.
  rewrite (Hlen p0) by (left; reflexivity). reflexivity.
Qed.

Lemma col_nonneg (j : nat) : Forall (fun x => 0 <= x) (map (fun p => nth j p 0) ps).
Proof.
  apply Forall_forall. intros y Hy. apply in_map_iff in Hy. destruct Hy as [p [<- Hp]].
  rewrite Forall_forall in Hdist. destruct (Hdist p Hp) as [Hnn _].
  destruct (Nat.lt_ge_cases j (length p)) as [Hj|Hj].
  - rewrite Forall_forall in Hnn. apply Hnn. apply nth_In. assumption.
  - rewrite nth_overflow by assumption. lra.
Qed.

Lemma mean_dist_is_dist : is_dist (mean_dist ps).
Proof.
  pose proof (length_pos ps Hne) as Hm.
  rewrite mean_dist_eq. split.
  - apply Forall_forall. intros x Hx. apply in_map_iff in Hx. destruct Hx as [j [<- Hj]].
    apply rmean_nonneg. apply col_nonneg.
  - unfold rmean. rewrite (map_ext _ (fun j => rsum (map (fun p : list R => nth j p 0) ps) * / INR (length ps))).
    2:{ intros j. rewrite map_length. reflexivity. }
    rewrite <- (rsum_map_scal (fun j => rsum (map (fun p : list R => nth j p 0) ps))).
    rewrite <- (rsum_swap (fun (p : list R) (j : nat) => nth j p 0) ps (seq 0 K)).
    rewrite (map_ext_in _ (fun _ => 1)).
    2:{ intros p Hp. rewrite <- (Hlen p Hp).
        rewrite <- (rsum_map_nth_seq (fun x => x) p). rewrite map_id.
        rewrite Forall_forall in Hdist. destruct (Hdist p Hp) as [_ Hs]. exact Hs. }
    rewrite rsum_map_const. field. lra.
Qed.

Lemma mean_entropy_le (eps : R) : 0 < eps ->
  rmean (map (centropy eps) ps) <= centropy eps (mean_dist ps).
Proof.
  intros He.
  pose proof (length_pos ps Hne) as Hm.
  assert (Hcolne : forall j, map (fun p : list R => nth j p 0) ps <> []).
  { intros j Hc. apply map_eq_nil in Hc. congruence. }
  rewrite mean_dist_eq, centropy_cterm, map_map.
  assert (HL : map (centropy eps) ps
               = map (fun p => rsum (map (fun j => cterm eps (nth j p 0)) (seq 0 K))) ps).
  { apply map_ext_in. intros p Hp.
    rewrite centropy_cterm, (rsum_map_nth_seq (cterm eps) p), (Hlen p Hp). reflexivity. }
  unfold rmean at 1. rewrite map_length, HL.
  rewrite (rsum_swap (fun (p : list R) (j : nat) => cterm eps (nth j p 0)) ps (seq 0 K)).
  unfold Rdiv. rewrite rsum_map_scal.
  apply rsum_map_le. intros j Hj.
  pose proof (cterm_jensen eps (map (fun p => nth j p 0) ps) He (Hcolne j) (col_nonneg j)) as HJ.
  unfold rmean at 1 in HJ. rewrite !map_length, map_map in HJ.
  exact HJ.
Qed.
End MeanDist.

Theorem entropy_chain_full (eps : R) (ps : list (list R)) :
  0 < eps <= 1 -> ps <> [] -> Forall is_dist ps -> same_length ps ->
  0 <= rmean (map (centropy eps) ps) /\
  rmean (map (centropy eps) ps) <= centropy eps (mean_dist ps) /\
  centropy eps (mean_dist ps) <= ln (INR (length (mean_dist ps))).
Proof.
  intros He Hne Hdist Hsl.
  assert (Hlen : exists K, forall p, In p ps -> length p = K).
  { destruct ps as [|p0 ps']; [congruence|]. exists (length p0).
    unfold same_length in Hsl. rewrite Forall_forall in Hsl. exact Hsl. }
  destruct Hlen as [K Hlen].
  split; [|split].
  - apply rmean_nonneg. apply Forall_forall. intros y Hy.
    apply in_map_iff in Hy. destruct Hy as [p [<- Hp]].
    apply centropy_nonneg; [assumption|]. apply dist_entries_unit.
    rewrite Forall_forall in Hdist. apply Hdist; assumption.
  - apply (mean_entropy_le ps K Hne Hdist Hlen). lra.
  - apply centropy_le_log_size_full; [lra|].
    apply (mean_dist_is_dist ps K Hne Hdist Hlen).
Qed.

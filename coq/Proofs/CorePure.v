(* C08 / C11 / C14 / C20: purity of evaluation, frozen and decode calls on the state machine, for every history.
   Generic in the scalar type: nothing here depends on arithmetic, only on the guards regenerated from the source. *)
From Coq Require Import ZArith List Bool Lia.
From VQ Require Import Num Model.Vec Model.Core Model.Machine.
From VQ.Gen Require Import g_euclid_ema g_cosine_ema g_euclid_kmeans g_cosine_kmeans g_gumbel_noise
  g_rvq_shared_update g_rvq_shared_expire g_rvq_shared_opt g_vq_inplace_opt g_vq_inplace_step.
Import ListNotations.

Section Pure.
Context {F : Type} (o : ops F) (fsqrt : F -> F).

(* the EMA / normalise / expire guards are all false in evaluation mode and in frozen calls *)
(* unfold every guard down to the boolean atoms; facts are then proved by exhaustive case analysis, so they do
   not depend on how the generated definitions are associated *)
Ltac unfold_guards :=
  unfold g_ema, g_update, g_expire, g_kmeans, g_maskhot,
    g_euclid_ema, g_cosine_ema, g_euclid_update_ema.g_euclid_update_ema, g_cosine_update_ema.g_cosine_update_ema,
    g_euclid_expire.g_euclid_expire, g_cosine_expire.g_cosine_expire, g_euclid_kmeans, g_cosine_kmeans,
    g_euclid_mask_onehot.g_euclid_mask_onehot, g_cosine_mask_onehot.g_cosine_mask_onehot, g_gumbel_noise,
    g_rvq_shared_update, g_rvq_shared_expire, g_rvq_shared_opt, g_vq_inplace_opt, g_vq_inplace_step in *.

Lemma guards_off (cfg : ccfg F) (training freeze : bool) : negb training || freeze = true ->
  g_ema cfg training freeze = false /\ g_update cfg training freeze = false /\ g_expire cfg training freeze = false.
Proof.
  intros Hpure.
  destruct cfg as [cos dec eps thr rst emau man iters sto l2eps].
  unfold_guards; simpl.
  destruct cos, training, freeze, emau, man; simpl in *; try discriminate; auto.
Qed.

Lemma update_pure (cfg : ccfg F) (training freeze has_mask : bool) (s : cstate F) xs valid idx picks :
  negb training || freeze = true -> cb_update o fsqrt cfg training freeze has_mask s xs valid idx picks = s.
Proof.
  intros Hpure.
  destruct (guards_off cfg training freeze Hpure) as [Hema _].
  unfold cb_update. rewrite Hema. reflexivity.
Qed.

(* an initialised codebook is left bit-identical by evaluation-mode and frozen calls *)
(* the k-means guard is the negation of the flag *)
Lemma kmeans_guard_spec (cfg : ccfg F) (b : bool) : g_kmeans cfg b = negb b.
Proof.
  destruct cfg as [cos dec eps thr rst emau man iters sto l2eps].
  unfold_guards; simpl.
  destruct cos, b; reflexivity.
Qed.

(* the state after the (possible) initialisation, and the assignment, of one call *)
Definition s1_of (cfg : ccfg F) (s : cstate F) (xs : list (vec F)) (mask : option (list bool)) (w : oracle F) : cstate F :=
  if g_kmeans cfg (initted s)
  then init_embed o (score_of o fsqrt cfg) (post_of o fsqrt cfg) (c_kmeans_iters cfg)
         (keep (match mask with Some m => m | None => map (fun _ => true) xs end) xs) (w_seeds w) s
  else s.
Definition idx_of (cfg : ccfg F) (training temp_pos : bool) (s1 : cstate F) (xs : list (vec F)) (w : oracle F) : list nat :=
  match (if g_gumbel_noise (c_stochastic cfg) temp_pos training then w_sample w else None) with
  | Some i => i
  | None => map (select o (score_of o fsqrt cfg) (embed s1)) xs
  end.

Lemma cb_forward_eq (cfg : ccfg F) (training freeze temp_pos : bool) (s : cstate F) xs mask w :
  cb_forward o fsqrt cfg training freeze temp_pos s xs mask w =
  (cb_update o fsqrt cfg training freeze (match mask with Some _ => true | None => false end) (s1_of cfg s xs mask w) xs
     (match mask with Some m => m | None => map (fun _ => true) xs end)
     (idx_of cfg training temp_pos (s1_of cfg s xs mask w) xs w) (w_picks w),
   idx_of cfg training temp_pos (s1_of cfg s xs mask w) xs w).
Proof. reflexivity. Qed.

Lemma s1_of_initted_id (cfg : ccfg F) (s : cstate F) xs mask w : initted s = true -> s1_of cfg s xs mask w = s.
Proof.
  intros Hinit. unfold s1_of. rewrite kmeans_guard_spec, Hinit. reflexivity.
Qed.

Lemma s1_of_fresh (cfg : ccfg F) (s : cstate F) xs mask w : initted s = false ->
  s1_of cfg s xs mask w =
  init_embed o (score_of o fsqrt cfg) (post_of o fsqrt cfg) (c_kmeans_iters cfg)
    (keep (match mask with Some m => m | None => map (fun _ => true) xs end) xs) (w_seeds w) s.
Proof.
  intros Hinit. unfold s1_of. rewrite kmeans_guard_spec, Hinit. reflexivity.
Qed.

Lemma init_embed_initted score post iters data seeds (s : cstate F) :
  initted (init_embed o score post iters data seeds s) = true.
Proof.
  unfold init_embed.
  destruct (kmeans o score post iters data seeds (map (fun _ => zero o) seeds)) as [means bins].
  reflexivity.
Qed.

Lemma s1_of_initted (cfg : ccfg F) (s : cstate F) xs mask w : initted (s1_of cfg s xs mask w) = true.
Proof.
  destruct (initted s) eqn:Hinit.
  - rewrite s1_of_initted_id; assumption.
  - rewrite s1_of_fresh by assumption. apply init_embed_initted.
Qed.

Lemma expire_initted cosine thr reset picks (s : cstate F) :
  initted (expire o cosine thr reset picks s) = initted s.
Proof.
  unfold expire.
  destruct (if cosine
            then g_cosine_replace.g_cosine_replace (eqb o thr (zero o)) (any_expired o thr (cluster_size s))
            else g_euclid_replace.g_euclid_replace (eqb o thr (zero o)) (any_expired o thr (cluster_size s)));
    [ | reflexivity ].
  destruct (expire_rows o thr reset picks (embed s) (embed_avg s) (cluster_size s)) as [[E A] C].
  reflexivity.
Qed.

Lemma cb_update_initted (cfg : ccfg F) (training freeze has_mask : bool) (s1 : cstate F) xs valid idx picks :
  initted (cb_update o fsqrt cfg training freeze has_mask s1 xs valid idx picks) = initted s1.
Proof.
  unfold cb_update.
  destruct (g_ema cfg training freeze); [ | reflexivity ].
  destruct (g_update cfg training freeze), (g_expire cfg training freeze);
    try rewrite expire_initted; reflexivity.
Qed.

Lemma gumbel_off_eval (sto temp_pos : bool) : g_gumbel_noise sto temp_pos false = false.
Proof. unfold_guards. destruct sto, temp_pos; reflexivity. Qed.
Lemma gumbel_off_deterministic (temp_pos training : bool) : g_gumbel_noise false temp_pos training = false.
Proof. unfold_guards. destruct temp_pos, training; reflexivity. Qed.

Theorem forward_pure (cfg : ccfg F) (training freeze temp_pos : bool) (s : cstate F) xs mask w :
  initted s = true -> negb training || freeze = true ->
  fst (cb_forward o fsqrt cfg training freeze temp_pos s xs mask w) = s.
Proof.
  intros Hinit Hpure.
  rewrite cb_forward_eq. cbn [fst].
  rewrite update_pure by assumption.
  apply s1_of_initted_id; assumption.
Qed.

(* the only exception: a not-yet-initialised codebook is initialised (once) by whatever call comes first *)
Theorem forward_kmeans_exception (cfg : ccfg F) (training freeze temp_pos : bool) (s : cstate F) xs mask w :
  initted s = false -> negb training || freeze = true ->
  fst (cb_forward o fsqrt cfg training freeze temp_pos s xs mask w) =
  init_embed o (score_of o fsqrt cfg) (post_of o fsqrt cfg) (c_kmeans_iters cfg)
             (keep (match mask with Some m => m | None => map (fun _ => true) xs end) xs) (w_seeds w) s
  /\ initted (fst (cb_forward o fsqrt cfg training freeze temp_pos s xs mask w)) = true.
Proof.
  intros Hinit Hpure.
  rewrite cb_forward_eq. cbn [fst].
  rewrite update_pure by assumption.
  rewrite s1_of_fresh by assumption.
  split; [ reflexivity | apply init_embed_initted ].
Qed.

(* initialisation happens exactly once: the flag is monotone under every operation *)
Theorem initted_monotone (cfg : ccfg F) (s : cstate F) (p : op F) :
  initted s = true -> initted (fst (step o fsqrt cfg s p)) = true.
Proof.
  intros Hinit.
  destruct p as [training freeze temp_pos xs mask w | idx].
  - unfold step. rewrite cb_forward_eq. cbn [fst].
    rewrite cb_update_initted. apply s1_of_initted.
  - simpl. assumption.
Qed.
Theorem initted_after_first_call (cfg : ccfg F) (s : cstate F) training freeze temp_pos xs mask w :
  initted (fst (step o fsqrt cfg s (Call training freeze temp_pos xs mask w))) = true.
Proof.
  unfold step. rewrite cb_forward_eq. cbn [fst].
  rewrite cb_update_initted. apply s1_of_initted.
Qed.
Theorem initted_forever (cfg : ccfg F) (s : cstate F) (ps : list (op F)) :
  initted s = true -> initted (run o fsqrt cfg s ps) = true.
Proof.
  revert s. induction ps as [ | p ps IH]; intros s Hinit.
  - exact Hinit.
  - unfold run in *. simpl. apply IH. apply initted_monotone; assumption.
Qed.
(* once initialised, no operation ever runs k-means again: the step does not depend on the k-means oracle *)
Theorem no_reinit (cfg : ccfg F) (s : cstate F) training freeze temp_pos xs mask w seeds' :
  initted s = true ->
  step o fsqrt cfg s (Call training freeze temp_pos xs mask w) =
  step o fsqrt cfg s (Call training freeze temp_pos xs mask (mkor seeds' (w_picks w) (w_sample w))).
Proof.
  intros Hinit.
  unfold step. rewrite !cb_forward_eq.
  rewrite !s1_of_initted_id by assumption.
  reflexivity.
Qed.

Theorem step_pure (cfg : ccfg F) (s : cstate F) (p : op F) :
  initted s = true -> is_pure p = true -> fst (step o fsqrt cfg s p) = s.
Proof.
  intros Hinit Hpure.
  destruct p as [training freeze temp_pos xs mask w | idx].
  - simpl in Hpure.
    pose proof (forward_pure cfg training freeze temp_pos s xs mask w Hinit Hpure) as Hfw.
    unfold step.
    destruct (cb_forward o fsqrt cfg training freeze temp_pos s xs mask w) as [s' idx].
    exact Hfw.
  - reflexivity.
Qed.

(* every history of pure operations leaves the state unchanged *)
Theorem run_pure (cfg : ccfg F) (s : cstate F) (ps : list (op F)) :
  initted s = true -> forallb is_pure ps = true -> run o fsqrt cfg s ps = s.
Proof.
  revert s. induction ps as [ | p ps IH]; intros s Hinit Hall.
  - reflexivity.
  - simpl in Hall. apply andb_prop in Hall. destruct Hall as [Hp Hps].
    unfold run in *. simpl.
    rewrite step_pure by assumption.
    apply IH; assumption.
Qed.

(* whatever the call history: pure operations can be deleted from any interleaving without changing the final state *)
Theorem run_ignores_pure (cfg : ccfg F) (s : cstate F) (ps : list (op F)) :
  initted s = true -> run o fsqrt cfg s ps = run o fsqrt cfg s (filter (fun p => negb (is_pure p)) ps).
Proof.
  revert s. induction ps as [ | p ps IH]; intros s Hinit.
  - reflexivity.
  - unfold run in *. simpl.
    destruct (is_pure p) eqn:Hp; simpl.
    + rewrite step_pure by assumption. apply IH; assumption.
    + apply IH. apply initted_monotone; assumption.
Qed.

(* a deterministic pure call returns the same indices when repeated, whatever the noise / sampling oracles *)
Theorem pure_call_repeatable (cfg : ccfg F) (freeze temp_pos : bool) (s : cstate F) xs mask w w' :
  initted s = true ->
  snd (step o fsqrt cfg s (Call false freeze temp_pos xs mask w)) = snd (step o fsqrt cfg s (Call false freeze temp_pos xs mask w')).
Proof.
  intros Hinit.
  unfold step. rewrite !cb_forward_eq. cbn [snd].
  rewrite !s1_of_initted_id by assumption.
  unfold idx_of. rewrite gumbel_off_eval. reflexivity.
Qed.
Theorem frozen_call_repeatable_deterministic (cfg : ccfg F) (temp_pos : bool) (s : cstate F) xs mask w w' :
  initted s = true -> c_stochastic cfg = false ->
  snd (step o fsqrt cfg s (Call true true temp_pos xs mask w)) = snd (step o fsqrt cfg s (Call true true temp_pos xs mask w')).
Proof.
  intros Hinit Hsto.
  unfold step. rewrite !cb_forward_eq. cbn [snd].
  rewrite !s1_of_initted_id by assumption.
  unfold idx_of. rewrite Hsto, gumbel_off_deterministic. reflexivity.
Qed.

(* decoding reads the state and returns it unchanged *)
Theorem decode_pure (cfg : ccfg F) (s : cstate F) (idx : list nat) : fst (step o fsqrt cfg s (Decode idx)) = s.
Proof.
  reflexivity.
Qed.

(* in-place codebook optimiser: the parameter is rewritten only in an unfrozen training call *)
Theorem inplace_opt_pure (should training freeze manual : bool) (e newp : list (vec F)) :
  negb training || freeze = true -> inplace_opt should training freeze manual e newp = e.
Proof.
  intros Hpure.
  unfold inplace_opt. unfold_guards.
  destruct should, training, freeze, manual; simpl in *; try discriminate; reflexivity.
Qed.

(* shared-codebook ResidualVQ: frozen and evaluation-mode forwards leave the shared state unchanged, for any number of layers *)
Lemma shared_guards_off (training shared freeze : bool) : negb training || freeze = true ->
  g_rvq_shared_update freeze shared training = false /\ g_rvq_shared_expire freeze shared training = false.
Proof.
  intros Hpure. unfold_guards.
  destruct training, shared, freeze; simpl in *; try discriminate; auto.
Qed.

Lemma shared_layers_pure (cfg : ccfg F) (training freeze temp_pos : bool) (s : cstate F) layers :
  initted s = true -> negb training || freeze = true ->
  shared_layers o fsqrt cfg training freeze temp_pos s layers = s.
Proof.
  intros Hinit Hpure.
  unfold shared_layers.
  induction layers as [ | l layers IH].
  - reflexivity.
  - cbn [fold_left]. rewrite forward_pure by assumption. exact IH.
Qed.

Theorem shared_forward_pure (cfg : ccfg F) (training freeze temp_pos : bool) (s : cstate F) layers picks :
  initted s = true -> negb training || freeze = true ->
  shared_forward o fsqrt cfg training freeze temp_pos s layers picks = s.
Proof.
  intros Hinit Hpure.
  unfold shared_forward.
  rewrite shared_layers_pure by assumption.
  unfold shared_end.
  destruct (shared_guards_off training true freeze Hpure) as [Hupd Hexp].
  rewrite Hupd, Hexp. reflexivity.
Qed.

End Pure.

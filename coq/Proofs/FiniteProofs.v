(* C18: no operation with a non-finite real result: every divisor is bounded away from 0, every sqrt argument is
   non-negative, every log argument is positive, every atanh argument is inside (-1,1), and the EMA state stays inside
   the convex hull of what it has seen.  Over the reals ("finite in float32" additionally assumes that a float32
   operation on finite operands whose exact result is far below 2^127 in magnitude returns a finite float). *)
From Coq Require Import ZArith Reals List Bool Lra Lia.
From VQ Require Import Num Model.Vec Model.Core Model.Scalar Proofs.ScalarProofs Proofs.CoreEMA.
From VQ.Gen Require Import k_safe_div k_cdist k_laplace k_ema_inplace.
Import ListNotations.
Open Scope R_scope.

(* safe_div: the divisor is at least eps *)
Theorem safe_div_divisor_positive (den eps : R) : 0 < eps -> eps <= fmax R_ops den eps.
Proof.
  intros He. unfold fmax. cbn [leb R_ops]. unfold Rleb. destruct (Rle_dec den eps); lra.
Qed.
Theorem safe_div_bounded (num den eps : R) : 0 < eps -> Rabs (k_safe_div R_ops num den eps) <= Rabs num / eps.
Proof.
  intros He. unfold k_safe_div. cbn [div R_ops].
  pose proof (safe_div_divisor_positive den eps He) as Hm.
  set (m := fmax R_ops den eps) in *.
  assert (Hm0 : 0 < m) by lra.
  unfold Rdiv. rewrite Rabs_mult, Rabs_inv. rewrite (Rabs_pos_eq m) by lra.
  apply Rmult_le_compat_l; [apply Rabs_pos|].
  apply Rinv_le_contravar; assumption.
Qed.
(* l2norm: x / max(|x|, eps) has norm at most 1, also for the zero vector *)
Lemma sqnorm_repeat0 (d : nat) : sqnorm R_ops (repeat 0 d) = 0.
Proof.
  unfold sqnorm, dot, fsum. induction d as [|d IH]; cbn [repeat map2 fold_right]; [reflexivity|].
  rewrite IH. cbn [add mul R_ops]. ring.
Qed.
Theorem l2n_zero_vector (eps : R) (d : nat) : 0 < eps -> l2n R_ops sqrt eps (repeat 0 d) = repeat 0 d.
Proof.
  intros He. unfold l2n. rewrite sqnorm_repeat0, sqrt_0.
  unfold fmax. cbn [leb R_ops]. rewrite (proj2 (Rleb_true 0 eps)) by lra.
  unfold vdivs. cbn [div R_ops].
  induction d as [|d IH]; cbn [repeat map]; [reflexivity|].
  rewrite IH. f_equal. unfold Rdiv. apply Rmult_0_l.
Qed.
Theorem l2n_divisor_positive (eps : R) (x : list R) : 0 < eps -> eps <= fmax R_ops (sqrt (sqnorm R_ops x)) eps.
Proof. intros He. apply safe_div_divisor_positive; assumption. Qed.
(* cdist: the argument of sqrt is clamped to be non-negative, whatever rounding did to x2 + y2 - 2xy *)
Theorem cdist_sqrt_argument_nonneg (x2 y2 xy : R) : 0 <= fmax R_ops (x2 + y2 + xy * (-2)) 0.
Proof.
  unfold fmax. cbn [leb R_ops]. unfold Rleb. destruct (Rle_dec (x2 + y2 + xy * -2) 0); lra.
Qed.
Theorem cdist_nonneg (x2 y2 xy : R) : 0 <= k_cdist R_ops sqrt x2 y2 xy.
Proof. unfold k_cdist. apply sqrt_pos. Qed.
(* Laplace smoothing: the divisor of update_ema is positive even for codes that were never hit *)
Theorem laplace_divisor_positive (eps tot : R) (K : nat) : 0 < eps -> 0 <= tot -> (0 < K)%nat -> 0 < tot + INR K * eps.
Proof.
  intros He Ht HK. apply lt_0_INR in HK.
  assert (0 < INR K * eps) by (apply Rmult_lt_0_compat; assumption). lra.
Qed.
(* k-means: an empty cluster divides by 1, a non-empty one by its size *)
Theorem kmeans_divisor_nonzero (b : R) : (if Reqb b 0 then 1 else b) <> 0.
Proof.
  destruct (Reqb b 0) eqn:E; [lra|]. apply Reqb_false in E. exact E.
Qed.
(* log clamp: the argument of ln is at least eps *)
Theorem log_argument_positive (t eps : R) : 0 < eps -> 0 < Rmax t eps.
Proof. intros He. pose proof (Rmax_r t eps). lra. Qed.
(* FSQ: atanh is evaluated strictly inside (-1, 1) and tanh saturates strictly inside (-1, 1) *)
Theorem fsq_atanh_argument_in_range (eps : R) (L : Z) : (2 <= L)%Z -> 0 < eps -> -1 < fsq_offset L / fsq_half_l eps L < 1.
Proof. intros HL He. apply fsq_offset_in_range; assumption. Qed.
Theorem fsq_output_bounded (eps : R) (L : Z) (z : R) : (2 <= L)%Z -> 0 < eps -> Rabs (fsq_bound eps L z) < fsq_half_l eps L + 1.
Proof.
  intros HL He. pose proof (fsq_bound_range eps L z HL He) as [H1 H2].
  pose proof (fsq_half_l_pos eps L HL He) as Hh.
  apply Rabs_def1; destruct (fsq_offset_cases L) as [[_ Ho]|[_ Ho]]; rewrite Ho in *; lra.
Qed.
(* EMA is a convex combination for decay in [0,1]: the statistic never leaves the interval spanned by old and new *)
Theorem ema_convex (old new decay : R) : 0 <= decay <= 1 ->
  Rmin old new <= k_ema_inplace R_ops old new decay <= Rmax old new.
Proof.
  intros [Hd0 Hd1]. rewrite ema_scalar.
  destruct (Rle_dec old new) as [H|H].
  - rewrite Rmin_left, Rmax_right by lra. split; nra.
  - rewrite Rmin_right, Rmax_left by lra. split; nra.
Qed.
Theorem ema_bounded (old new decay M : R) : 0 <= decay <= 1 -> Rabs old <= M -> Rabs new <= M -> Rabs (k_ema_inplace R_ops old new decay) <= M.
Proof.
  intros Hd Ho Hn. pose proof (ema_convex old new decay Hd) as [H1 H2].
  assert (Ho' : - M <= old <= M) by (unfold Rabs in Ho; destruct (Rcase_abs old); lra).
  assert (Hn' : - M <= new <= M) by (unfold Rabs in Hn; destruct (Rcase_abs new); lra).
  apply Rabs_le. split.
  - apply Rle_trans with (Rmin old new); [|exact H1]. apply Rmin_glb; lra.
  - apply Rle_trans with (Rmax old new); [exact H2|]. apply Rmax_lub; lra.
Qed.
(* hence along any history the usage count stays within [0, max(initial, largest batch count)] *)
Theorem ema_hist_bounded (decay : R) (news : list R) (c0 M : R) : 0 <= decay <= 1 -> Rabs c0 <= M -> Forall (fun n => Rabs n <= M) news ->
  Rabs (ema_hist decay news c0) <= M.
Proof.
  intros Hd Hc HF. unfold ema_hist. revert c0 Hc.
  induction HF as [|n t Hn Ht IH]; intros c0 Hc; cbn [fold_left]; [exact Hc|].
  apply IH. apply ema_bounded; assumption.
Qed.

(* Proofs about Model/Requant.v *)
From Coq Require Import Bool String List Reals Lra Lia.
From VQ Require Import Num Model.Vec Model.Core Proofs.CoreNearest Model.Requant.
Import ListNotations.
Open Scope R_scope.

(* every index of the call is a nearest code of its token in the codebook AFTER the in-place step, the vectors are those codes, for ANY optimiser *)
Theorem inplace_forward_consistent (step : list Rv -> list Rv -> list nat -> list Rv) (cb xs : list Rv) (d : nat) :
  let r := inplace_forward step cb xs in
  r_cb r <> [] -> shaped d (r_cb r) -> Forall (fun x => length x = d) xs ->
  consistent xs r nearest_rel.
Proof.
  intros r Hne Hs Hxs. subst r. unfold inplace_forward in *. cbn [r_cb r_idx r_vec] in *.
  set (cb' := step cb xs (pass cb xs)) in *.
  unfold consistent. cbn [r_cb r_idx r_vec].
  split; [unfold pass; apply map_length|]. split; [|reflexivity].
  intros k Hk. unfold pass. rewrite (nth_map_lt (sel cb') xs k [] O Hk).
  unfold sel. apply select_euclid_nearest; [exact Hne|].
  rewrite Forall_forall in Hxs. rewrite (Hxs (nth k xs []) (nth_In xs [] Hk)). exact Hs.
Qed.

(* the stale variant is NOT consistent: a step that moves the codebook far enough changes the winner *)
Theorem stale_forward_refuted :
  exists (step : list Rv -> list Rv -> list nat -> list Rv) (cb xs : list Rv),
    shaped 1 (r_cb (stale_forward step cb xs)) /\ Forall (fun x => length x = 1%nat) xs /\
    ~ consistent xs (stale_forward step cb xs) nearest_rel.
Proof.
  exists (fun _ _ _ => [[100]; [2]]), [[0]; [10]], [[1]].
  unfold stale_forward. cbn [r_cb r_idx r_vec].
  split; [repeat constructor|]. split; [repeat constructor|].
  unfold consistent. cbn [r_cb r_idx r_vec]. intros (_ & Hnear & _).
  assert (H01 : (0 < length [[1]])%nat) by (simpl; lia).
  specialize (Hnear 0%nat H01). unfold pass in Hnear. cbn [map nth] in Hnear.
  assert (E : sel [[0]; [10]] [1] = 0%nat).
  { unfold sel.
    assert (Hne : [[0]; [10]] <> ([] : list Rv)) by discriminate.
    assert (Hsh : shaped (length [1]) [[0]; [10]]) by (repeat constructor).
    pose proof (select_euclid_nearest [[0]; [10]] [1] Hne Hsh) as [Hlt Hmin].
    remember (select R_ops (negcdist R_ops sqrt) [[0]; [10]] [1]) as i eqn:Ei. clear Ei.
    cbn [length] in Hlt, Hmin.
    destruct i as [|[|i]]; [reflexivity | | lia].
    exfalso. assert (H02 : (0 < 2)%nat) by lia. specialize (Hmin 0%nat H02).
    cbn [nth] in Hmin. unfold sqdist in Hmin. rewrite !vsub_cons in Hmin.
    change (vsub R_ops [] []) with (@nil R) in Hmin.
    rewrite !sqnorm_cons, sqnorm_nil in Hmin. lra. }
  rewrite E in Hnear. destruct Hnear as [_ Hmin].
  assert (H12 : (1 < length [[100]; [2]])%nat) by (simpl; lia).
  specialize (Hmin 1%nat H12). cbn [nth] in Hmin. unfold sqdist in Hmin. rewrite !vsub_cons in Hmin.
  change (vsub R_ops [] []) with (@nil R) in Hmin.
  rewrite !sqnorm_cons, sqnorm_nil in Hmin. lra.
Qed.

(* the two differ only when the step changes some winner *)
Theorem stale_equals_when_winners_stable (step : list Rv -> list Rv -> list nat -> list Rv) (cb xs : list Rv) :
  pass (step cb xs (pass cb xs)) xs = pass cb xs -> stale_forward step cb xs = inplace_forward step cb xs.
Proof.
  intros H. unfold stale_forward, inplace_forward. cbv zeta. rewrite H. reflexivity.
Qed.

(* reading the bindings: both results rebound -> the library's forward; indices not rebound -> the stale one *)
Theorem bindings_all_rebound (step : list Rv -> list Rv -> list nat -> list Rv) (cb xs : list Rv) :
  forward_from_bindings step ["quantize, embed_ind, distances"; "quantize, embed_ind, distances"]%string cb xs = Some (inplace_forward step cb xs).
Proof. reflexivity. Qed.
Theorem bindings_index_dropped (step : list Rv -> list Rv -> list nat -> list Rv) (cb xs : list Rv) :
  forward_from_bindings step ["quantize, embed_ind, distances"; "quantize, _, distances"]%string cb xs = Some (stale_forward step cb xs).
Proof. reflexivity. Qed.

(* Non-vacuity: concrete, non-trivial objects that satisfy the hypotheses of the property theorems, so that no
   implication exported by Properties/*.v is true merely because its premises are unsatisfiable.
   Each Example names the theorem(s) whose hypotheses it witnesses. *)
From Coq Require Import ZArith List Bool Reals Lra Lia.
From VQ Require Import Num Model.Vec Model.Core Model.Machine Model.Residual Model.Scalar Model.Dist Model.Shapes Model.Losses Model.Params Model.Inventory.
From VQ Require Import Proofs.CoreEMA Proofs.CoreNearest Proofs.CoreKmeans Proofs.CoreMask Proofs.ResidualProofs Proofs.ScalarProofs Proofs.DistProofs Proofs.ParamsProofs.
Import ListNotations.
Open Scope R_scope.

(* a 2-code, 2-dimensional codebook state with consistent running sums *)
Definition ex_state : cstate R := mkst [[1; 0]; [0; 2]] [[2; 0]; [0; 2]] [2; 1] true.
Definition ex_batch : list (list R) := [[1; 1]; [0; 3]; [2; 0]].

(* C03 / C09 : wf, shaped batches, in-range code index *)
Example ex_wf : wf 2 ex_state.
Proof. unfold wf, ex_state; cbn. split; [reflexivity | repeat constructor]. Qed.
Example ex_batch_shaped : Forall (fun v : list R => length v = 2%nat) ex_batch.
Proof. unfold ex_batch. repeat constructor. Qed.
Example ex_index_in_range : (1 < length (cluster_size ex_state))%nat.
Proof. cbn. lia. Qed.
(* C03_decay_one_fresh : a fresh module state (all counts 1, running sums = codes) *)
Definition ex_fresh : cstate R := mkst [[1; 0]; [0; 2]] [[1; 0]; [0; 2]] [1; 1] true.
Example ex_fresh_hyps : wf 2 ex_fresh /\ Forall (fun c => c = 1) (cluster_size ex_fresh) /\ embed_avg ex_fresh = embed ex_fresh /\ (0 < length (cluster_size ex_fresh))%nat.
Proof. unfold wf, ex_fresh; cbn. repeat split; try reflexivity; try lia; repeat constructor. Qed.
(* C03_never_hit_stays_defined *)
Example ex_smoothed_hyps : 0 < / 100000 /\ Forall (fun c => 0 <= c) (cluster_size ex_state) /\ 0 < fsum R_ops (cluster_size ex_state).
Proof. unfold ex_state; cbn. split; [lra | split; [repeat constructor; lra | lra]]. Qed.

(* C01 : non-empty, shaped codebook; and a concrete selection that is NOT index 0 (the theorem is about a non-trivial argmax) *)
Example ex_codebook_shaped : embed ex_state <> [] /\ shaped (length [0; 3]) (embed ex_state).
Proof. unfold shaped, ex_state; cbn. split; [discriminate | repeat constructor]. Qed.
Example ex_select_nontrivial : select R_ops (negsqdist R_ops) (embed ex_state) [0; 3] = 1%nat.
Proof.
  unfold select, ex_state, negsqdist, sqdist, sqnorm, dot, fsum, vsub. cbn.
  unfold Rltb. destruct (Rlt_dec _ _) as [H|H]; [reflexivity | exfalso; apply H; lra].
Qed.

(* C09 : two batches that agree on the valid positions and differ on the padding *)
Example ex_agree_on_valid : agree_on_valid [true; false; true] [[1; 1]; [7; 7]; [2; 0]] [[1; 1]; [-9; 100]; [2; 0]] /\
  [[1; 1]; [7; 7]; [2; 0]] <> [[1; 1]; [-9; 100]; [2; 0]].
Proof.
  split.
  - unfold agree_on_valid. split; [reflexivity | split; [reflexivity |]].
    intros t x y Hv Ha Hb.
    destruct t as [|[|[|t]]]; cbn in *; try discriminate; congruence.
  - intro H. inversion H. lra.
Qed.

(* C14 : seeds that are rows of the data *)
Example ex_seeds_from_data : Forall (fun s => In s ex_batch) [[0; 3]; [1; 1]] /\ ex_batch <> [] /\ shapedv 2 ex_batch.
Proof.
  unfold shapedv, ex_batch. split; [| split].
  - constructor; [right; left; reflexivity | constructor; [left; reflexivity | constructor]].
  - discriminate.
  - repeat constructor.
Qed.

(* C06 / C02 : two nearest-code layers with non-empty shaped codebooks satisfy dim_ok *)
Definition ex_cbs : list (list (list R)) := [[[1; 0]; [0; 2]]; [[0; 0]; [1; 1]]].
Example ex_layers_ok : Forall (fun cb : list (list R) => cb <> [] /\ Forall (fun c => length c = 2%nat) cb) ex_cbs.
Proof. unfold ex_cbs. repeat constructor; discriminate. Qed.

(* C05 : the library's eps = 1e-3 satisfies eps_ok for every L up to 1000, e.g. L = 8 and L = 5 *)
Example ex_eps_ok_8 : eps_ok (/ 1000) 8.
Proof. unfold eps_ok; split; lra. Qed.
Example ex_eps_ok_5 : eps_ok (/ 1000) 5.
Proof. unfold eps_ok; split; lra. Qed.

(* C16 : two ranks with unequal batches *)
Definition ex_ranks : list (@rank_batch R) := [([[1; 1]], [(0%nat, true)]); ([[0; 3]; [2; 0]], [(1%nat, true); (0%nat, true)])].
Example ex_ranks_ok : ranks_ok 2 ex_ranks /\ length (fst (nth 0 ex_ranks ([], []))) <> length (fst (nth 1 ex_ranks ([], []))).
Proof. unfold ranks_ok, ex_ranks; cbn. split; [repeat constructor | lia]. Qed.

(* C13 : layouts accepted by to_seq, including degenerate extents *)
Example ex_to_seq : to_seq Image [1; 3; 1; 5]%nat = Some (1, 5, 3)%nat /\ to_seq Single [2; 1]%nat = Some (2, 1, 1)%nat.
Proof. split; reflexivity. Qed.

(* C17 : a distribution bounded below by eps *)
Example ex_dist : is_dist [/ 2; / 4; / 4] /\ Forall (fun x => / 100000 <= x) [/ 2; / 4; / 4].
Proof. unfold is_dist, rsum; cbn. split; [split; [repeat constructor; lra | lra] | repeat constructor; lra]. Qed.

(* C04 / C02: float32 side of the FSQ / LatentQuantize codec.
   Per-level round trip is a finite, exhaustive vm_compute proof (bound 2..128 in the
   statement); the lift to every level *list* is an unbounded induction that composes it
   with the integer mixed-radix bijection. *)
From Coq Require Import ZArith List Bool Lia SpecFloat.
From VQ Require Import Num Model.Vec Model.Codec Model.B32 Proofs.CodecProofs.
Import ListNotations.
Open Scope Z_scope.

Definition levels_2_128 : list Z := map Z.of_nat (seq 2 127).

Lemma in_levels_2_128 L : 2 <= L <= 128 -> In L levels_2_128.
Proof.
  intros H. unfold levels_2_128. apply in_map_iff. exists (Z.to_nat L). split; [lia|].
  apply in_seq. lia.
Qed.

Lemma in_zrange n k : 0 <= k < n -> In k (zrange n).
Proof.
  intros H. unfold zrange. apply in_map_iff. exists (Z.to_nat k). split; [lia|]. apply in_seq. lia.
Qed.

Lemma fsq_levels_ok_compute : forallb (fsq_level_roundtrip_ok ConvRound) levels_2_128 = true.
Proof. vm_compute. reflexivity. Qed.

Lemma lq_levels_ok_compute : forallb (lq_level_roundtrip_ok ConvRound) levels_2_128 = true.
Proof. vm_compute. reflexivity. Qed.

Lemma fsq_sym_levels_ok_compute : forallb (fsq_sym_level_roundtrip_ok ConvRound) levels_2_128 = true.
Proof. vm_compute. reflexivity. Qed.

Theorem fsq_sym_level_roundtrip_b32 L k :
  2 <= L <= 128 -> 0 <= k < L ->
  sf_round_he (fsq_sym_scale_shift_b32 L (fsq_sym_code_b32 L k)) = k.
Proof.
  intros HL Hk. pose proof fsq_sym_levels_ok_compute as H.
  rewrite forallb_forall in H. specialize (H L (in_levels_2_128 L HL)).
  unfold fsq_sym_level_roundtrip_ok in H. rewrite forallb_forall in H.
  specialize (H k (in_zrange L k Hk)). apply Z.eqb_eq in H. exact H.
Qed.

Theorem fsq_level_roundtrip_b32 L k :
  2 <= L <= 128 -> 0 <= k < L ->
  sf_round_he (fsq_scale_shift_b32 L (fsq_code_b32 L k)) = k.
Proof.
  intros HL Hk. pose proof fsq_levels_ok_compute as H.
  rewrite forallb_forall in H. specialize (H L (in_levels_2_128 L HL)).
  unfold fsq_level_roundtrip_ok in H. rewrite forallb_forall in H.
  specialize (H k (in_zrange L k Hk)). apply Z.eqb_eq in H. exact H.
Qed.

Theorem lq_level_roundtrip_b32 L k :
  2 <= L <= 128 -> 0 <= k < L ->
  sf_round_he (lq_scale_shift_b32 L (lq_code_b32 L k)) = k.
Proof.
  intros HL Hk. pose proof lq_levels_ok_compute as H.
  rewrite forallb_forall in H. specialize (H L (in_levels_2_128 L HL)).
  unfold lq_level_roundtrip_ok in H. rewrite forallb_forall in H.
  specialize (H k (in_zrange L k Hk)). apply Z.eqb_eq in H. exact H.
Qed.

(* digits survive the float32 detour, for any list of levels *)
Lemma digits_roundtrip (f : Z -> spec_float -> spec_float) (g : Z -> Z -> spec_float) ls :
  (forall L k, 2 <= L <= 128 -> 0 <= k < L -> sf_round_he (f L (g L k)) = k) ->
  Forall (fun l => 2 <= l <= 128) ls -> forall ds, in_range ls ds ->
  map (to_digit ConvRound) (map2 f ls (map2 g ls ds)) = ds.
Proof.
  intros Hfg. induction ls as [|l t IH]; intros Hl ds Hr.
  - destruct ds; simpl in *; [reflexivity|contradiction].
  - destruct ds as [|d ds]; simpl in Hr; [contradiction|]. destruct Hr as [Hd Hr].
    inversion Hl; subst. cbn [map2 map to_digit]. rewrite Hfg by assumption.
    f_equal. apply IH; assumption.
Qed.

Lemma Forall_2_128_pos ls : Forall (fun l => 2 <= l <= 128) ls -> Forall (fun l => 0 < l) ls.
Proof. intros H. eapply Forall_impl; [|exact H]. intros; simpl in *; lia. Qed.

Theorem fsq_codec_roundtrip_b32 ls i :
  Forall (fun l => 2 <= l <= 128) ls -> 0 <= i < prod ls ->
  fsq_codes_to_index_intsum ConvRound ls (fsq_index_to_code_b32 ls i) = i.
Proof.
  intros Hl Hi. unfold fsq_codes_to_index_intsum, fsq_index_to_code_b32.
  destruct (mixed_radix_enc_dec ls (Forall_2_128_pos ls Hl) i Hi) as [E Hr].
  rewrite (digits_roundtrip fsq_scale_shift_b32 fsq_code_b32 ls fsq_level_roundtrip_b32 Hl _ Hr).
  exact E.
Qed.

Theorem fsq_sym_codec_roundtrip_b32 ls i :
  Forall (fun l => 2 <= l <= 128) ls -> 0 <= i < prod ls ->
  fsq_sym_codes_to_index ConvRound ls (fsq_sym_index_to_code_b32 ls i) = i.
Proof.
  intros Hl Hi. unfold fsq_sym_codes_to_index, fsq_sym_index_to_code_b32.
  destruct (mixed_radix_enc_dec ls (Forall_2_128_pos ls Hl) i Hi) as [E Hr].
  rewrite (digits_roundtrip fsq_sym_scale_shift_b32 fsq_sym_code_b32 ls fsq_sym_level_roundtrip_b32 Hl _ Hr).
  exact E.
Qed.

Theorem lq_codec_roundtrip_b32 ls i :
  Forall (fun l => 2 <= l <= 128) ls -> 0 <= i < prod ls ->
  lq_codes_to_index_intsum ConvRound ls (lq_index_to_code_b32 ls i) = i.
Proof.
  intros Hl Hi. unfold lq_codes_to_index_intsum, lq_index_to_code_b32.
  destruct (mixed_radix_enc_dec ls (Forall_2_128_pos ls Hl) i Hi) as [E Hr].
  rewrite (digits_roundtrip lq_scale_shift_b32 lq_code_b32 ls lq_level_roundtrip_b32 Hl _ Hr).
  exact E.
Qed.

(* non-vacuity: a concrete 4-level codebook meets the hypotheses and round-trips entirely *)
Example fsq_codebook_8555_roundtrips : fsq_codebook_roundtrip_ok ConvRound [8; 5; 5; 5] = true.
Proof. vm_compute. reflexivity. Qed.

(* the pre-repair form of the code (float32 multiply-add, truncating conversion) is refuted:
   FSQ([26]), level 6 comes back as index 5.  Witness found by vm_compute; the same input fails
   on the pinned implementation (see known_findings.json: fixed). *)
Theorem fsq_truncating_codec_refuted :
  exists ls i, Forall (fun l => 2 <= l <= 128) ls /\ 0 <= i < prod ls /\
    fsq_codes_to_index_floatsum ConvTrunc ls (fsq_index_to_code_b32 ls i) <> i.
Proof.
  exists [26], 6. split; [repeat constructor; lia|]. split; [simpl; lia|].
  vm_compute. discriminate.
Qed.

Theorem lq_truncating_codec_refuted :
  exists L k, 2 <= L <= 128 /\ 0 <= k < L /\ sf_trunc (lq_scale_shift_b32 L (lq_code_b32 L k)) <> k.
Proof. exists 26, 6. split; [lia|]. split; [lia|]. vm_compute. discriminate. Qed.

From Coq Require Import Arith List Bool String Lia.
From VQ Require Import Model.GroupCat.
Import ListNotations.

Section P.
Context {A : Type}.
Notation T3 := (nat -> nat -> nat -> A).

(* C06 grouped clause, channel-first: chunk g of the concatenated output IS the g-th stack's output (for every per-group function) *)
Theorem chunk_of_cat_ax1 (dg : nat) (Ys : nat -> T3) (g b c p : nat) : c < dg -> chunk_ax1 dg (cat_ax1 dg Ys) g b c p = Ys g b c p.
Proof. intros H. unfold chunk_ax1, cat_ax1. assert (dg <> 0) by lia.
  rewrite Nat.div_add_l by assumption. rewrite (Nat.div_small c dg) by assumption.
  rewrite (Nat.add_comm (g * dg) c), Nat.mod_add by assumption. rewrite Nat.mod_small by assumption.
  rewrite Nat.add_0_r. reflexivity. Qed.
Theorem chunk_of_cat_last (dg : nat) (Ys : nat -> T3) (g b p c : nat) : c < dg -> chunk_last dg (cat_last dg Ys) g b p c = Ys g b p c.
Proof. intros H. unfold chunk_last, cat_last. assert (dg <> 0) by lia.
  rewrite Nat.div_add_l by assumption. rewrite (Nat.div_small c dg) by assumption.
  rewrite (Nat.add_comm (g * dg) c), Nat.mod_add by assumption. rewrite Nat.mod_small by assumption.
  rewrite Nat.add_0_r. reflexivity. Qed.
(* cutting and concatenating again is the identity (the grouped forward with identity stacks) *)
Theorem cat_of_chunks_ax1 (dg : nat) (X : T3) (b c p : nat) : 0 < dg -> cat_ax1 dg (chunk_ax1 dg X) b c p = X b c p.
Proof. intros H. unfold chunk_ax1, cat_ax1. assert (Hd : dg <> 0) by lia.
  rewrite (Nat.mul_comm (c / dg) dg). rewrite <- (Nat.div_mod c dg Hd). reflexivity. Qed.
(* the channel-first forward concatenated on the LAST axis instead (seed C06-j) puts channel c of group g at position index (g*dg+c) of ... : it is NOT the
   forward: refuted on a 2-group witness *)
Theorem forward_cat_last_refuted : exists (dg : nat) (Ys : nat -> nat -> nat -> nat -> nat) (g b c p : nat),
  c < dg /\ chunk_ax1 dg (cat_last dg Ys) g b c p <> Ys g b c p.
Proof. exists 2, (fun g b c p => g * 100 + c * 10 + p), 1, 0, 0, 0. split; [lia|]. vm_compute. discriminate. Qed.

(* C02 grouped decode: the per-group decoders return channel-LAST tensors; concatenated on the last axis they are the channel-last form of the
   channel-first output whose chunks they decode *)
Theorem decode_cat_last_is_to_last (dg : nat) (X : T3) (b p c : nat) : 0 < dg ->
  cat_last dg (fun g => to_last (chunk_ax1 dg X g)) b p c = to_last X b p c.
Proof. intros H. unfold cat_last, to_last, chunk_ax1. assert (Hd : dg <> 0) by lia.
  rewrite (Nat.mul_comm (c / dg) dg). rewrite <- (Nat.div_mod c dg Hd). reflexivity. Qed.
End P.

(* shapes: G channel-last group decodes of shape (B, P, dg) concatenated on the last axis have the channel-last shape of the (B, G*dg, P) output;
   concatenated on axis 1 (D28, and cb34132 before it) they have shape (B, G*P, dg) - a different shape as soon as G > 1 and P, dg > 0 unless ... *)
Theorem decode_shape_last (G B P dg : nat) : cat_shape AxLast G (B, P, dg) = (B, P, G * dg).
Proof. reflexivity. Qed.
Theorem decode_shape_ax1_wrong (G B P dg : nat) : 1 < G -> 0 < dg -> cat_shape Ax1 G (B, P, dg) <> (B, P, G * dg).
Proof. intros HG Hd. unfold cat_shape. intros E. injection E as E1 E2. nia. Qed.

(* FSQ's level-index arithmetic (code * half_width + half_width, then round) is exact in binary32 for every level count up to 1000 - and is NOT in
   bfloat16 (8 significant bits) once the count passes 257: the top level of an even count L computes (L/2 - 1) + L/2 = L - 1, which needs 9 bits
   from L = 258 on and rounds to L (= the codebook size for a single dimension).  That is seed C13-f: codes cast to the activation dtype before
   codes_to_indices.  Finite sweeps by vm_compute, the bounds are part of the statements. *)
From Coq Require Import ZArith List Bool SpecFloat Lia.
From VQ Require Import Model.B32.
Import ListNotations.
Open Scope Z_scope.

Definition bf16_of_Z (z : Z) : spec_float := binary_normalize 8 128 z 0 false.
Definition bf16_add := SFadd 8 128.
Definition b32_top_level_sum (L : Z) : spec_float := b32_add (b32_of_Z (L / 2 - 1)) (b32_of_Z (L / 2)).
Definition bf16_top_level_sum (L : Z) : spec_float := bf16_add (bf16_of_Z (L / 2 - 1)) (bf16_of_Z (L / 2)).

Definition even_levels_258_1000 : list Z := filter Z.even (map (fun k => 258 + k) (zrange 743)).

Lemma in_even_levels L : 258 <= L <= 1000 -> Z.even L = true -> In L even_levels_258_1000.
Proof.
  intros H He. unfold even_levels_258_1000. apply filter_In. split; [|exact He].
  apply in_map_iff. exists (L - 258). split; [lia|].
  unfold zrange. apply in_map_iff. exists (Z.to_nat (L - 258)). split; [lia|]. apply in_seq. lia.
Qed.

Lemma b32_sweep : forallb (fun L => sf_eqb (b32_top_level_sum L) (b32_of_Z (L - 1))) even_levels_258_1000 = true.
Proof. vm_compute. reflexivity. Qed.
Lemma bf16_sweep : forallb (fun L => negb (sf_round_he (bf16_top_level_sum L) =? L - 1)) even_levels_258_1000 = true.
Proof. vm_compute. reflexivity. Qed.

(* binary32: the top level index of every even level count in [258, 1000] is computed exactly *)
Theorem b32_top_level_exact L : 258 <= L <= 1000 -> Z.even L = true -> sf_eqb (b32_top_level_sum L) (b32_of_Z (L - 1)) = true.
Proof. intros H He. exact (proj1 (forallb_forall _ _) b32_sweep L (in_even_levels L H He)). Qed.

(* bfloat16: for L = 512 the sum is 512, not 511 - an index equal to the codebook size *)
Example bf16_top_level_512 : sf_round_he (bf16_top_level_sum 512) = 512.
Proof. vm_compute. reflexivity. Qed.

(* bfloat16: for EVERY even level count in [258, 1000] the computed top level index is wrong *)
Theorem bf16_top_level_wrong L : 258 <= L <= 1000 -> Z.even L = true -> sf_round_he (bf16_top_level_sum L) <> L - 1.
Proof.
  intros H He. pose proof (proj1 (forallb_forall _ _) bf16_sweep L (in_even_levels L H He)) as Hs.
  apply negb_true_iff in Hs. apply Z.eqb_neq in Hs. exact Hs.
Qed.

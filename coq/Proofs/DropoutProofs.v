From Coq Require Import ZArith List Bool Lia.
From VQ Require Import Model.Dropout.
Import ListNotations.
Open Scope Z_scope.

Lemma cdiv_spec a b : 0 < b -> cdiv a b * b >= a /\ cdiv a b * b < a + b.
Proof.
  intros Hb. unfold cdiv.
  pose proof (Z.div_mod (- a) b ltac:(lia)) as H.
  pose proof (Z.mod_pos_bound (- a) b Hb) as Hm. nia.
Qed.

Lemma drop_index_spec m r : 1 <= m -> 0 <= r ->
  let d := drop_index m r in r <= d < r + m /\ (m | d + 1).
Proof.
  intros Hm Hr. unfold drop_index.
  destruct (Z.eqb_spec m 1) as [->|Hne]; simpl.
  - split; [lia|]. exists (r + 1). lia.
  - unfold round_up_multiple. destruct (cdiv_spec (r + 1) m ltac:(lia)) as [H1 H2].
    split; [lia|]. exists (cdiv (r + 1) m). lia.
Qed.

(* the executed layers are exactly the prefix {0..k-1}, k = kept n m r *)
Theorem dropout_prefix n m r qi : 1 <= m -> 0 <= r < n -> 0 <= qi < n ->
  skipped qi (drop_index m r) = false <-> qi < kept n m r.
Proof.
  intros Hm Hr Hq. unfold skipped, kept.
  destruct (drop_index_spec m r Hm ltac:(lia)) as [Hd _].
  destruct (Z.ltb_spec (drop_index m r) qi); split; intros; try discriminate; try reflexivity; lia.
Qed.

Theorem dropout_kept_bounds n cutoff m r : 1 <= m -> 0 <= cutoff -> cutoff <= r < n ->
  cutoff < kept n m r <= n.
Proof.
  intros Hm Hc Hr. unfold kept.
  destruct (drop_index_spec m r Hm ltac:(lia)) as [Hd _]. lia.
Qed.

Theorem dropout_kept_multiple n m r : 1 <= m -> 0 <= r < n ->
  (m | kept n m r) \/ kept n m r = n.
Proof.
  intros Hm Hr. unfold kept.
  destruct (drop_index_spec m r Hm ltac:(lia)) as [Hd Hdiv].
  destruct (Z.le_gt_cases n (drop_index m r + 1)).
  - right. lia.
  - left. rewrite Z.min_r by lia. exact Hdiv.
Qed.

(* multiple_of = 1 : every depth in (cutoff, n] is reachable by the oracle value r = k - 1 *)
Theorem dropout_every_depth_m1 n cutoff k : 0 <= cutoff -> cutoff < k <= n ->
  exists r, cutoff <= r < n /\ kept n 1 r = k.
Proof. intros Hc Hk. exists (k - 1). split; [lia|]. unfold kept, drop_index. simpl. lia. Qed.

(* general multiple_of: every admissible depth (a multiple of m in (cutoff, n], or n itself) is reached *)
Theorem dropout_every_admissible_depth n cutoff m k : 1 <= m -> 0 <= cutoff -> cutoff < k <= n ->
  ((m | k) \/ k = n) -> cutoff < n ->
  exists r, cutoff <= r < n /\ kept n m r = k.
Proof.
  intros Hm Hc Hk Hadm Hn.
  destruct Hadm as [[q Hq] | ->].
  - (* k = q*m : r = max cutoff (k - m) works since drop_index rounds r+1 up to the next multiple *)
    exists (Z.max cutoff (k - 1)). split; [lia|].
    replace (Z.max cutoff (k - 1)) with (k - 1) by lia.
    unfold kept. destruct (drop_index_spec m (k - 1) Hm ltac:(lia)) as [Hd [q' Hq']].
    assert (Hq1 : q * m <= q' * m) by lia. assert (Hq2 : q' * m < (q + 1) * m) by lia.
    assert (q <= q') by nia. assert (q' < q + 1) by nia. assert (q' = q) by lia. subst q'.
    assert (drop_index m (k - 1) + 1 = k) by lia. lia.
  - exists (n - 1). split; [lia|]. unfold kept.
    destruct (drop_index_spec m (n - 1) Hm ltac:(lia)) as [Hd _]. lia.
Qed.

(* dropped layers form a suffix: once a layer is skipped all later ones are *)
Theorem dropout_suffix idx qi qj : skipped qi idx = true -> qi <= qj -> skipped qj idx = true.
Proof. unfold skipped. intros H Hle. apply Z.ltb_lt in H. apply Z.ltb_lt. lia. Qed.

(* never in eval, never with supplied indices, never for a single layer *)
Theorem dropout_never training enabled return_loss (flag : bool) (n : Z) :
  (training = false \/ return_loss = true \/ enabled = false) -> should_dropout training enabled return_loss = false.
Proof. unfold should_dropout. intros [H | [H | H]]; subst; repeat match goal with b : bool |- _ => destruct b end; reflexivity. Qed.
Theorem dropout_single_layer flag : dropout_enabled flag 1 = false.
Proof. unfold dropout_enabled. destruct flag; reflexivity. Qed.

Example dropout_example : drop_pattern 8 4 1 = [false; false; false; false; true; true; true; true] /\ kept 8 4 1 = 4 /\ kept 8 4 5 = 8 /\ kept 6 4 4 = 6.
Proof. vm_compute. auto. Qed.

(* C03: the EMA law of the codebook model, over the reals.  All statements are for every codebook size,
   dimension, batch, decay, eps and history (induction), about Model.Core instantiated at R_ops. *)
From Coq Require Import ZArith List Bool Reals Lra Lia.
From VQ Require Import Num Model.Vec Model.Core.
From VQ.Gen Require Import k_ema_inplace k_laplace.
Import ListNotations.
Open Scope R_scope.

Notation Rv := (list R).

(* ---------- shared list lemmas ---------- *)
Lemma map2_length {A B C} (f : A -> B -> C) (a : list A) (b : list B) :
  length (map2 f a b) = Nat.min (length a) (length b).
Proof. revert b; induction a as [|x a IH]; intros [|y b]; simpl; auto. Qed.

Lemma nth_map2 {A B C} (f : A -> B -> C) (a : list A) (b : list B) (j : nat) (da : A) (db : B) (dc : C) :
  (j < length a)%nat -> (j < length b)%nat -> nth j (map2 f a b) dc = f (nth j a da) (nth j b db).
Proof.
  revert b j; induction a as [|x a IH]; intros [|y b] [|j] Ha Hb; simpl in *; try lia; auto.
  apply IH; lia.
Qed.

Lemma nth_map_in {A B} (f : A -> B) (l : list A) (j : nat) (da : A) (db : B) :
  (j < length l)%nat -> nth j (map f l) db = f (nth j l da).
Proof.
  intros Hj. rewrite (nth_indep _ db (f da)) by (rewrite map_length; exact Hj). apply map_nth.
Qed.

Lemma nth_map_seq {A} (f : nat -> A) (K j : nat) (dflt : A) :
  (j < K)%nat -> nth j (map f (seq 0 K)) dflt = f j.
Proof.
  intros Hj. rewrite (nth_map_in f (seq 0 K) j 0%nat dflt) by (rewrite seq_length; exact Hj).
  rewrite seq_nth by exact Hj. reflexivity.
Qed.

Lemma Forall_map2 {A B C} (P : C -> Prop) (f : A -> B -> C) (a : list A) (b : list B) :
  (forall x y, In x a -> In y b -> P (f x y)) -> Forall P (map2 f a b).
Proof.
  revert b; induction a as [|x a IH]; intros [|y b] H; simpl; constructor.
  - apply H; left; reflexivity.
  - apply IH. intros x' y' Hx Hy. apply H; right; assumption.
Qed.

Lemma map2_id_l {A B} (f : A -> B -> A) (a : list A) (b : list B) :
  (forall x y, In x a -> In y b -> f x y = x) -> (length a <= length b)%nat -> map2 f a b = a.
Proof.
  revert b; induction a as [|x a IH]; intros [|y b] H Hl; simpl in *; try lia; auto.
  f_equal.
  - apply H; left; reflexivity.
  - apply IH; [|lia]. intros x' y' Hx Hy. apply H; right; assumption.
Qed.

Lemma Forall_nth_P {A} (P : A -> Prop) (l : list A) (j : nat) (dflt : A) :
  Forall P l -> (j < length l)%nat -> P (nth j l dflt).
Proof. intros HF Hj. rewrite Forall_forall in HF. apply HF, nth_In, Hj. Qed.

Lemma fsum_cons (x : R) (l : list R) : fsum R_ops (x :: l) = x + fsum R_ops l.
Proof. reflexivity. Qed.
Lemma fsum_nil : fsum R_ops [] = 0.
Proof. reflexivity. Qed.

Lemma ofnat_INR (n : nat) : ofnat R_ops n = INR n.
Proof. unfold ofnat. cbn [ofZ R_ops]. symmetry. apply INR_IZR_INZ. Qed.

Lemma vadd_vzero_l (d : nat) (v : list R) : length v = d -> vadd R_ops (vzero R_ops d) v = v.
Proof.
  revert v; induction d as [|d IH]; intros [|x v] Hl; try discriminate; [reflexivity|].
  injection Hl as Hl. unfold vadd, vzero in *. cbn [repeat map2]. rewrite IH by exact Hl.
  f_equal. apply Rplus_0_l.
Qed.

Lemma vsum_length (d : nat) (vs : list (list R)) :
  Forall (fun v => length v = d) vs -> length (vsum R_ops d vs) = d.
Proof.
  induction 1 as [|v vs Hv Hvs IH].
  - unfold vsum, vzero. apply repeat_length.
  - change (vsum R_ops d (v :: vs)) with (vadd R_ops v (vsum R_ops d vs)).
    unfold vadd. rewrite map2_length, Hv, IH. apply Nat.min_id.
Qed.

Lemma sel_rows_length (d : nat) (xs : list (list R)) (ims : list (nat * bool)) (j : nat) :
  Forall (fun v => length v = d) xs ->
  Forall (fun v => length v = d) (map2 (fun x im => if sel j im then x else vzero R_ops d) xs ims).
Proof.
  intros Hxs. apply Forall_map2. intros x im Hx _. destruct (sel j im).
  - rewrite Forall_forall in Hxs. apply Hxs, Hx.
  - unfold vzero. apply repeat_length.
Qed.

Lemma sum_j_length (d : nat) (xs : list (list R)) (ims : list (nat * bool)) (j : nat) :
  Forall (fun v => length v = d) xs -> length (sum_j R_ops d xs ims j) = d.
Proof. intros Hxs. unfold sum_j. apply vsum_length, sel_rows_length, Hxs. Qed.

Lemma ema_vec_length (a b : list R) (decay : R) :
  length (ema_vec R_ops a b decay) = Nat.min (length a) (length b).
Proof. unfold ema_vec. apply map2_length. Qed.

(* ---------- scalar level ---------- *)
Lemma ema_scalar (old new decay : R) : k_ema_inplace R_ops old new decay = decay * old + (1 - decay) * new.
Proof. unfold k_ema_inplace, lerp. cbn [add sub mul one R_ops]. ring. Qed.

(* history of one scalar statistic *)
Definition ema_hist (decay : R) (news : list R) (c0 : R) : R :=
  fold_left (fun c n => k_ema_inplace R_ops c n decay) news c0.
(* weighted sum  sum_i decay^(n-1-i) * news_i  *)
Fixpoint wsum (decay : R) (news : list R) : R :=
  match news with
  | [] => 0
  | n :: t => decay ^ (length t) * n + wsum decay t
  end.
Lemma wsum_zero (decay : R) (news : list R) : Forall (fun n => n = 0) news -> wsum decay news = 0.
Proof.
  induction 1 as [|n t Hn Ht IH]; [reflexivity|]. cbn [wsum]. rewrite Hn, IH. ring.
Qed.
Lemma ema_hist_closed_form (decay : R) (news : list R) (c0 : R) :
  ema_hist decay news c0 = decay ^ (length news) * c0 + (1 - decay) * wsum decay news.
Proof.
  unfold ema_hist. revert c0. induction news as [|n t IH]; intros c0.
  - simpl. ring.
  - cbn [fold_left]. rewrite IH, ema_scalar. cbn [length wsum]. rewrite <- tech_pow_Rmult. ring.
Qed.

Lemma ema_hist_decay_one (news : list R) (c0 : R) : ema_hist 1 news c0 = c0.
Proof. rewrite ema_hist_closed_form, pow1. ring. Qed.

Lemma ema_hist_never_hit (decay : R) (news : list R) (c0 : R) :
  Forall (fun n => n = 0) news -> ema_hist decay news c0 = decay ^ (length news) * c0.
Proof. intros Hz. rewrite ema_hist_closed_form, (wsum_zero decay news Hz). ring. Qed.

(* ---------- one step on the codebook state ---------- *)
(* well-shaped state: K codes, K sums of dimension d *)
Definition wf (d : nat) (s : cstate R) : Prop :=
  length (embed_avg s) = length (cluster_size s) /\ Forall (fun v => length v = d) (embed_avg s).

Lemma counts_length (K : nat) (ims : list (nat * bool)) : length (counts R_ops K ims) = K.
Proof. unfold counts. rewrite map_length. apply seq_length. Qed.
Lemma sums_length (K d : nat) (xs : list Rv) (ims : list (nat * bool)) : length (sums R_ops K d xs ims) = K.
Proof. unfold sums. rewrite map_length. apply seq_length. Qed.
Lemma sums_row_length (K d : nat) (xs : list Rv) (ims : list (nat * bool)) (j : nat) :
  Forall (fun v => length v = d) xs -> (j < K)%nat -> length (nth j (sums R_ops K d xs ims) []) = d.
Proof. intros Hxs Hj. unfold sums. rewrite nth_map_seq by exact Hj. apply sum_j_length, Hxs. Qed.

(* usage counts move toward the batch counts by (1 - decay) *)
Lemma ema_counts_law (decay : R) (d : nat) (s : cstate R) (xs : list Rv) (ims : list (nat * bool)) (j : nat) :
  (j < length (cluster_size s))%nat ->
  nth j (cluster_size (ema_accumulate R_ops decay d s xs ims)) 0 =
  decay * nth j (cluster_size s) 0 + (1 - decay) * count_j R_ops ims j.
Proof.
  intros Hj. unfold ema_accumulate. cbn [cluster_size]. unfold ema_vec.
  rewrite (nth_map2 _ _ _ j 0 0 0) by (try rewrite counts_length; exact Hj).
  rewrite ema_scalar. unfold counts. rewrite nth_map_seq by exact Hj. reflexivity.
Qed.

(* running sums move toward the batch sums by (1 - decay), coordinate-wise *)
Lemma ema_sums_law (decay : R) (d : nat) (s : cstate R) (xs : list Rv) (ims : list (nat * bool)) (j i : nat) :
  wf d s -> Forall (fun v => length v = d) xs -> (j < length (cluster_size s))%nat -> (i < d)%nat ->
  nth i (nth j (embed_avg (ema_accumulate R_ops decay d s xs ims)) []) 0 =
  decay * nth i (nth j (embed_avg s) []) 0 + (1 - decay) * nth i (sum_j R_ops d xs ims j) 0.
Proof.
  intros [Hlen Hrows] Hxs Hj Hi. unfold ema_accumulate. cbn [embed_avg]. unfold vec in *.
  rewrite (nth_map2 _ _ _ j [] [] []) by (try rewrite sums_length; try rewrite Hlen; exact Hj).
  assert (Hrow : length (nth j (embed_avg s) []) = d).
  { apply (Forall_nth_P (fun v => length v = d)); [exact Hrows | rewrite Hlen; exact Hj]. }
  assert (Hsrow : length (nth j (sums R_ops (length (cluster_size s)) d xs ims) []) = d).
  { apply sums_row_length; assumption. }
  unfold vec in *. unfold ema_vec. rewrite (nth_map2 _ _ _ i 0 0 0) by (try rewrite Hrow; try rewrite Hsrow; exact Hi).
  rewrite ema_scalar. unfold sums. rewrite nth_map_seq by exact Hj. reflexivity.
Qed.

Lemma ema_accumulate_keeps_embed decay d s xs ims :
  embed (ema_accumulate R_ops decay d s xs ims) = embed s /\ initted (ema_accumulate R_ops decay d s xs ims) = initted s.
Proof. split; reflexivity. Qed.

Lemma ema_accumulate_wf decay d s xs ims :
  wf d s -> Forall (fun v => length v = d) xs -> wf d (ema_accumulate R_ops decay d s xs ims) /\
  length (cluster_size (ema_accumulate R_ops decay d s xs ims)) = length (cluster_size s).
Proof.
  intros [Hlen Hrows] Hxs. unfold wf, ema_accumulate. cbn [embed_avg cluster_size].
  rewrite map2_length, ema_vec_length, sums_length, counts_length, Hlen, Nat.min_id.
  split; [split|]; try reflexivity.
  apply Forall_map2. intros a b Ha Hb. rewrite ema_vec_length.
  rewrite Forall_forall in Hrows. rewrite (Hrows a Ha).
  unfold sums in Hb. apply in_map_iff in Hb. destruct Hb as [j [Hb _]]. subst b.
  rewrite sum_j_length by exact Hxs. apply Nat.min_id.
Qed.

(* with decay = 1 the statistics never move *)
Lemma ema_decay_one_fixed (d : nat) (s : cstate R) (xs : list Rv) (ims : list (nat * bool)) :
  wf d s -> Forall (fun v => length v = d) xs ->
  cluster_size (ema_accumulate R_ops 1 d s xs ims) = cluster_size s /\
  embed_avg (ema_accumulate R_ops 1 d s xs ims) = embed_avg s.
Proof.
  intros [Hlen Hrows] Hxs. unfold ema_accumulate. cbn [embed_avg cluster_size]. split.
  - unfold ema_vec. apply map2_id_l; [|rewrite counts_length; lia].
    intros x y _ _. rewrite ema_scalar. ring.
  - apply map2_id_l; [|rewrite sums_length, Hlen; lia].
    intros a b Ha Hb. unfold ema_vec. apply map2_id_l.
    + intros x y _ _. rewrite ema_scalar. ring.
    + rewrite Forall_forall in Hrows. rewrite (Hrows a Ha).
      unfold sums in Hb. apply in_map_iff in Hb. destruct Hb as [j [Hb _]]. subst b.
      rewrite sum_j_length by exact Hxs. lia.
Qed.

(* each codebook entry = running sum / Laplace-smoothed count *)
Definition smoothed_j (eps : R) (cs : list R) (j : nat) : R :=
  (nth j cs 0 + eps) / (fsum R_ops cs + INR (length cs) * eps) * fsum R_ops cs.
Lemma smoothed_unfold (eps : R) (cs : list R) :
  smoothed R_ops eps cs =
  map (fun c => (c + eps) / (fsum R_ops cs + INR (length cs) * eps) * fsum R_ops cs) cs.
Proof.
  unfold smoothed, k_laplace. rewrite ofnat_INR. reflexivity.
Qed.
Lemma smoothed_length (eps : R) (cs : list R) : length (smoothed R_ops eps cs) = length cs.
Proof. unfold smoothed. apply map_length. Qed.
Lemma fsum_map_smooth (eps D T : R) (l : list R) :
  fsum R_ops (map (fun c => (c + eps) / D * T) l) = (fsum R_ops l + INR (length l) * eps) / D * T.
Proof.
  induction l as [|x l IH].
  - cbn [map length]. rewrite fsum_nil. simpl. unfold Rdiv. ring.
  - cbn [map length]. rewrite !fsum_cons, IH, S_INR. unfold Rdiv. ring.
Qed.
Lemma fsum_ones (cs : list R) : Forall (fun c => c = 1) cs -> fsum R_ops cs = INR (length cs).
Proof.
  induction 1 as [|c cs Hc Hcs IH]; [reflexivity|].
  rewrite fsum_cons, IH, Hc. cbn [length]. rewrite S_INR. ring.
Qed.
Lemma smoothed_law (eps : R) (cs : list R) (j : nat) : (j < length cs)%nat ->
  nth j (smoothed R_ops eps cs) 0 = smoothed_j eps cs j.
Proof. intros Hj. rewrite smoothed_unfold. rewrite (nth_map_in _ cs j 0 0) by exact Hj. reflexivity. Qed.
Lemma normalise_law (eps : R) (s : cstate R) (j i : nat) (d : nat) :
  wf d s -> (j < length (cluster_size s))%nat -> (i < d)%nat ->
  nth i (nth j (embed (normalise R_ops eps (fun v => v) s)) []) 0 =
  nth i (nth j (embed_avg s) []) 0 / smoothed_j eps (cluster_size s) j.
Proof.
  intros [Hlen Hrows] Hj Hi. unfold normalise. cbn [embed]. unfold vec in *.
  rewrite (nth_map2 _ _ _ j [] 0 []) by (try rewrite smoothed_length; try rewrite Hlen; exact Hj).
  rewrite smoothed_law by exact Hj. unfold vdivs. cbn [div R_ops].
  assert (Hrow : length (nth j (embed_avg s) []) = d).
  { apply (Forall_nth_P (fun v => length v = d)); [exact Hrows | rewrite Hlen; exact Hj]. }
  unfold vec in *. rewrite (nth_map_in _ _ i 0 0) by (rewrite Hrow; exact Hi). reflexivity.
Qed.
Lemma normalise_keeps_stats eps post s :
  embed_avg (normalise R_ops eps post s) = embed_avg s /\ cluster_size (normalise R_ops eps post s) = cluster_size s
  /\ initted (normalise R_ops eps post s) = initted s.
Proof. repeat split; reflexivity. Qed.

(* total smoothed mass equals total mass; every smoothed count is positive, so never-hit codes stay well defined *)
Lemma smoothed_mass (eps : R) (cs : list R) :
  fsum R_ops cs + INR (length cs) * eps <> 0 -> fsum R_ops (smoothed R_ops eps cs) = fsum R_ops cs.
Proof. intros HD. rewrite smoothed_unfold, fsum_map_smooth. field. exact HD. Qed.
Lemma smoothed_positive (eps : R) (cs : list R) (j : nat) :
  0 < eps -> Forall (fun c => 0 <= c) cs -> 0 < fsum R_ops cs -> (j < length cs)%nat -> 0 < smoothed_j eps cs j.
Proof.
  intros Heps Hpos Htot Hj. unfold smoothed_j.
  assert (Hc : 0 <= nth j cs 0) by (apply (Forall_nth_P (fun c => 0 <= c)); assumption).
  assert (Hn : 0 <= INR (length cs) * eps) by (apply Rmult_le_pos; [apply pos_INR | lra]).
  apply Rmult_lt_0_compat; [|exact Htot]. apply Rdiv_lt_0_compat; lra.
Qed.

Lemma smoothed_ones (eps : R) (cs : list R) :
  0 < eps -> (0 < length cs)%nat -> Forall (fun c => c = 1) cs -> Forall (fun c => c = 1) (smoothed R_ops eps cs).
Proof.
  intros Heps HK Hones. rewrite smoothed_unfold, (fsum_ones cs Hones).
  assert (HKr : 0 < INR (length cs)) by (apply lt_0_INR; exact HK).
  rewrite Forall_forall in *. intros y Hy. apply in_map_iff in Hy. destruct Hy as [c [Hy Hc]].
  subst y. rewrite (Hones c Hc). field. nra.
Qed.
(* fresh module (counts all 1, sums = codes): normalisation is the identity, so with decay = 1 the codebook never moves *)
Lemma normalise_fresh_identity (eps : R) (s : cstate R) (d : nat) :
  0 < eps -> (0 < length (cluster_size s))%nat -> wf d s ->
  Forall (fun c => c = 1) (cluster_size s) -> embed_avg s = embed s ->
  embed (normalise R_ops eps (fun v => v) s) = embed s.
Proof.
  intros Heps HK [Hlen Hrows] Hones Hea. rewrite <- Hea. unfold normalise. cbn [embed].
  apply map2_id_l; [|rewrite smoothed_length, Hlen; lia].
  intros a c _ Hc. pose proof (smoothed_ones eps (cluster_size s) Heps HK Hones) as Hsm.
  rewrite Forall_forall in Hsm. rewrite (Hsm c Hc). unfold vdivs. cbn [div R_ops].
  rewrite <- (map_id a) at 2. apply map_ext. intros x. field.
Qed.

(* ---------- histories ---------- *)
(* a history of training batches on one codebook: accumulate, then normalise *)
Definition train_step (decay eps : R) (d : nat) (s : cstate R) (b : list Rv * list (nat * bool)) : cstate R :=
  normalise R_ops eps (fun v => v) (ema_accumulate R_ops decay d s (fst b) (snd b)).
Definition train_hist (decay eps : R) (d : nat) (bs : list (list Rv * list (nat * bool))) (s : cstate R) : cstate R :=
  fold_left (train_step decay eps d) bs s.

(* generic closed form for any fold whose step obeys the count law *)
Lemma fold_counts_closed_form (decay : R) (st : cstate R -> (list Rv * list (nat * bool)) -> cstate R)
  (bs : list (list Rv * list (nat * bool))) (s : cstate R) (j : nat) :
  (forall s' b, length (cluster_size (st s' b)) = length (cluster_size s')) ->
  (forall s' b, (j < length (cluster_size s'))%nat ->
     nth j (cluster_size (st s' b)) 0 = decay * nth j (cluster_size s') 0 + (1 - decay) * count_j R_ops (snd b) j) ->
  (j < length (cluster_size s))%nat ->
  nth j (cluster_size (fold_left st bs s)) 0 =
  decay ^ (length bs) * nth j (cluster_size s) 0
  + (1 - decay) * wsum decay (map (fun b => count_j R_ops (snd b) j) bs).
Proof.
  intros Hlen Hlaw. revert s. induction bs as [|b bs IH]; intros s Hj.
  - simpl. ring.
  - cbn [fold_left map wsum length]. rewrite IH by (rewrite Hlen; exact Hj).
    rewrite Hlaw by exact Hj. rewrite map_length, <- tech_pow_Rmult. ring.
Qed.
Lemma acc_cs_length (decay : R) (d : nat) (s : cstate R) (xs : list Rv) (ims : list (nat * bool)) :
  length (cluster_size (ema_accumulate R_ops decay d s xs ims)) = length (cluster_size s).
Proof.
  unfold ema_accumulate. cbn [cluster_size]. rewrite ema_vec_length, counts_length. apply Nat.min_id.
Qed.
Lemma train_step_cs_length (decay eps : R) (d : nat) (s : cstate R) (b : list Rv * list (nat * bool)) :
  length (cluster_size (train_step decay eps d s b)) = length (cluster_size s).
Proof. unfold train_step, normalise. cbn [cluster_size]. apply acc_cs_length. Qed.
Lemma train_step_one_stats (eps : R) (d : nat) (s : cstate R) (b : list Rv * list (nat * bool)) :
  wf d s -> Forall (fun v => length v = d) (fst b) ->
  cluster_size (train_step 1 eps d s b) = cluster_size s /\ embed_avg (train_step 1 eps d s b) = embed_avg s.
Proof.
  intros Hwf Hb. unfold train_step, normalise. cbn [cluster_size embed_avg].
  apply ema_decay_one_fixed; assumption.
Qed.
Lemma normalise_embed_ext (eps : R) (post : Rv -> Rv) (s1 s2 : cstate R) :
  cluster_size s1 = cluster_size s2 -> embed_avg s1 = embed_avg s2 ->
  embed (normalise R_ops eps post s1) = embed (normalise R_ops eps post s2).
Proof. intros Hcs Hea. unfold normalise. cbn [embed]. rewrite Hcs, Hea. reflexivity. Qed.
Lemma wf_ext (d : nat) (s s' : cstate R) :
  wf d s -> cluster_size s' = cluster_size s -> embed_avg s' = embed_avg s -> wf d s'.
Proof. unfold wf. intros Hwf Hcs Hea. rewrite Hcs, Hea. exact Hwf. Qed.
Lemma hist_counts_closed_form (decay eps : R) (d : nat) (bs : list (list Rv * list (nat * bool))) (s : cstate R) (j : nat) :
  (j < length (cluster_size s))%nat ->
  nth j (cluster_size (train_hist decay eps d bs s)) 0 =
  decay ^ (length bs) * nth j (cluster_size s) 0
  + (1 - decay) * wsum decay (map (fun b => count_j R_ops (snd b) j) bs).
Proof.
  intros Hj. unfold train_hist. apply fold_counts_closed_form; [| |exact Hj].
  - intros s' b. apply train_step_cs_length.
  - intros s' b Hj'. unfold train_step.
    destruct (normalise_keeps_stats eps (fun v => v) (ema_accumulate R_ops decay d s' (fst b) (snd b))) as [_ [Hcs _]].
    rewrite Hcs. apply ema_counts_law, Hj'.
Qed.

Lemma hist_never_hit (decay eps : R) (d : nat) (bs : list (list Rv * list (nat * bool))) (s : cstate R) (j : nat) :
  (j < length (cluster_size s))%nat -> Forall (fun b => count_j R_ops (snd b) j = 0) bs ->
  nth j (cluster_size (train_hist decay eps d bs s)) 0 = decay ^ (length bs) * nth j (cluster_size s) 0.
Proof.
  intros Hj Hz. rewrite hist_counts_closed_form by exact Hj.
  rewrite wsum_zero; [ring|]. induction Hz as [|b bs' Hb Hbs IH]; simpl; constructor; assumption.
Qed.

Lemma hist_decay_one (eps : R) (d : nat) (bs : list (list Rv * list (nat * bool))) (s : cstate R) :
  wf d s -> Forall (fun b => Forall (fun v => length v = d) (fst b)) bs ->
  cluster_size (train_hist 1 eps d bs s) = cluster_size s /\ embed_avg (train_hist 1 eps d bs s) = embed_avg s /\
  (bs <> [] -> embed (train_hist 1 eps d bs s) = embed (normalise R_ops eps (fun v => v) s)).
Proof.
  revert s. induction bs as [|b bs IH]; intros s Hwf Hbs.
  - split; [reflexivity | split; [reflexivity | intros Hne; contradiction Hne; reflexivity]].
  - inversion Hbs as [|b' bs' Hb Hbs']; subst b' bs'.
    change (train_hist 1 eps d (b :: bs) s) with (train_hist 1 eps d bs (train_step 1 eps d s b)).
    destruct (train_step_one_stats eps d s b Hwf Hb) as [Hcs Hea].
    assert (Hwf' : wf d (train_step 1 eps d s b)) by (apply (wf_ext d s); assumption).
    destruct (IH (train_step 1 eps d s b) Hwf' Hbs') as [Hc [He Hem]].
    split; [rewrite Hc; exact Hcs | split; [rewrite He; exact Hea | intros _]].
    destruct bs as [|b2 bs2].
    + cbn [train_hist fold_left]. unfold train_step. apply normalise_embed_ext.
      * apply (ema_decay_one_fixed d s (fst b) (snd b) Hwf Hb).
      * apply (ema_decay_one_fixed d s (fst b) (snd b) Hwf Hb).
    + rewrite Hem by discriminate. apply normalise_embed_ext; assumption.
Qed.

Lemma hist_decay_one_fresh (eps : R) (d : nat) (bs : list (list Rv * list (nat * bool))) (s : cstate R) :
  0 < eps -> (0 < length (cluster_size s))%nat -> wf d s -> Forall (fun b => Forall (fun v => length v = d) (fst b)) bs ->
  Forall (fun c => c = 1) (cluster_size s) -> embed_avg s = embed s ->
  embed (train_hist 1 eps d bs s) = embed s.
Proof.
  intros Heps HK Hwf Hbs Hones Hea.
  destruct bs as [|b bs]; [reflexivity|].
  destruct (hist_decay_one eps d (b :: bs) s Hwf Hbs) as [_ [_ Hem]].
  rewrite Hem by discriminate. apply (normalise_fresh_identity eps s d); assumption.
Qed.

(* shared codebook: L layers accumulate into the one state, then ONE normalisation *)
Definition shared_step (decay eps : R) (d : nat) (layers : list (list Rv * list (nat * bool))) (s : cstate R) : cstate R :=
  normalise R_ops eps (fun v => v) (fold_left (fun s b => ema_accumulate R_ops decay d s (fst b) (snd b)) layers s).
Lemma shared_counts_closed_form (decay eps : R) (d : nat) (layers : list (list Rv * list (nat * bool))) (s : cstate R) (j : nat) :
  (j < length (cluster_size s))%nat ->
  nth j (cluster_size (shared_step decay eps d layers s)) 0 =
  decay ^ (length layers) * nth j (cluster_size s) 0
  + (1 - decay) * wsum decay (map (fun b => count_j R_ops (snd b) j) layers).
Proof.
  intros Hj. unfold shared_step.
  destruct (normalise_keeps_stats eps (fun v => v)
    (fold_left (fun s0 b => ema_accumulate R_ops decay d s0 (fst b) (snd b)) layers s)) as [_ [Hcs _]].
  rewrite Hcs. apply fold_counts_closed_form; [| |exact Hj].
  - intros s' b. apply acc_cs_length.
  - intros s' b Hj'. apply ema_counts_law, Hj'.
Qed.

(* masked tokens contribute nothing: statistics of (xs, idx, mask) = statistics of the valid tokens only *)
Definition valid_only {A} (ims : list (nat * bool)) (xs : list A) : list A :=
  map snd (filter (fun p => snd (fst p)) (combine ims xs)).
Lemma count_masked (ims : list (nat * bool)) (j : nat) :
  count_j R_ops ims j = count_j R_ops (filter (fun im => snd im) ims) j.
Proof.
  unfold count_j, fsum. induction ims as [|[i m] ims IH]; [reflexivity|].
  destruct m; cbn [filter snd map fold_right]; rewrite IH.
  - reflexivity.
  - unfold sel. cbn [snd andb zero add R_ops]. apply Rplus_0_l.
Qed.
Lemma count_is_number_of_valid_hits (ims : list (nat * bool)) (j : nat) :
  count_j R_ops ims j = INR (length (filter (fun im => snd im && Nat.eqb (fst im) j) ims)).
Proof.
  unfold count_j, fsum, sel. induction ims as [|im ims IH]; [reflexivity|].
  cbn [filter map fold_right]. rewrite IH.
  destruct (snd im && Nat.eqb (fst im) j); cbn [length zero one add R_ops].
  - rewrite S_INR. ring.
  - ring.
Qed.
Lemma sum_masked (d : nat) (xs : list Rv) (ims : list (nat * bool)) (j : nat) :
  length xs = length ims -> Forall (fun v => length v = d) xs ->
  sum_j R_ops d xs ims j = sum_j R_ops d (valid_only ims xs) (filter (fun im => snd im) ims) j.
Proof.
  intros Hlen Hxs. revert ims Hlen. unfold sum_j, valid_only, vsum.
  induction Hxs as [|x xs Hx Hxs IH]; intros [|[i m] ims] Hlen; try discriminate; [reflexivity|].
  injection Hlen as Hlen. specialize (IH ims Hlen).
  destruct m; cbn [combine filter map map2 fst snd fold_right] in *.
  - rewrite IH. reflexivity.
  - unfold sel at 1. cbn [snd andb]. rewrite <- IH. apply vadd_vzero_l.
    apply (vsum_length d), sel_rows_length, Hxs.
Qed.

(* C15 / C20: generic facts about the named store, for every history of forwards and optimiser steps. *)
From Coq Require Import String List Bool.
From VQ Require Import Model.Inventory Model.Params.
Import ListNotations.

Section P.
Context {V : Type}.
Notation store := (@store V).

Lemma apply_writes_untouched (allowed : string -> bool) (ws : list (string * V)) (s : store) (n : string) :
  allowed n = false -> apply_writes allowed s ws n = s n.
Proof.
  intros Hn. unfold apply_writes. revert s.
  induction ws as [|w ws' IH]; intros s; simpl.
  - reflexivity.
  - rewrite IH. destruct (allowed (fst w)) eqn:Ea.
    + unfold supd. destruct (String.eqb n (fst w)) eqn:En.
      * apply String.eqb_eq in En. subst n. congruence.
      * reflexivity.
    + reflexivity.
Qed.

(* helper: apply_writes respects pointwise equality of stores *)
Lemma apply_writes_ext (allowed : string -> bool) (ws : list (string * V)) (s s' : store) :
  (forall n, s n = s' n) -> forall n, apply_writes allowed s ws n = apply_writes allowed s' ws n.
Proof.
  unfold apply_writes. revert s s'.
  induction ws as [|w ws' IH]; intros s s' Heq n; simpl.
  - apply Heq.
  - apply IH. intros m. destruct (allowed (fst w)) eqn:Ea.
    + unfold supd. destruct (String.eqb m (fst w)) eqn:Em.
      * reflexivity.
      * apply Heq.
    + apply Heq.
Qed.

(* a name that neither the forward methods nor the optimiser may write keeps its value through every history *)
Theorem untouched_forever (inv : list entry) (fw : string -> bool) (ps : list sop) (s : store) (n : string) :
  fw n = false -> is_param inv n = false -> srun inv fw s ps n = s n.
Proof.
  intros Hfw Hp. unfold srun. revert s.
  induction ps as [|p ps' IH]; intros s; simpl.
  - reflexivity.
  - rewrite IH. destruct p as [ws|ws]; simpl.
    + apply apply_writes_untouched. exact Hfw.
    + apply apply_writes_untouched. exact Hp.
Qed.

(* optimiser steps alone never change a non-parameter, whatever values they write *)
Theorem optimiser_writes_parameters_only (inv : list entry) (fw : string -> bool) (ws : list (string * V)) (s : store) (n : string) :
  is_param inv n = false -> sstep inv fw s (SOpt ws) n = s n.
Proof.
  intros Hp. simpl. apply apply_writes_untouched. exact Hp.
Qed.

(* checkpoint round trip: if every non-persistent entry still has its constructor value, reloading state_dict into a
   freshly constructed module reproduces the store exactly *)
Definition ctor_invariant (inv : list entry) (ctor s : store) : Prop :=
  forall n, is_persistent inv n = false -> s n = ctor n.
Theorem roundtrip (inv : list entry) (ctor s : store) :
  ctor_invariant inv ctor s -> forall n, rebuild inv ctor (persist inv s) n = s n.
Proof.
  intros Hinv n. unfold rebuild, persist.
  destruct (is_persistent inv n) eqn:Hpn.
  - reflexivity.
  - symmetry. apply Hinv. exact Hpn.
Qed.

(* the invariant is preserved by every history, provided the forward methods write persistent entries only *)
Theorem ctor_invariant_preserved (inv : list entry) (fw : string -> bool) (ctor : store) (ps : list sop) (s : store) :
  (forall n, fw n = true -> is_persistent inv n = true) -> (forall n, is_param inv n = true -> is_persistent inv n = true) ->
  ctor_invariant inv ctor s -> ctor_invariant inv ctor (srun inv fw s ps).
Proof.
  intros Hfw Hpar Hinv n Hn.
  assert (Hfn : fw n = false).
  { destruct (fw n) eqn:E; [|reflexivity]. apply Hfw in E. congruence. }
  assert (Hpn : is_param inv n = false).
  { destruct (is_param inv n) eqn:E; [|reflexivity]. apply Hpar in E. congruence. }
  rewrite (untouched_forever inv fw ps s n Hfn Hpn). apply Hinv. exact Hn.
Qed.

(* hence: after any history, save + load into a fresh module gives the same store, and so the same future *)
Theorem roundtrip_after_any_history (inv : list entry) (fw : string -> bool) (ctor : store) (ps : list sop) :
  (forall n, fw n = true -> is_persistent inv n = true) -> (forall n, is_param inv n = true -> is_persistent inv n = true) ->
  forall n, rebuild inv ctor (persist inv (srun inv fw ctor ps)) n = srun inv fw ctor ps n.
Proof.
  intros Hfw Hpar n. apply roundtrip.
  apply (ctor_invariant_preserved inv fw ctor ps ctor Hfw Hpar).
  intros m Hm. reflexivity.
Qed.

Theorem same_store_same_future (inv : list entry) (fw : string -> bool) (s s' : store) (ps : list sop) :
  (forall n, s n = s' n) -> forall n, srun inv fw s ps n = srun inv fw s' ps n.
Proof.
  unfold srun. revert s s'.
  induction ps as [|p ps' IH]; intros s s' Heq n; simpl.
  - apply Heq.
  - apply IH. intros m. destruct p as [ws|ws]; simpl; apply apply_writes_ext; exact Heq.
Qed.

(* the converse, as a refutation pattern: an entry that a forward writes but that is not persistent breaks the round trip *)
Theorem nonpersistent_written_breaks_roundtrip (inv : list entry) (ctor : store) (n : string) (v v0 : V) :
  is_persistent inv n = false -> ctor n = Some v0 -> v <> v0 ->
  rebuild inv ctor (persist inv (supd ctor n v)) n <> supd ctor n v n.
Proof.
  intros Hnp Hc Hv. unfold rebuild, persist. rewrite Hnp. rewrite Hc.
  unfold supd. rewrite String.eqb_refl.
  intros Heq. injection Heq as Heq'. apply Hv. symmetry. exact Heq'.
Qed.

End P.

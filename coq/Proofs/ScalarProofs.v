(* C05: FSQ and LFQ quantize each scalar to the level the papers prescribe.  Over the reals, every L >= 2. *)
From Coq Require Import ZArith Reals List Bool Lra Lia.
From Flocq Require Import Core.
From VQ Require Import Num Model.Vec Model.Scalar.
From VQ.Gen Require Import k_fsq_bound k_fsq_sym_bound k_lfq_quantize.
Import ListNotations.
Open Scope R_scope.

(* ---------- tanh / atanh in exp / ln form *)
Lemma th_is_tanh (x : R) : th x = tanh x.
Proof.
  unfold th, tanh, sinh, cosh.
  replace (2 * x) with (x + x) by ring.
  rewrite exp_plus, exp_Ropp.
  pose proof (exp_pos x) as Hx.
  field. split; nra.
Qed.
Lemma th_range (x : R) : -1 < th x < 1.
Proof.
  unfold th. pose proof (exp_pos (2 * x)) as Ha. set (a := exp (2 * x)) in *.
  split.
  - apply Rmult_lt_reg_r with (a + 1); [lra|].
    unfold Rdiv; rewrite Rmult_assoc, Rinv_l by lra; lra.
  - apply Rmult_lt_reg_r with (a + 1); [lra|].
    unfold Rdiv; rewrite Rmult_assoc, Rinv_l by lra; lra.
Qed.
Lemma frac_increasing (a b : R) : 0 < a -> a < b -> (a - 1) / (a + 1) < (b - 1) / (b + 1).
Proof.
  intros Ha Hab.
  apply Rminus_gt_0_lt.
  replace ((b - 1) / (b + 1) - (a - 1) / (a + 1)) with (2 * (b - a) * / ((a + 1) * (b + 1))) by (field; lra).
  apply Rmult_lt_0_compat; [lra|].
  apply Rinv_0_lt_compat. apply Rmult_lt_0_compat; lra.
Qed.
Lemma th_increasing (x y : R) : x < y -> th x < th y.
Proof.
  intros H. unfold th. apply frac_increasing; [apply exp_pos|].
  apply exp_increasing; lra.
Qed.
Lemma th_odd (x : R) : th (- x) = - th x.
Proof.
  unfold th. replace (2 * - x) with (- (2 * x)) by ring. rewrite exp_Ropp.
  pose proof (exp_pos (2 * x)) as Ha. set (a := exp (2 * x)) in *.
  field. split; lra.
Qed.
Lemma th_zero : th 0 = 0.
Proof. unfold th. rewrite Rmult_0_r, exp_0. field. Qed.
Lemma th_ath (y : R) : -1 < y < 1 -> th (ath y) = y.
Proof.
  intros [H1 H2]. unfold th, ath.
  replace (2 * (/ 2 * ln ((1 + y) / (1 - y)))) with (ln ((1 + y) / (1 - y))) by field.
  rewrite exp_ln.
  - field. split; lra.
  - apply Rmult_lt_0_compat; [lra|]. apply Rinv_0_lt_compat; lra.
Qed.

(* ---------- FSQ.bound *)
(* the regenerated kernel is the paper's bounding function *)
Lemma fsq_bound_formula (eps : R) (L : Z) (z : R) :
  fsq_bound eps L z = th (z + fsq_shift eps L) * fsq_half_l eps L - fsq_offset L.
Proof. reflexivity. Qed.
Definition eps_ok (eps : R) (L : Z) : Prop := 0 < eps /\ eps * (IZR L - 1) < 1.
Lemma fsq_offset_cases (L : Z) :
  (Z.even L = true /\ fsq_offset L = / 2) \/ (Z.even L = false /\ fsq_offset L = 0).
Proof. unfold fsq_offset. destruct (Z.even L); [left|right]; split; reflexivity. Qed.
Lemma fsq_half_l_gt (eps : R) (L : Z) : (2 <= L)%Z -> 0 < eps -> (IZR L - 1) / 2 < fsq_half_l eps L.
Proof.
  intros HL He. apply IZR_le in HL. unfold fsq_half_l.
  assert (H : (IZR L - 1) * 1 < (IZR L - 1) * (1 + eps)) by (apply Rmult_lt_compat_l; lra).
  lra.
Qed.
Lemma fsq_half_l_pos (eps : R) (L : Z) : (2 <= L)%Z -> 0 < eps -> / 2 < fsq_half_l eps L.
Proof.
  intros HL He. pose proof (fsq_half_l_gt eps L HL He). apply IZR_le in HL. lra.
Qed.
Lemma div_in_unit (o h : R) : 0 < h -> - h < o < h -> -1 < o / h < 1.
Proof.
  intros Hh [H1 H2]. split.
  - apply Rmult_lt_reg_r with h; [lra|].
    unfold Rdiv; rewrite Rmult_assoc, Rinv_l by lra; lra.
  - apply Rmult_lt_reg_r with h; [lra|].
    unfold Rdiv; rewrite Rmult_assoc, Rinv_l by lra; lra.
Qed.
Lemma fsq_offset_in_range (eps : R) (L : Z) : (2 <= L)%Z -> 0 < eps -> -1 < fsq_offset L / fsq_half_l eps L < 1.
Proof.
  intros HL He. pose proof (fsq_half_l_pos eps L HL He) as Hh.
  apply div_in_unit; [lra|].
  destruct (fsq_offset_cases L) as [[_ ->]|[_ ->]]; lra.
Qed.
Theorem fsq_bound_range (eps : R) (L : Z) (z : R) : (2 <= L)%Z -> 0 < eps ->
  - fsq_half_l eps L - fsq_offset L < fsq_bound eps L z < fsq_half_l eps L - fsq_offset L.
Proof.
  intros HL He. rewrite fsq_bound_formula.
  pose proof (fsq_half_l_pos eps L HL He) as Hh.
  destruct (th_range (z + fsq_shift eps L)) as [H1 H2].
  set (t := th (z + fsq_shift eps L)) in *. set (h := fsq_half_l eps L) in *.
  assert (t * h < 1 * h) by (apply Rmult_lt_compat_r; lra).
  assert (-1 * h < t * h) by (apply Rmult_lt_compat_r; lra).
  lra.
Qed.
Theorem fsq_bound_increasing (eps : R) (L : Z) (z z' : R) : (2 <= L)%Z -> 0 < eps -> z < z' -> fsq_bound eps L z < fsq_bound eps L z'.
Proof.
  intros HL He Hz. rewrite !fsq_bound_formula.
  pose proof (fsq_half_l_pos eps L HL He) as Hh.
  assert (H : th (z + fsq_shift eps L) < th (z' + fsq_shift eps L)) by (apply th_increasing; lra).
  assert (th (z + fsq_shift eps L) * fsq_half_l eps L < th (z' + fsq_shift eps L) * fsq_half_l eps L)
    by (apply Rmult_lt_compat_r; lra).
  lra.
Qed.
(* z = 0 is mapped to bound 0 for every L (the shift compensates the half-level offset of even L) *)
Theorem fsq_bound_zero (eps : R) (L : Z) : (2 <= L)%Z -> 0 < eps -> fsq_bound eps L 0 = 0.
Proof.
  intros HL He. rewrite fsq_bound_formula, Rplus_0_l. unfold fsq_shift.
  rewrite th_ath by (apply fsq_offset_in_range; assumption).
  pose proof (fsq_half_l_pos eps L HL He) as Hh.
  field. lra.
Qed.

(* ---------- helpers: round-half-even, integer halves *)
Lemma th_le (x y : R) : x <= y -> th x <= th y.
Proof. intros [H| ->]; [left; apply th_increasing; assumption|right; reflexivity]. Qed.
Lemma fsq_bound_le (eps : R) (L : Z) (z z' : R) : (2 <= L)%Z -> 0 < eps -> z <= z' -> fsq_bound eps L z <= fsq_bound eps L z'.
Proof. intros HL He [H| ->]; [left; apply fsq_bound_increasing; assumption|right; reflexivity]. Qed.
Lemma rnd_le (x y : R) : x <= y -> (rnd x <= rnd y)%Z.
Proof. intros H. unfold rnd. apply Zrnd_le; [apply valid_rnd_N|assumption]. Qed.
Lemma rnd_IZR (n : Z) : rnd (IZR n) = n.
Proof. unfold rnd. apply Zrnd_IZR. apply valid_rnd_N. Qed.
Lemma rnd_bounds (x : R) : IZR (rnd x) - / 2 <= x <= IZR (rnd x) + / 2.
Proof.
  unfold rnd. pose proof (Znearest_half (fun t => negb (Z.even t)) x) as H.
  apply Rabs_le_inv in H. lra.
Qed.
Lemma rnd_below (x : R) (m : Z) : x < IZR m + / 2 -> (rnd x <= m)%Z.
Proof.
  intros H. pose proof (rnd_bounds x) as [H1 _].
  assert (H2 : (rnd x < m + 1)%Z) by (apply lt_IZR; rewrite plus_IZR; lra).
  lia.
Qed.
Lemma rnd_above (x : R) (m : Z) : IZR m - / 2 < x -> (m <= rnd x)%Z.
Proof.
  intros H. pose proof (rnd_bounds x) as [_ H1].
  assert (H2 : (m - 1 < rnd x)%Z) by (apply lt_IZR; rewrite minus_IZR; lra).
  lia.
Qed.
Lemma rnd_opp (x : R) : rnd (- x) = (- rnd x)%Z.
Proof.
  unfold rnd. rewrite Znearest_opp. f_equal.
  unfold Znearest. case Rcompare; trivial.
  apply (f_equal (fun (b : bool) => if b then Zceil x else Zfloor x)).
  rewrite Bool.negb_involutive, Z.even_opp, Z.even_add.
  destruct (Z.even (Zfloor x)); reflexivity.
Qed.
Lemma even_half (L : Z) : Z.even L = true -> L = (2 * (L / 2))%Z.
Proof.
  intros H. apply Z.even_spec in H. destruct H as [m ->].
  rewrite Z.mul_comm, Z.div_mul by lia. ring.
Qed.
Lemma odd_half (L : Z) : Z.even L = false -> L = (2 * (L / 2) + 1)%Z.
Proof.
  intros H. rewrite <- Z.negb_odd in H. apply Bool.negb_false_iff in H.
  apply Z.odd_spec in H. destruct H as [m ->].
  replace ((2 * m + 1) / 2)%Z with m; [ring|].
  apply Z.div_unique with 1%Z; lia.
Qed.
Lemma half_ge_1 (L : Z) : (2 <= L)%Z -> (1 <= L / 2)%Z.
Proof. intros H. apply Z.div_le_lower_bound; lia. Qed.
Lemma fsq_half_l_lt (eps : R) (L : Z) : eps_ok eps L -> fsq_half_l eps L < IZR L / 2.
Proof. intros [He H]. unfold fsq_half_l. nra. Qed.
(* IZR L expressed through the integer half, together with the offset *)
Lemma fsq_parity (L : Z) :
  (IZR L = 2 * IZR (L / 2) /\ fsq_offset L = / 2) \/ (IZR L = 2 * IZR (L / 2) + 1 /\ fsq_offset L = 0).
Proof.
  destruct (fsq_offset_cases L) as [[Hev Hoff]|[Hev Hoff]]; [left|right]; split; try assumption.
  - rewrite (even_half L Hev) at 1. rewrite mult_IZR. reflexivity.
  - rewrite (odd_half L Hev) at 1. rewrite plus_IZR, mult_IZR. reflexivity.
Qed.
(* the rounded bound stays within the L levels *)
Lemma fsq_rnd_range (eps : R) (L : Z) (z : R) : (2 <= L)%Z -> eps_ok eps L ->
  (- (L / 2) <= rnd (fsq_bound eps L z) /\ rnd (fsq_bound eps L z) + L / 2 <= L - 1)%Z.
Proof.
  intros HL Hok. pose proof (fsq_half_l_lt eps L Hok) as Hh. destruct Hok as [He Hok].
  pose proof (fsq_bound_range eps L z HL He) as [Hlo Hhi].
  split.
  - apply rnd_above. rewrite opp_IZR.
    destruct (fsq_parity L) as [[HL2 Hoff]|[HL2 Hoff]]; rewrite Hoff in *; lra.
  - assert (H : (rnd (fsq_bound eps L z) <= L - 1 - L / 2)%Z); [|lia].
    apply rnd_below. rewrite !minus_IZR.
    destruct (fsq_parity L) as [[HL2 Hoff]|[HL2 Hoff]]; rewrite Hoff in *; lra.
Qed.
Lemma half_le (L : Z) : (2 <= L)%Z -> (L - 1 - L / 2 <= L / 2)%Z.
Proof.
  intros HL. apply le_IZR. rewrite !minus_IZR.
  destruct (fsq_parity L) as [[HL2 _]|[HL2 _]]; lra.
Qed.
Lemma div_in_unit_le (o h : R) : 0 < h -> - h <= o <= h -> -1 <= o / h <= 1.
Proof.
  intros Hh [H1 H2]. split.
  - apply Rmult_le_reg_r with h; [lra|].
    unfold Rdiv; rewrite Rmult_assoc, Rinv_l by lra; lra.
  - apply Rmult_le_reg_r with h; [lra|].
    unfold Rdiv; rewrite Rmult_assoc, Rinv_l by lra; lra.
Qed.
(* exact pre-image of an integer bound value *)
Lemma fsq_bound_witness (eps : R) (L : Z) (n : Z) : (2 <= L)%Z -> 0 < eps ->
  - (IZR L - 1) / 2 <= IZR n + fsq_offset L <= (IZR L - 1) / 2 ->
  fsq_bound eps L (ath ((IZR n + fsq_offset L) / fsq_half_l eps L) - fsq_shift eps L) = IZR n.
Proof.
  intros HL He Hn. rewrite fsq_bound_formula.
  pose proof (fsq_half_l_gt eps L HL He) as Hg. pose proof (fsq_half_l_pos eps L HL He) as Hh.
  replace (ath ((IZR n + fsq_offset L) / fsq_half_l eps L) - fsq_shift eps L + fsq_shift eps L)
    with (ath ((IZR n + fsq_offset L) / fsq_half_l eps L)) by ring.
  rewrite th_ath by (apply div_in_unit; lra).
  field. lra.
Qed.
Lemma level_offset_range (L k : Z) : (2 <= L)%Z -> (0 <= k < L)%Z ->
  - (IZR L - 1) / 2 <= IZR (k - L / 2) + fsq_offset L <= (IZR L - 1) / 2.
Proof.
  intros HL [Hk0 Hk1]. rewrite minus_IZR.
  apply IZR_le in Hk0. assert (Hk2 : (k <= L - 1)%Z) by lia. apply IZR_le in Hk2. rewrite minus_IZR in Hk2.
  destruct (fsq_parity L) as [[HL2 Hoff]|[HL2 Hoff]]; rewrite Hoff; lra.
Qed.

(* ---------- the quantizer: a non-decreasing step function with exactly L plateaus inside [-1, 1] *)
Theorem fsq_monotone (eps : R) (L : Z) (z z' : R) : (2 <= L)%Z -> 0 < eps -> z <= z' -> fsq_q eps L z <= fsq_q eps L z'.
Proof.
  intros HL He Hz. unfold fsq_q, Rdiv. apply Rmult_le_compat_r.
  - left. apply Rinv_0_lt_compat. apply IZR_lt. pose proof (half_ge_1 L HL). lia.
  - apply IZR_le, rnd_le, fsq_bound_le; assumption.
Qed.
(* the level index is always one of the L declared levels, and the output is that level's grid value *)
Theorem fsq_level_in_range (eps : R) (L : Z) (z : R) : (2 <= L)%Z -> eps_ok eps L -> (0 <= fsq_level eps L z < L)%Z.
Proof.
  intros HL Hok. unfold fsq_level. pose proof (fsq_rnd_range eps L z HL Hok). lia.
Qed.
Theorem fsq_q_is_grid_value (eps : R) (L : Z) (z : R) : (2 <= L)%Z ->
  fsq_q eps L z = (IZR (fsq_level eps L z) - IZR (L / 2)) / IZR (L / 2).
Proof.
  intros HL. unfold fsq_q, fsq_level. rewrite plus_IZR. unfold Rdiv. f_equal. ring.
Qed.
Theorem fsq_q_in_unit_interval (eps : R) (L : Z) (z : R) : (2 <= L)%Z -> eps_ok eps L -> -1 <= fsq_q eps L z <= 1.
Proof.
  intros HL Hok. unfold fsq_q.
  pose proof (fsq_rnd_range eps L z HL Hok) as [H1 H2]. pose proof (half_le L HL) as H3.
  pose proof (half_ge_1 L HL) as H4.
  apply div_in_unit_le.
  - apply IZR_lt. lia.
  - rewrite <- opp_IZR. split; apply IZR_le; lia.
Qed.
(* every one of the L levels is produced by some input *)
Theorem fsq_every_level_reachable (eps : R) (L : Z) (k : Z) : (2 <= L)%Z -> eps_ok eps L -> (0 <= k < L)%Z ->
  exists z : R, fsq_level eps L z = k.
Proof.
  intros HL [He _] Hk.
  exists (ath ((IZR (k - L / 2) + fsq_offset L) / fsq_half_l eps L) - fsq_shift eps L).
  unfold fsq_level. rewrite fsq_bound_witness by (try assumption; apply level_offset_range; assumption).
  rewrite rnd_IZR. ring.
Qed.
(* thresholds: below / above the pre-image of a half-integer the output is on the corresponding side *)
Theorem fsq_threshold (eps : R) (L : Z) (z : R) (m : Z) : (2 <= L)%Z -> 0 < eps ->
  (fsq_bound eps L z < IZR m + / 2 -> (rnd (fsq_bound eps L z) <= m)%Z) /\
  (IZR m + / 2 < fsq_bound eps L z -> (m + 1 <= rnd (fsq_bound eps L z))%Z).
Proof.
  intros _ _. split; intros H.
  - apply rnd_below; assumption.
  - apply rnd_above. rewrite plus_IZR. lra.
Qed.
(* odd L: odd-symmetric *)
Theorem fsq_odd_symmetric (eps : R) (L : Z) (z : R) : (2 <= L)%Z -> 0 < eps -> Z.even L = false ->
  fsq_q eps L (- z) = - fsq_q eps L z.
Proof.
  intros HL He Hev.
  assert (Hoff : fsq_offset L = 0) by (unfold fsq_offset; rewrite Hev; reflexivity).
  assert (Hsh : fsq_shift eps L = 0).
  { unfold fsq_shift, ath. rewrite Hoff.
    replace (0 / fsq_half_l eps L) with 0 by (unfold Rdiv; ring).
    replace ((1 + 0) / (1 - 0)) with 1 by field. rewrite ln_1. ring. }
  assert (Hb : fsq_bound eps L (- z) = - fsq_bound eps L z).
  { rewrite !fsq_bound_formula, Hsh, Hoff, !Rplus_0_r, th_odd. ring. }
  unfold fsq_q. rewrite Hb, rnd_opp, opp_IZR. unfold Rdiv. ring.
Qed.
(* saturation: the extreme levels are attained for all sufficiently large |z| *)
Theorem fsq_saturates (eps : R) (L : Z) : (2 <= L)%Z -> eps_ok eps L ->
  exists Zmax Zmin : R, (forall z, Zmax <= z -> fsq_level eps L z = (L - 1)%Z) /\ (forall z, z <= Zmin -> fsq_level eps L z = 0%Z).
Proof.
  intros HL Hok. pose proof Hok as [He _].
  exists (ath ((IZR ((L - 1) - L / 2) + fsq_offset L) / fsq_half_l eps L) - fsq_shift eps L).
  exists (ath ((IZR (0 - L / 2) + fsq_offset L) / fsq_half_l eps L) - fsq_shift eps L).
  split; intros z Hz.
  - pose proof (fsq_rnd_range eps L z HL Hok) as [_ H2].
    apply (fsq_bound_le eps L _ _ HL He) in Hz. apply rnd_le in Hz.
    rewrite fsq_bound_witness, rnd_IZR in Hz by (try assumption; apply level_offset_range; lia).
    unfold fsq_level. lia.
  - pose proof (fsq_rnd_range eps L z HL Hok) as [H1 _].
    apply (fsq_bound_le eps L _ _ HL He) in Hz. apply rnd_le in Hz.
    rewrite fsq_bound_witness, rnd_IZR in Hz by (try assumption; apply level_offset_range; lia).
    unfold fsq_level. lia.
Qed.

(* ---------- symmetry-preserving mode: the point of the uniform L-level grid on [-1, 1] nearest to tanh z *)
Theorem fsq_sym_is_grid_value (L : Z) (z : R) : (2 <= L)%Z ->
  fsq_sym_q L z = 2 / (IZR L - 1) * IZR (fsq_sym_level L z) - 1.
Proof.
  intros _. unfold fsq_sym_q, k_fsq_sym_bound, fsq_sym_level, R_ops. cbn [sub mul div add one ofZ].
  replace (1 / 2) with (/ 2) by lra. reflexivity.
Qed.
Lemma fsq_sym_t_range (L : Z) (z : R) : (2 <= L)%Z -> 0 < (IZR L - 1) * (th z + 1) / 2 < IZR L - 1.
Proof.
  intros HL. apply IZR_le in HL. destruct (th_range z) as [H1 H2].
  assert (0 < (IZR L - 1) * (th z + 1)) by (apply Rmult_lt_0_compat; lra).
  assert ((IZR L - 1) * (th z + 1) < (IZR L - 1) * 2) by (apply Rmult_lt_compat_l; lra).
  lra.
Qed.
Theorem fsq_sym_level_in_range (L : Z) (z : R) : (2 <= L)%Z -> (0 <= fsq_sym_level L z < L)%Z.
Proof.
  intros HL. pose proof (fsq_sym_t_range L z HL) as [H1 H2]. unfold fsq_sym_level.
  set (t := (IZR L - 1) * (th z + 1) / 2) in *. split.
  - apply Zfloor_lub. simpl. lra.
  - apply lt_IZR. pose proof (Zfloor_lb (t + / 2)). lra.
Qed.
Theorem fsq_sym_nearest_grid_point (L : Z) (z : R) : (2 <= L)%Z -> Rabs (fsq_sym_q L z - th z) <= / (IZR L - 1).
Proof.
  intros HL. rewrite fsq_sym_is_grid_value by assumption. unfold fsq_sym_level.
  apply IZR_le in HL.
  set (d := IZR L - 1) in *. assert (Hd : 1 <= d) by (unfold d; lra).
  set (w := th z). set (t := d * (w + 1) / 2).
  pose proof (Zfloor_lb (t + / 2)) as Hlb. pose proof (Zfloor_ub (t + / 2)) as Hub.
  set (n := IZR (Zfloor (t + / 2))) in *.
  assert (Hc : 0 < / d) by (apply Rinv_0_lt_compat; lra).
  replace (2 / d * n - 1 - w) with (2 * / d * (n - t)) by (unfold t; field; lra).
  assert (H1 : 0 <= / d * (t + / 2 - n)) by (apply Rmult_le_pos; lra).
  assert (H2 : 0 <= / d * (n + 1 - (t + / 2))) by (apply Rmult_le_pos; lra).
  apply Rabs_le. split; nra.
Qed.
Theorem fsq_sym_monotone (L : Z) (z z' : R) : (2 <= L)%Z -> z <= z' -> fsq_sym_q L z <= fsq_sym_q L z'.
Proof.
  intros HL Hz. rewrite !fsq_sym_is_grid_value by assumption. unfold fsq_sym_level.
  apply IZR_le in HL. apply th_le in Hz.
  assert (Hc : 0 < 2 / (IZR L - 1)) by (apply Rmult_lt_0_compat; [lra|apply Rinv_0_lt_compat; lra]).
  assert (Hm : (IZR L - 1) * (th z + 1) <= (IZR L - 1) * (th z' + 1)) by (apply Rmult_le_compat_l; lra).
  assert (Hf : (Zfloor ((IZR L - 1) * (th z + 1) / 2 + / 2) <= Zfloor ((IZR L - 1) * (th z' + 1) / 2 + / 2))%Z)
    by (apply Zfloor_le; lra).
  apply IZR_le in Hf.
  assert (2 / (IZR L - 1) * IZR (Zfloor ((IZR L - 1) * (th z + 1) / 2 + / 2))
          <= 2 / (IZR L - 1) * IZR (Zfloor ((IZR L - 1) * (th z' + 1) / 2 + / 2)))
    by (apply Rmult_le_compat_l; lra).
  lra.
Qed.

(* ---------- LFQ: +scale for positive, -scale for non-positive inputs *)
Theorem lfq_sign (s x : R) : (0 < x -> lfq_q s x = s) /\ (x <= 0 -> lfq_q s x = - s).
Proof.
  unfold lfq_q, k_lfq_quantize. simpl. split; intros H.
  - apply Rltb_true in H. rewrite H. reflexivity.
  - apply Rltb_false in H. rewrite H. reflexivity.
Qed.
Theorem lfq_two_values (s x : R) : lfq_q s x = s \/ lfq_q s x = - s.
Proof.
  unfold lfq_q, k_lfq_quantize. simpl. destruct (Rltb 0 x); [left|right]; reflexivity.
Qed.

(* ---------- position-wise: the value at one dimension / position is the scalar map of that entry alone *)
Theorem fsq_vector_is_map (eps : R) (levels : list Z) (zs : list R) (i : nat) : (i < length levels)%nat -> (i < length zs)%nat ->
  nth i (map2 (fun L z => fsq_q eps L z) levels zs) 0 = fsq_q eps (nth i levels 0%Z) (nth i zs 0).
Proof.
  revert zs i. induction levels as [|L ls IH]; intros zs i H1 H2; simpl in *; [lia|].
  destruct zs as [|z zs]; simpl in *; [lia|].
  destruct i as [|i]; [reflexivity|]. apply IH; lia.
Qed.

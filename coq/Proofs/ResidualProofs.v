(* C06 / C02 / C12: the residual loop and its decoder, over the reals; every number of layers, every per-layer
   quantizer (no assumption on it), every dimension. *)
From Coq Require Import ZArith List Bool Reals Lra Lia.
From VQ Require Import Proofs.CoreKmeans.
From VQ Require Import Num Model.Vec Model.Core Model.Residual Proofs.CoreNearest.
Import ListNotations.
Open Scope R_scope.

Notation Rv := (list R).
Notation layer := (@layerq R).

(* all layers keep the dimension: what they emit has the length of what they receive *)
Definition dim_ok (d : nat) (qs : list layer) : Prop :=
  Forall (fun q : layer => forall r acc, length r = d -> length (snd (q r acc)) = d) qs.

(* ====================================================================== helper library *)
Lemma nth_repeat_lt {A : Type} (a dflt : A) (n : nat) : forall i : nat, (i < n)%nat -> nth i (repeat a n) dflt = a.
Proof.
  induction n as [|n IH]; intros [|i] Hi; simpl; try lia; try reflexivity.
  apply IH. lia.
Qed.
Lemma nth_firstn_lt {A : Type} (l : list A) : forall (n k : nat) (dflt : A),
  (k < n)%nat -> nth k (firstn n l) dflt = nth k l dflt.
Proof.
  induction l as [|a l IH]; intros [|n] [|k] dflt Hk; simpl; try lia; try reflexivity.
  apply IH. lia.
Qed.
Lemma Forall_firstn_loc {A : Type} (P : A -> Prop) (l : list A) : forall n : nat, Forall P l -> Forall P (firstn n l).
Proof.
  induction l as [|a l IH]; intros [|n] H; simpl; try (constructor; fail).
  inversion H as [|a' l' Ha Hl]; subst. constructor; [exact Ha | apply IH; exact Hl].
Qed.
Lemma skipn_skipn_loc {A : Type} (a : nat) : forall (b : nat) (l : list A), skipn a (skipn b l) = skipn (a + b) l.
Proof.
  intros b. induction b as [|b IH]; intros l.
  - rewrite Nat.add_0_r. reflexivity.
  - rewrite Nat.add_succ_r. destruct l as [|y l].
    + simpl. destruct a; reflexivity.
    + simpl. apply IH.
Qed.
Lemma map2_app {A B C : Type} (f : A -> B -> C) (a1 a2 : list A) : forall (b1 b2 : list B),
  length a1 = length b1 -> map2 f (a1 ++ a2) (b1 ++ b2) = map2 f a1 b1 ++ map2 f a2 b2.
Proof.
  induction a1 as [|x a1 IH]; intros [|y b1] b2 H; simpl in *; try discriminate; [reflexivity|].
  f_equal. apply IH. lia.
Qed.
Lemma nth_map2 {A B C : Type} (f : A -> B -> C) : forall (a : list A) (b : list B) (k : nat) (da : A) (db : B) (dc : C),
  (k < length a)%nat -> (k < length b)%nat -> nth k (map2 f a b) dc = f (nth k a da) (nth k b db).
Proof.
  induction a as [|x a IH]; intros [|y b] [|k] da db dc Ha Hb; simpl in *; try lia; [reflexivity|].
  apply IH; lia.
Qed.
Lemma map_map2 {A B C D : Type} (g : C -> D) (f : A -> B -> C) : forall (a : list A) (b : list B),
  map g (map2 f a b) = map2 (fun x y => g (f x y)) a b.
Proof.
  induction a as [|x a IH]; intros [|y b]; simpl; try reflexivity. f_equal. apply IH.
Qed.

Lemma vsub_length (a b : Rv) : length (vsub R_ops a b) = Nat.min (length a) (length b).
Proof. apply map2_length. Qed.
Lemma vsub_zero_r (d : nat) (a : Rv) : length a = d -> vsub R_ops a (vzero R_ops d) = a.
Proof.
  intros <-. unfold vsub, vzero. induction a as [|x a IH]; simpl; [reflexivity|].
  f_equal; [ring | exact IH].
Qed.
Lemma vsub_vsub (a b c : Rv) : vsub R_ops (vsub R_ops a b) c = vsub R_ops a (vadd R_ops b c).
Proof.
  unfold vsub, vadd. revert b c; induction a as [|x a IH]; intros [|y b] [|z c]; simpl; auto.
  rewrite IH. f_equal. ring.
Qed.
Lemma vsum_app_zeros (d : nat) (vs : list Rv) (n : nat) :
  vsum R_ops d (vs ++ repeat (vzero R_ops d) n) = vsum R_ops d vs.
Proof.
  assert (Hz : fold_right (vadd R_ops) (vzero R_ops d) (repeat (vzero R_ops d) n) = vzero R_ops d).
  { induction n as [|n IH]; cbn [repeat fold_right]; [reflexivity|].
    rewrite IH. apply vadd_zero_zero. }
  unfold vsum. rewrite fold_right_app. unfold vec in *. rewrite Hz. reflexivity.
Qed.

Lemma rloop_cons (q : layer) (qs : list layer) (r acc : Rv) :
  rloop R_ops (q :: qs) r acc =
  (r, q r acc) :: rloop R_ops qs (vsub R_ops r (snd (q r acc))) (vadd R_ops acc (snd (q r acc))).
Proof. reflexivity. Qed.
Lemma residuals_cons (r : Rv) (ic : Z * Rv) (l : list (Rv * (Z * Rv))) :
  residuals_of ((r, ic) :: l) = r :: residuals_of l.
Proof. reflexivity. Qed.
Lemma indices_cons (r : Rv) (ic : Z * Rv) (l : list (Rv * (Z * Rv))) :
  indices_of ((r, ic) :: l) = fst ic :: indices_of l.
Proof. reflexivity. Qed.
Lemma codes_cons (r : Rv) (ic : Z * Rv) (l : list (Rv * (Z * Rv))) :
  codes_of ((r, ic) :: l) = snd ic :: codes_of l.
Proof. reflexivity. Qed.

Lemma dim_ok_cons (d : nat) (q : layer) (qs : list layer) : dim_ok d (q :: qs) ->
  (forall r acc : Rv, length r = d -> length (snd (q r acc)) = d) /\ dim_ok d qs.
Proof. intros H. inversion H as [|q' qs' Hq Hqs]; subst. split; assumption. Qed.

(* ====================================================================== the loop *)
Lemma rloop_length (qs : list layer) (r acc : Rv) : length (rloop R_ops qs r acc) = length qs.
Proof.
  revert r acc. induction qs as [|q qs IH]; intros r acc; [reflexivity|].
  rewrite rloop_cons. cbn [length]. f_equal. apply IH.
Qed.

(* one entry per layer, in layer order: indices, codes and residuals all have exactly one entry per layer *)
Theorem rloop_one_entry_per_layer (qs : list layer) (r acc : Rv) :
  length (indices_of (rloop R_ops qs r acc)) = length qs /\ length (codes_of (rloop R_ops qs r acc)) = length qs /\
  length (residuals_of (rloop R_ops qs r acc)) = length qs.
Proof.
  unfold indices_of, codes_of, residuals_of. rewrite !map_length, rloop_length. repeat split.
Qed.

(* every code and every residual has the dimension of the input *)
Lemma rloop_shapes (d : nat) (qs : list layer) : forall r acc : Rv, dim_ok d qs -> length r = d ->
  Forall (fun v : Rv => length v = d) (codes_of (rloop R_ops qs r acc)) /\
  Forall (fun v : Rv => length v = d) (residuals_of (rloop R_ops qs r acc)).
Proof.
  induction qs as [|q qs IH]; intros r acc Hd Hr.
  - split; constructor.
  - apply dim_ok_cons in Hd. destruct Hd as [Hq Hd].
    pose proof (Hq r acc Hr) as Hc.
    assert (Hr' : length (vsub R_ops r (snd (q r acc))) = d).
    { rewrite vsub_length. unfold vec in *. rewrite Hr, Hc. apply Nat.min_id. }
    destruct (IH (vsub R_ops r (snd (q r acc))) (vadd R_ops acc (snd (q r acc))) Hd Hr') as [IH1 IH2].
    rewrite rloop_cons, codes_cons, residuals_cons. split; constructor; assumption.
Qed.

(* the invariant from an arbitrary starting accumulator *)
Lemma rloop_invariant (d : nat) (qs : list layer) : forall (r acc : Rv) (k : nat),
  dim_ok d qs -> length r = d -> length acc = d -> (k < length qs)%nat ->
  nth k (residuals_of (rloop R_ops qs r acc)) [] =
    vsub R_ops r (vsum R_ops d (firstn k (codes_of (rloop R_ops qs r acc)))) /\
  (nth k (indices_of (rloop R_ops qs r acc)) 0%Z, nth k (codes_of (rloop R_ops qs r acc)) []) =
    nth k qs (fun _ _ => (0%Z, [])) (nth k (residuals_of (rloop R_ops qs r acc)) [])
      (vadd R_ops acc (vsum R_ops d (firstn k (codes_of (rloop R_ops qs r acc))))).
Proof.
  induction qs as [|q qs IH]; intros r acc k Hd Hr Hacc Hk; [simpl in Hk; lia|].
  apply dim_ok_cons in Hd. destruct Hd as [Hq Hd].
  pose proof (Hq r acc Hr) as Hc.
  rewrite rloop_cons, codes_cons, residuals_cons, indices_cons.
  destruct k as [|k].
  - cbn [nth firstn]. rewrite vsum_nil. split.
    + symmetry. apply vsub_zero_r. exact Hr.
    + rewrite (vadd_zero_r d acc Hacc). destruct (q r acc) as [i c]. reflexivity.
  - cbn [nth firstn]. rewrite vsum_cons.
    assert (Hr' : length (vsub R_ops r (snd (q r acc))) = d).
    { rewrite vsub_length. unfold vec in *. rewrite Hr, Hc. apply Nat.min_id. }
    assert (Hacc' : length (vadd R_ops acc (snd (q r acc))) = d).
    { rewrite vadd_length. unfold vec in *. rewrite Hacc, Hc. apply Nat.min_id. }
    assert (Hk' : (k < length qs)%nat) by (simpl in Hk; lia).
    destruct (IH (vsub R_ops r (snd (q r acc))) (vadd R_ops acc (snd (q r acc))) k Hd Hr' Hacc' Hk') as [IH1 IH2].
    split.
    + rewrite IH1. apply vsub_vsub.
    + rewrite IH2. rewrite vadd_assoc. reflexivity.
Qed.

(* layer k quantizes exactly the residual left by the layers before it:  r_k = x - sum_{i<k} code_i  and
   (index_k, code_k) = q_k (r_k, sum_{i<k} code_i) *)
Theorem residual_invariant (d : nat) (qs : list layer) (x : Rv) (k : nat) :
  dim_ok d qs -> length x = d -> (k < length qs)%nat ->
  let l := rloop R_ops qs x (vzero R_ops d) in
  nth k (residuals_of l) [] = vsub R_ops x (vsum R_ops d (firstn k (codes_of l))) /\
  (nth k (indices_of l) 0%Z, nth k (codes_of l) []) =
    nth k qs (fun _ _ => (0%Z, [])) (nth k (residuals_of l) []) (vsum R_ops d (firstn k (codes_of l))).
Proof.
  intros Hd Hx Hk l.
  destruct (rloop_invariant d qs x (vzero R_ops d) k Hd Hx (vzero_length d) Hk) as [H1 H2].
  fold l in H1, H2. split; [exact H1|].
  rewrite H2. rewrite vadd_zero_l; [reflexivity|].
  apply vsum_length. apply Forall_firstn_loc.
  apply (rloop_shapes d qs x (vzero R_ops d) Hd Hx).
Qed.

(* the output is the sum of the per-layer codes, and input = output + final residual *)
Theorem rforward_output_is_sum (d : nat) (qs : list layer) (kept : nat) (x : Rv) :
  fst (fst (rforward R_ops d qs kept x)) = vsum R_ops d (codes_of (rloop R_ops (firstn kept qs) x (vzero R_ops d))).
Proof. reflexivity. Qed.
Theorem rforward_all_codes_sum (d : nat) (qs : list layer) (kept : nat) (x : Rv) :
  dim_ok d qs -> length x = d ->
  vsum R_ops d (snd (rforward R_ops d qs kept x)) = fst (fst (rforward R_ops d qs kept x)).
Proof.
  intros Hd Hx. unfold rforward. cbn [fst snd]. apply vsum_app_zeros.
Qed.
Theorem rforward_entries (d : nat) (qs : list layer) (kept : nat) (x : Rv) :
  length (snd (fst (rforward R_ops d qs kept x))) = length qs /\ length (snd (rforward R_ops d qs kept x)) = length qs.
Proof.
  unfold rforward. cbn [fst snd]. unfold indices_of, codes_of.
  rewrite !app_length, !map_length, !repeat_length, rloop_length, firstn_length. split; lia.
Qed.

Lemma rloop_firstn (n : nat) : forall (qs : list layer) (r acc : Rv),
  rloop R_ops (firstn n qs) r acc = firstn n (rloop R_ops qs r acc).
Proof.
  induction n as [|n IH]; intros [|q qs] r acc; try reflexivity.
  cbn [firstn]. rewrite !rloop_cons. cbn [firstn]. f_equal. apply IH.
Qed.

(* quantize-dropout: layers at or beyond [kept] report -1 and a zero code; layers before it are exactly those of the
   undropped forward (the kept prefix does not depend on how much is dropped) *)
Theorem rforward_dropped_layers (d : nat) (qs : list layer) (kept : nat) (x : Rv) (k : nat) :
  (kept <= k < length qs)%nat ->
  nth k (snd (fst (rforward R_ops d qs kept x))) 0%Z = (-1)%Z /\ nth k (snd (rforward R_ops d qs kept x)) [] = vzero R_ops d.
Proof.
  intros Hk. unfold rforward. cbn [fst snd].
  pose proof (rloop_one_entry_per_layer (firstn kept qs) x (vzero R_ops d)) as (Hi & Hc & _).
  pose proof (firstn_length kept qs) as Hf.
  split.
  - rewrite app_nth2 by lia. apply nth_repeat_lt. lia.
  - rewrite app_nth2 by lia. apply nth_repeat_lt. lia.
Qed.
Theorem rforward_kept_prefix (d : nat) (qs : list layer) (kept : nat) (x : Rv) (k : nat) :
  (k < kept)%nat -> (k < length qs)%nat ->
  nth k (snd (fst (rforward R_ops d qs kept x))) 0%Z = nth k (snd (fst (rforward R_ops d qs (length qs) x))) 0%Z /\
  nth k (snd (rforward R_ops d qs kept x)) [] = nth k (snd (rforward R_ops d qs (length qs) x)) [].
Proof.
  intros Hk Hkq. unfold rforward. cbn [fst snd].
  pose proof (rloop_one_entry_per_layer (firstn kept qs) x (vzero R_ops d)) as (Hi & Hc & _).
  pose proof (rloop_one_entry_per_layer (firstn (length qs) qs) x (vzero R_ops d)) as (Hi' & Hc' & _).
  pose proof (firstn_length kept qs) as Hf.
  pose proof (firstn_length (length qs) qs) as Hf'.
  rewrite !(app_nth1 (indices_of _)) by lia. rewrite !(app_nth1 (codes_of _)) by lia.
  rewrite firstn_all, rloop_firstn. unfold indices_of, codes_of. rewrite <- !firstn_map.
  split; apply nth_firstn_lt; exact Hk.
Qed.

(* nearest-code layers keep the dimension *)
Lemma vq_dim_ok (d : nat) (cbs : list (list Rv)) :
  Forall (fun cb => cb <> [] /\ Forall (fun c : Rv => length c = d) cb) cbs ->
  dim_ok d (map (vq_layer R_ops (negcdist R_ops sqrt)) cbs).
Proof.
  induction 1 as [|cb cbs [Hne Hs] _ IH]; [constructor|].
  cbn [map]. constructor; [|exact IH].
  intros r acc Hr. unfold vq_layer. cbn [snd]. unfold lookup.
  apply CoreNearest.shaped_nth; [exact Hs|]. unfold select.
  pose proof (CoreNearest.argmax_first_lt _ (map_neq_nil (negcdist R_ops sqrt r) cb Hne)) as Hlt.
  rewrite map_length in Hlt. exact Hlt.
Qed.

(* with nearest-code layers every layer's index is a nearest code OF ITS RESIDUAL (C01 lifted to layer k) *)
Theorem layer_index_is_nearest_for_residual (d : nat) (cbs : list (list Rv)) (x : Rv) (k : nat) :
  Forall (fun cb => cb <> [] /\ Forall (fun c => length c = d) cb) cbs -> length x = d -> (k < length cbs)%nat ->
  let qs := map (vq_layer R_ops (negcdist R_ops sqrt)) cbs in
  let l := rloop R_ops qs x (vzero R_ops d) in
  exists i : nat, nth k (indices_of l) 0%Z = Z.of_nat i /\ nearest_rel (nth k cbs []) (nth k (residuals_of l) []) i /\
                  nth k (codes_of l) [] = nth i (nth k cbs []) [].
Proof.
  intros Hcb Hx Hk qs l.
  pose proof (vq_dim_ok d cbs Hcb) as Hd. fold qs in Hd.
  assert (Hkq : (k < length qs)%nat) by (unfold qs; rewrite map_length; exact Hk).
  pose proof (residual_invariant d qs x k Hd Hx Hkq) as Hinv. cbv zeta in Hinv. fold l in Hinv.
  destruct Hinv as [_ Hpair].
  assert (Hq : nth k qs (fun _ _ => (0%Z, [])) = vq_layer R_ops (negcdist R_ops sqrt) (nth k cbs [])).
  { unfold qs. apply nth_map_lt. exact Hk. }
  rewrite Hq in Hpair. unfold vq_layer in Hpair. cbv zeta in Hpair.
  injection Hpair as Hi Hc.
  exists (select R_ops (negcdist R_ops sqrt) (nth k cbs []) (nth k (residuals_of l) [])).
  split; [exact Hi|]. split; [|exact Hc].
  rewrite Forall_forall in Hcb. destruct (Hcb (nth k cbs []) (nth_In cbs [] Hk)) as [Hne Hs].
  apply select_euclid_nearest; [exact Hne|].
  assert (Hlen : length (nth k (residuals_of l) []) = d).
  { destruct (rloop_shapes d qs x (vzero R_ops d) Hd Hx) as [_ Hres]. fold l in Hres.
    rewrite Forall_forall in Hres. apply Hres. apply nth_In.
    unfold residuals_of, l. rewrite map_length, rloop_length. exact Hkq. }
  unfold vec in *. rewrite Hlen. exact Hs.
Qed.

(* ---- decoding *)
Lemma decode_entry_m1 (d : nat) (table : Z -> Rv) : decode_entry R_ops d table (-1)%Z = vzero R_ops d.
Proof. reflexivity. Qed.
Lemma map2_decode_minus_one (d : nat) (ts : list (Z -> Rv)) : forall n : nat,
  map2 (decode_entry R_ops d) ts (repeat (-1)%Z n) = repeat (vzero R_ops d) (Nat.min (length ts) n).
Proof.
  induction ts as [|t ts IH]; intros [|n]; try reflexivity.
  cbn [repeat map2 length Nat.min]. rewrite decode_entry_m1, IH. reflexivity.
Qed.
Lemma vsum_map2_decode_m1 (d : nat) (ts : list (Z -> Rv)) (n : nat) :
  vsum R_ops d (map2 (decode_entry R_ops d) ts (repeat (-1)%Z n)) = vzero R_ops d.
Proof. rewrite map2_decode_minus_one. exact (vsum_app_zeros d [] _). Qed.
Lemma rdecode_app_minus_one (d : nat) (ts1 ts2 : list (Z -> Rv)) (idx : list Z) (n : nat) :
  length idx = length ts1 -> n = length ts2 ->
  rdecode R_ops d (ts1 ++ ts2) (idx ++ repeat (-1)%Z n) = vsum R_ops d (map2 (decode_entry R_ops d) ts1 idx).
Proof.
  intros Hlen ->. unfold rdecode, rdecode_codes.
  rewrite !app_length, repeat_length, Hlen, Nat.sub_diag. cbn [repeat]. rewrite app_nil_r.
  rewrite map2_app by (symmetry; exact Hlen).
  rewrite map2_decode_minus_one. apply vsum_app_zeros.
Qed.
Lemma decode_vq_codes (d : nat) (cbs : list (list Rv)) : forall r acc : Rv,
  map2 (decode_entry R_ops d) (map vq_table cbs)
       (indices_of (rloop R_ops (map (vq_layer R_ops (negcdist R_ops sqrt)) cbs) r acc))
  = codes_of (rloop R_ops (map (vq_layer R_ops (negcdist R_ops sqrt)) cbs) r acc).
Proof.
  induction cbs as [|cb cbs IH]; intros r acc; [reflexivity|].
  cbn [map]. rewrite rloop_cons, indices_cons, codes_cons. cbn [map2]. f_equal; [|apply IH].
  unfold vq_layer. cbn [fst snd]. unfold decode_entry, vq_table.
  destruct (Z.eqb_spec (Z.of_nat (select R_ops (negcdist R_ops sqrt) cb r)) (-1)%Z) as [E|E]; [lia|].
  rewrite Nat2Z.id. reflexivity.
Qed.

(* decoding the returned indices reproduces the output; -1 decodes to zero; a coarse prefix decodes to the partial sum *)
Theorem decode_reproduces_forward (d : nat) (cbs : list (list Rv)) (kept : nat) (x : Rv) :
  Forall (fun cb => cb <> [] /\ Forall (fun c => length c = d) cb) cbs -> length x = d ->
  let qs := map (vq_layer R_ops (negcdist R_ops sqrt)) cbs in
  rdecode R_ops d (map (vq_table) cbs) (snd (fst (rforward R_ops d qs kept x))) = fst (fst (rforward R_ops d qs kept x)).
Proof.
  intros Hcb Hx qs. subst qs. unfold rforward. cbn [fst snd].
  rewrite firstn_map.
  replace (map (@vq_table R) cbs) with (map (@vq_table R) (firstn kept cbs) ++ map (@vq_table R) (skipn kept cbs))
    by (rewrite <- map_app, firstn_skipn; reflexivity).
  rewrite rdecode_app_minus_one.
  - rewrite decode_vq_codes. reflexivity.
  - unfold indices_of. rewrite !map_length, rloop_length, map_length. reflexivity.
  - rewrite !map_length, firstn_length, skipn_length. unfold vec in *. lia.
Qed.
Theorem decode_minus_one_is_zero (d : nat) (table : Z -> Rv) : decode_entry R_ops d table (-1)%Z = vzero R_ops d.
Proof. reflexivity. Qed.
Theorem decode_prefix_is_partial_sum (d : nat) (tables : list (Z -> Rv)) (idx : list Z) (k : nat) :
  (k <= length idx)%nat -> length idx = length tables -> Forall (fun i => i <> (-1)%Z) (firstn k idx) ->
  Forall (fun t : Z -> Rv => forall i, length (t i) = d) tables ->
  rdecode R_ops d tables (firstn k idx) = vsum R_ops d (firstn k (map2 (fun t i => t i) tables idx)).
Proof.
  revert idx k. induction tables as [|t ts IH]; intros idx k Hk Hlen Hne Hsh.
  - destruct idx as [|i idx]; [|simpl in Hlen; discriminate].
    destruct k as [|k]; [reflexivity | simpl in Hk; lia].
  - destruct idx as [|i idx]; [simpl in Hlen; discriminate|]. destruct k as [|k].
    + cbn [firstn]. unfold rdecode, rdecode_codes. cbn [app length]. rewrite Nat.sub_0_r.
      rewrite vsum_map2_decode_m1. reflexivity.
    + cbn [firstn map2] in *. rewrite vsum_cons.
      inversion Hne as [|i' l' Hi Hrest]; subst. inversion Hsh as [|t' l'' Ht Hts]; subst.
      rewrite <- (IH idx k); [| simpl in Hk; lia | simpl in Hlen; lia | exact Hrest | exact Hts].
      unfold rdecode, rdecode_codes. cbn [app length Nat.sub map2]. rewrite vsum_cons. f_equal.
      unfold decode_entry. destruct (Z.eqb_spec i (-1)%Z) as [E|E]; [contradiction | reflexivity].
Qed.

(* scalar variants: layer k emits s_k * q (r_k / s_k) *)
Theorem scaled_layer_law (q : Rv -> Z * Rv) (s : R) (r acc : Rv) :
  scaled_layer R_ops q s r acc = (fst (q (vdivs R_ops r s)), vscale R_ops s (snd (q (vdivs R_ops r s)))).
Proof. reflexivity. Qed.

(* groups: consecutive equal chunks, quantized independently, outputs concatenated and per-group results in group order *)
Lemma chunks_length (n g : nat) (x : Rv) : length (chunks n g x) = g.
Proof.
  revert x. induction g as [|g IH]; intros x; [reflexivity|].
  cbn [chunks length]. f_equal. apply IH.
Qed.
Lemma chunks_concat (n g : nat) (x : Rv) : length x = (n * g)%nat -> concat (chunks n g x) = x.
Proof.
  revert x. induction g as [|g IH]; intros x Hx.
  - rewrite Nat.mul_0_r in Hx. destruct x as [|a x]; [reflexivity | simpl in Hx; discriminate].
  - cbn [chunks concat]. rewrite IH; [apply firstn_skipn|]. rewrite skipn_length. lia.
Qed.
Theorem grouped_is_independent {A} (n : nat) (fs : list (Rv -> Rv * A)) (x : Rv) (g : nat) (a0 : A) :
  (g < length fs)%nat ->
  nth g (snd (grouped n fs x)) a0 = snd (nth g fs (fun _ => ([], a0)) (nth g (chunks n (length fs) x) [])) /\
  fst (grouped n fs x) = concat (map2 (fun f c => fst (f c)) fs (chunks n (length fs) x)).
Proof.
  intros Hg. unfold grouped. cbn [fst snd]. rewrite !map_map2. split; [|reflexivity].
  assert (Hg' : (g < length (chunks n (length fs) x))%nat) by (rewrite chunks_length; exact Hg).
  exact (nth_map2 (fun (f : Rv -> Rv * A) (c : Rv) => snd (f c)) fs (chunks n (length fs) x) g
                  (fun _ => ([], a0)) [] a0 Hg Hg').
Qed.
Theorem grouped_chunk_content (n g k : nat) (x : Rv) : (k < g)%nat -> length x = (n * g)%nat ->
  nth k (chunks n g x) [] = firstn n (skipn (k * n) x).
Proof.
  revert k x. induction g as [|g IH]; intros k x Hk Hx; [lia|].
  destruct k as [|k]; [reflexivity|].
  cbn [chunks nth]. rewrite IH; [| lia | rewrite skipn_length; lia].
  rewrite skipn_skipn_loc. f_equal. f_equal. lia.
Qed.

From Coq Require Import List Bool Arith Reals String Lra Lia.
From VQ Require Import Model.GroupCat Model.IgnoreCE.
Import ListNotations.
Open Scope R_scope.

Definition some_valid (heads : list (list target)) : Prop := exists h v x, In h heads /\ In (v, x) h /\ v = true.

(* ---- helpers *)
Lemma nvalid_app (l1 l2 : list target) : nvalid (l1 ++ l2) = (nvalid l1 + nvalid l2)%nat.
Proof. induction l1 as [|[v x] r IH]; simpl; [reflexivity|]. rewrite IH. lia. Qed.

Lemma svalid_app (l1 l2 : list target) : svalid (l1 ++ l2) = svalid l1 + svalid l2.
Proof. induction l1 as [|[v x] r IH]; simpl; [lra|]. rewrite IH. lra. Qed.

Lemma nvalid_pos (l : list target) (x : R) : In (true, x) l -> (0 < nvalid l)%nat.
Proof.
  induction l as [|[v y] r IH]; simpl; [tauto|].
  intros [H|H].
  - inversion H; subst. lia.
  - specialize (IH H). lia.
Qed.

Lemma nvalid_concat_pos (heads : list (list target)) (h : list target) (x : R) :
  In h heads -> In (true, x) h -> (0 < nvalid (List.concat heads))%nat.
Proof.
  induction heads as [|a r IH]; simpl; [tauto|].
  intros [->|H] Hx; rewrite nvalid_app.
  - apply nvalid_pos in Hx. lia.
  - specialize (IH H Hx). lia.
Qed.

Lemma svalid_bounds (l : list target) (lo hi : R) :
  (forall x, In (true, x) l -> lo <= x <= hi) -> INR (nvalid l) * lo <= svalid l <= INR (nvalid l) * hi.
Proof.
  induction l as [|[v y] r IH]; intros H.
  - simpl. lra.
  - assert (IH' := IH (fun x Hx => H x (or_intror Hx))).
    change (nvalid ((v, y) :: r)) with ((if v then 1 else 0) + nvalid r)%nat.
    change (svalid ((v, y) :: r)) with ((if v then y else 0) + svalid r).
    rewrite plus_INR. destruct v; simpl INR.
    + specialize (H y (or_introl eq_refl)). lra.
    + lra.
Qed.

Lemma mean_valid_none_iff (l : list target) : mean_valid l = None <-> nvalid l = 0%nat.
Proof.
  unfold mean_valid. destruct (Nat.eqb_spec (nvalid l) 0) as [E|E]; split; intros H; try reflexivity; try assumption; try discriminate.
  contradiction.
Qed.

(* the joint mean is defined (a real number) as soon as ONE target of ONE head is valid *)
Theorem ce_joint_defined (heads : list (list target)) : some_valid heads -> exists v : R, ce_joint heads = Some v.
Proof.
  intros (h & v & x & Hh & Hx & ->).
  pose proof (nvalid_concat_pos heads h x Hh Hx) as Hp.
  unfold ce_joint, mean_valid.
  destruct (Nat.eqb_spec (nvalid (List.concat heads)) 0) as [E|E]; [lia|].
  eexists. reflexivity.
Qed.
(* and undefined when nothing is valid (torch returns nan there: the caller supervised nothing) *)
Theorem ce_joint_undefined_iff (heads : list (list target)) : ce_joint heads = None <-> nvalid (List.concat heads) = 0%nat.
Proof. unfold ce_joint. apply mean_valid_none_iff. Qed.
(* it lies between the smallest and the largest valid nll: lower and upper bounds of the valid targets bound the loss *)
Theorem ce_joint_between (heads : list (list target)) (lo hi v : R) :
  (forall h x, In h heads -> In (true, x) h -> lo <= x <= hi) -> ce_joint heads = Some v -> lo <= v <= hi.
Proof.
  intros Hb. unfold ce_joint, mean_valid.
  destruct (Nat.eqb_spec (nvalid (List.concat heads)) 0) as [E|E]; [discriminate|].
  intros Hv. injection Hv as <-.
  assert (Hn : 0 < INR (nvalid (List.concat heads))) by (apply lt_0_INR; lia).
  assert (HB : INR (nvalid (List.concat heads)) * lo <= svalid (List.concat heads) <= INR (nvalid (List.concat heads)) * hi).
  { apply svalid_bounds. intros x Hx. apply in_concat in Hx. destruct Hx as (h & Hh & Hx). exact (Hb h x Hh Hx). }
  set (n := INR (nvalid (List.concat heads))) in *.
  set (s := svalid (List.concat heads)) in *.
  split; apply Rmult_le_reg_r with n; try assumption;
    replace (s / n * n) with s by (field; lra); lra.
Qed.
(* per-head averaging: undefined although valid targets exist *)
Theorem ce_per_head_refuted : exists heads : list (list target), some_valid heads /\ ce_per_head heads = None /\ exists v, ce_joint heads = Some v.
Proof.
  exists [[(false, 1)]; [(true, 2)]]. split; [|split].
  - exists [(true, 2)], true, 2. simpl. auto.
  - unfold ce_per_head, mean_valid. simpl. reflexivity.
  - unfold ce_joint, mean_valid. simpl. eexists. reflexivity.
Qed.

Lemma equal_counts_sum (heads : list (list target)) (k : nat) :
  (0 < k)%nat -> Forall (fun h => nvalid h = k) heads ->
  sum_opt (map mean_valid heads) = Some (svalid (List.concat heads) / INR k)
  /\ nvalid (List.concat heads) = (List.length heads * k)%nat.
Proof.
  intros Hk HF.
  assert (HkR : INR k <> 0) by (apply not_0_INR; lia).
  induction HF as [|a r Ha HF IH].
  - simpl. split; [|reflexivity]. f_equal. field. exact HkR.
  - destruct IH as [IH1 IH2]. split.
    + simpl map. simpl sum_opt. unfold mean_valid at 1. rewrite Ha.
      destruct (Nat.eqb_spec k 0) as [E|E]; [lia|].
      rewrite IH1. simpl List.concat. rewrite svalid_app. f_equal. field. exact HkR.
    + simpl List.concat. rewrite nvalid_app, IH2, Ha. simpl. reflexivity.
Qed.

(* the two agree when every head has the same positive number of valid targets (why fully valid and mask-derived targets do not show the difference) *)
Theorem ce_per_head_agrees_on_equal_counts (heads : list (list target)) (k : nat) :
  (0 < k)%nat -> heads <> [] -> Forall (fun h => nvalid h = k) heads -> ce_per_head heads = ce_joint heads.
Proof.
  intros Hk Hne HF.
  destruct (equal_counts_sum heads k Hk HF) as [Hs Hn].
  assert (HL : (0 < List.length heads)%nat) by (destruct heads; [congruence | simpl; lia]).
  unfold ce_per_head, ce_joint. rewrite Hs. unfold mean_valid. rewrite Hn.
  destruct (Nat.eqb_spec (List.length heads * k) 0) as [E|E]; [nia|].
  rewrite mult_INR. f_equal. field.
  split; apply not_0_INR; lia.
Qed.

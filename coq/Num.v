(* Scalar signature shared by the whole model.
   Every model function is written once over [ops F]; it is *proved* at the
   instance [R_ops] (Coq reals) and *executed* at the instance [Q_ops] (exact
   rationals, reduced after every operation) on the very float32 values the
   implementation produced (every finite float32 is a dyadic rational). *)
From Coq Require Import ZArith QArith Qround Reals List Bool Lia Lra.
Import ListNotations.

Record ops (F : Type) := mkops {
  zero : F; one : F;
  add : F -> F -> F; sub : F -> F -> F; mul : F -> F -> F; div : F -> F -> F;
  opp : F -> F;
  leb : F -> F -> bool; ltb : F -> F -> bool; eqb : F -> F -> bool;
  ofZ : Z -> F
}.
Arguments zero {F} _. Arguments one {F} _. Arguments add {F} _ _ _.
Arguments sub {F} _ _ _. Arguments mul {F} _ _ _. Arguments div {F} _ _ _.
Arguments opp {F} _ _. Arguments leb {F} _ _ _. Arguments ltb {F} _ _ _.
Arguments eqb {F} _ _ _. Arguments ofZ {F} _ _.

(* ---------- reals ---------- *)
Definition Rleb (a b : R) : bool := if Rle_dec a b then true else false.
Definition Rltb (a b : R) : bool := if Rlt_dec a b then true else false.
Definition Reqb (a b : R) : bool := if Req_EM_T a b then true else false.

Definition R_ops : ops R :=
  mkops R 0%R 1%R Rplus Rminus Rmult Rdiv Ropp Rleb Rltb Reqb IZR.

Lemma Rleb_true a b : Rleb a b = true <-> (a <= b)%R.
Proof. unfold Rleb; destruct (Rle_dec a b); split; intros; auto; discriminate. Qed.
Lemma Rleb_false a b : Rleb a b = false <-> (b < a)%R.
Proof. unfold Rleb; destruct (Rle_dec a b); split; intros; try discriminate; auto; lra. Qed.
Lemma Rltb_true a b : Rltb a b = true <-> (a < b)%R.
Proof. unfold Rltb; destruct (Rlt_dec a b); split; intros; auto; discriminate. Qed.
Lemma Rltb_false a b : Rltb a b = false <-> (b <= a)%R.
Proof. unfold Rltb; destruct (Rlt_dec a b); split; intros; try discriminate; auto; lra. Qed.
Lemma Reqb_true a b : Reqb a b = true <-> a = b.
Proof. unfold Reqb; destruct (Req_EM_T a b); split; intros; auto; discriminate. Qed.
Lemma Reqb_false a b : Reqb a b = false <-> a <> b.
Proof. unfold Reqb; destruct (Req_EM_T a b); split; intros; try discriminate; auto; contradiction. Qed.

(* ---------- exact rationals (execution) ---------- *)
Definition Qleb (a b : Q) : bool := Qle_bool a b.
Definition Qltb (a b : Q) : bool := negb (Qle_bool b a).
Definition Qeqb (a b : Q) : bool := Qeq_bool a b.

Definition Q_ops : ops Q :=
  mkops Q 0%Q 1%Q
    (fun a b => Qred (a + b)) (fun a b => Qred (a - b))
    (fun a b => Qred (a * b)) (fun a b => Qred (a / b))
    (fun a => Qopp a) Qleb Qltb Qeqb (fun z => inject_Z z).

(* helpers available at Q only: absolute value, tolerance comparison *)
Definition Qabsq (a : Q) : Q := if Qle_bool 0 a then a else Qopp a.
Definition Qclose (tol a b : Q) : bool := Qle_bool (Qabsq (Qred (a - b))) tol.
(* relative-absolute band  |a-b| <= tol*(1+|b|) *)
Definition Qclose_rel (tol a b : Q) : bool :=
  Qle_bool (Qabsq (Qred (a - b))) (Qred (tol * (1 + Qabsq b))).

(* dyadic literal  m * 2^e  as a reduced rational (harness writes floats this way) *)
Definition dy (m e : Z) : Q :=
  match e with
  | Z0 => inject_Z m
  | Zpos p => inject_Z (m * Z.pow_pos 2 p)
  | Zneg p => Qred (m # (Pos.pow 2 p))
  end.

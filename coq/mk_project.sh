#!/bin/bash
# regenerate _CoqProject (file list changes when Gen items are added) and the Makefile
cd "$(dirname "$0")"
{
  echo "-Q . VQ"
  echo "-arg -w -arg -notation-overridden,-deprecated-hint-without-locality,-deprecated-instance-without-locality,-deprecated-hint-rewrite-without-locality,-ambiguous-paths,-redundant-canonical-projection,-deprecated-syntactic-definition"
  ls *.v Model/*.v Gen/*.v Glue/*.v Proofs/*.v Properties/*.v 2>/dev/null | sort
} > _CoqProject.new
if ! cmp -s _CoqProject.new _CoqProject; then mv _CoqProject.new _CoqProject; coq_makefile -f _CoqProject -o Makefile >/dev/null; else rm _CoqProject.new; [ -f Makefile ] || coq_makefile -f _CoqProject -o Makefile >/dev/null; fi

"""All-pairs sweep over PER-CALL options and the ambient context of a call, for the VectorQuantize family.

Round 4 of the seeded-change experiment showed that regressions hide behind options of the call rather than of the constructor
(`indices=`, a per-call temperature of 0, `mask=` with no valid token, `lens=`) and behind the context the call runs in (autocast, no_grad /
inference_mode, whether the input requires grad, whether gradients were left on the parameters).  This module enumerates those dimensions and
picks an all-pairs covering set, deterministically; the harnesses apply their own oracle (purity, shapes, finiteness ...) to every variant.
"""
import contextlib, itertools, random

CALL_FEATURES = dict(
    padding=['none', 'mask-ragged', 'lens-ragged', 'mask-hole', 'mask-all-padding'],
    target=['none', 'indices'],
    temp=['default', 0.0, 0.7],
    freeze=[False, True],
    breakdown=[False, True],
    grad=['no_grad', 'inference_mode', 'enabled', 'enabled+requires_grad'],
    autocast=[False, True],
    shape=['b2n5', 'b1n1', 'b3n2'],
    ambient=['none', 'deterministic', 'default-bfloat16', 'default-float64'],
    explicit_defaults=[False, True],
)


def covering(features=CALL_FEATURES, max_n=40, seed=97):
    rng = random.Random(seed)
    names = list(features)
    pairs = {(a, va, b, vb) for a, b in itertools.combinations(names, 2) for va in features[a] for vb in features[b]}
    chosen = []
    while pairs and len(chosen) < max_n:
        best, best_cov = None, -1
        for _ in range(50):
            c = {k: rng.choice(v) for k, v in features.items()}
            a, va, b, vb = rng.choice(sorted(pairs, key=str))
            c[a], c[b] = va, vb
            cov = sum(1 for (a2, va2, b2, vb2) in pairs if c[a2] == va2 and c[b2] == vb2)
            if cov > best_cov:
                best, best_cov = c, cov
        chosen.append(best)
        pairs = {p for p in pairs if not (best[p[0]] == p[1] and best[p[2]] == p[3])}
    return chosen


_COVER = None


def variants():
    global _COVER
    if _COVER is None:
        _COVER = covering()
    return _COVER


def label(v):
    return 'call[' + ','.join(f'{k}={v[k]}' for k in CALL_FEATURES) + ']'


def build_call(v, torch, dim, heads=1, K=6, nq=None, image=False, rng=None):
    """-> (x, kwargs, context manager factory, valid-mask or None).  `nq`: number of residual layers (ResidualVQ targets), else VectorQuantize."""
    b, n = {'b2n5': (2, 5), 'b1n1': (1, 1), 'b3n2': (3, 2)}[v['shape']]
    x = torch.randn(b, n, dim)
    kw = {}
    valid = None
    pad = v['padding']
    if pad != 'none':
        if pad == 'mask-all-padding':
            valid = torch.zeros(b, n, dtype=torch.bool)
        elif pad == 'mask-hole' and n >= 3:
            valid = torch.ones(b, n, dtype=torch.bool)
            valid[:, 1] = False
        else:
            lens = torch.tensor([max(1, n - (i % 2)) for i in range(b)])
            valid = torch.arange(n)[None, :] < lens[:, None]
        if pad == 'lens-ragged' and nq is None:
            kw['lens'] = valid.sum(dim=-1)
        else:
            kw['mask'] = valid
    if v['target'] == 'indices' and pad == 'none':
        shape = (b, n, nq) if nq is not None else ((b, n, heads) if heads > 1 else (b, n))
        kw['indices'] = torch.randint(0, K, shape)
    if v['temp'] != 'default':
        kw['sample_codebook_temp'] = v['temp']
    if v['freeze']:
        kw['freeze_codebook'] = True
    if v['breakdown'] and nq is None and 'indices' not in kw:
        kw['return_loss_breakdown'] = True
    if v.get('explicit_defaults'):
        # the documented defaults passed EXPLICITLY (mask=None, indices=None, sample_codebook_temp=None, freeze_codebook=False): same call
        for k_, d_ in (('mask', None), ('indices', None), ('sample_codebook_temp', None), ('freeze_codebook', False)):
            if k_ not in kw and not (k_ == 'mask' and 'lens' in kw):
                kw[k_] = d_
    if v['grad'] == 'enabled+requires_grad':
        x.requires_grad_(True)

    def ctx():
        st = contextlib.ExitStack()
        if v['grad'] == 'no_grad':
            st.enter_context(torch.no_grad())
        elif v['grad'] == 'inference_mode':
            st.enter_context(torch.inference_mode())
        if v['autocast']:
            st.enter_context(torch.autocast('cpu', dtype=torch.bfloat16))
        if v.get('ambient', 'none') != 'none':
            st.enter_context(ambient(torch, v['ambient']))
        return st
    return x, kw, ctx, valid


@contextlib.contextmanager
def adversarial_rng(torch, mode):
    """Every uniform draw made through torch.rand / rand_like / Tensor.uniform_ / bernoulli returns an EXTREME value of its range (exactly 0.0 for
    mode 'zeros', the largest float32 below 1 for 'max').  Where the specification says that randomness plays no part (noise dropout 0,
    temperature 0, evaluation mode), results must be the same as under the ordinary generator; a comparison such as `rand() > p` instead of
    `bernoulli(p)` differs exactly on such draws, which ordinary sampling meets with probability 2^-24."""
    u = 0.0 if mode == 'zeros' else 1.0 - 2.0 ** -24
    o_rand, o_rand_like, o_bern, o_uniform, o_tbern = torch.rand, torch.rand_like, torch.bernoulli, torch.Tensor.uniform_, torch.Tensor.bernoulli_

    def rand(*a, **k):
        return o_rand(*a, **k).fill_(u)

    def rand_like(t, *a, **k):
        return o_rand_like(t, *a, **k).fill_(u)

    def bernoulli(inp, *a, **k):
        return (torch.full_like(inp, u) < inp).to(inp.dtype)

    def uniform_(self, a=0.0, b=1.0, **k):
        return self.fill_(a + (b - a) * u)

    def bernoulli_(self, p=0.5, **k):
        pt = p if isinstance(p, torch.Tensor) else torch.full_like(self, float(p), dtype=torch.float32)
        return self.copy_((torch.full_like(pt, u) < pt).to(self.dtype))
    torch.rand, torch.rand_like, torch.bernoulli, torch.Tensor.uniform_, torch.Tensor.bernoulli_ = rand, rand_like, bernoulli, uniform_, bernoulli_
    try:
        yield
    finally:
        torch.rand, torch.rand_like, torch.bernoulli, torch.Tensor.uniform_, torch.Tensor.bernoulli_ = o_rand, o_rand_like, o_bern, o_uniform, o_tbern


def layout_variants(torch, x):
    """the same VALUES in different memory layouts: [(name, tensor)] - non-contiguous (transposed storage), sliced out of a larger buffer with a step,
    expanded (stride 0) when the batch rows are equal, channels_last for 4-d, a storage offset.  torch.equal(v, x) holds for every variant."""
    out = []
    if x.ndim >= 2:
        out.append(('transposed-storage', x.transpose(0, -1).contiguous().transpose(0, -1)))
        big = torch.empty(*x.shape[:-1], 2 * x.shape[-1] + 1, dtype=x.dtype)
        big.fill_(float('nan') if x.dtype.is_floating_point else 0)
        big[..., 1::2] = x
        out.append(('strided-slice-of-nan-buffer', big[..., 1::2]))
    flat = torch.empty(x.numel() + 3, dtype=x.dtype)
    flat[3:] = x.reshape(-1)
    out.append(('storage-offset', flat[3:].view(x.shape)))
    if x.ndim == 4:
        out.append(('channels-last', x.contiguous(memory_format=torch.channels_last)))
    if x.shape[0] > 1 and bool((x[:1] == x).all()):
        out.append(('expanded-batch', x[:1].expand(*x.shape)))
    return out


def frozen_surgery(torch, mod, mk):
    """Iterator over the stages of a "frozen module" history; the caller runs its own check at every stage on the SAME long-lived module.
    eval + requires_grad_(False) on every parameter (a frozen tokenizer) -> a different checkpoint loaded into the frozen, used module -> an
    in-place write into its parameters -> parameters unfrozen again, training mode.  Anything memoised while "nothing can change" must follow."""
    mod.eval()
    mod.requires_grad_(False)
    yield 'frozen'
    yield 'frozen-second-call'
    other = mk()
    try:
        mod.load_state_dict(other.state_dict())
        yield 'frozen+other-checkpoint'
    except Exception:
        pass
    with torch.no_grad():
        for p in mod.parameters():
            if p.dtype.is_floating_point:
                p.mul_(1.25).add_(0.01)
    yield 'frozen+parameter-write'
    mod.requires_grad_(True)
    mod.train()
    yield 'unfrozen-train'
    mod.eval()
    yield 'unfrozen-eval'


@contextlib.contextmanager
def ambient(torch, kind):
    """process-wide torch settings around a call, restored afterwards: 'deterministic' = torch.use_deterministic_algorithms(True, warn_only=True)
    (uninitialised memory reads as NaN, alternative kernels), 'default-bfloat16' / 'default-float64' = torch.set_default_dtype (what factory
    functions without an explicit dtype return).  A quantizer's results are a function of its arguments and state, not of these."""
    was_det, was_dt = torch.are_deterministic_algorithms_enabled(), torch.get_default_dtype()
    try:
        if kind == 'deterministic':
            torch.use_deterministic_algorithms(True, warn_only=True)
        elif kind.startswith('default-'):
            torch.set_default_dtype(getattr(torch, kind.split('-', 1)[1]))
        yield
    finally:
        torch.use_deterministic_algorithms(was_det)
        torch.set_default_dtype(was_dt)

def inplace_big_step_cases(torch, rng, n_cases):
    """VectorQuantize with the in-place codebook optimiser and a LARGE step (SGD lr 20 / Adam lr 0.3): the codebook moves during the call and the
    module quantizes again - index, vector and loss of the call all refer to ONE codebook (the one after the step).  -> list of (kw, x, out, idx, loss,
    breakdown_commit, codebook_after)"""
    from functools import partial
    from torch.optim import SGD, Adam
    from vector_quantize_pytorch import VectorQuantize
    res = []
    for ci in range(n_cases):
        opt = [partial(SGD, lr=20.0), partial(Adam, lr=0.3), partial(SGD, lr=5.0)][ci % 3]
        kw = dict(dim=3, codebook_size=6, learnable_codebook=True, ema_update=False, in_place_codebook_optimizer=opt, commitment_weight=[1.0, 0.5][ci % 2], rotation_trick=(ci % 2 == 0))
        vq = VectorQuantize(**kw)
        vq.train()
        x = torch.randn(4, 8, 3)
        out, idx, loss, bd = vq(x, return_loss_breakdown=True)
        res.append((kw, x, out.detach(), idx.detach(), loss.detach(), bd.commitment.detach(), vq._codebook.embed.detach()[0].clone()))
    return res

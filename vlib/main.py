"""./check <Cxx> [--tier quick|thorough] [--replay file]"""
import os, sys, json, time, importlib, argparse, traceback

os.environ.setdefault('PYTHONHASHSEED', '0')
from . import core


def main():
    ap = argparse.ArgumentParser()
    ap.add_argument('pid')
    ap.add_argument('--tier', default=os.environ.get('VERIF_TIER', 'quick'))
    ap.add_argument('--replay', default=None)
    ap.add_argument('--no-build', action='store_true')
    a = ap.parse_args()
    pid = a.pid.upper()
    tier = a.tier if a.tier in ('quick', 'thorough') else 'quick'
    seed = int(os.environ.get('VERIF_SEED', '20260926') or 20260926)
    sys.path.insert(0, core.VERIF)
    if core.REPO not in sys.path:
        sys.path.insert(0, core.REPO)
    mod = importlib.import_module('props.' + pid.lower())
    ctx = core.Ctx(pid, tier, seed)

    if a.replay:
        payload = json.load(open(a.replay))
        return replay(ctx, mod, payload, a.replay)

    ob = mod.OBLIGATIONS
    ok = ctx.check_obligations(ob['prop_file'], glue=ob.get('glue', ()), gen_items=ob.get('gen_items', ()), extra_targets=ob.get('extra', ()))
    ctx.say(f'[{pid}] obligations: {ctx.discharged}/{ctx.obligations} discharged; '
            f'{len(ctx.obligation_failures)} broken; axioms: {ctx.axioms or "none (closed under the global context)"}')
    for f in ctx.obligation_failures:
        ctx.say(f'[{pid}] BROKEN OBLIGATION: {f["what"]} :: {f["detail"][:400]}')

    # the thorough tier multiplies every generator count (on top of the harness's own thorough settings) so that each property gets minutes, not seconds
    THOROUGH_SCALE = {'C01': 2, 'C02': 4, 'C03': 3, 'C06': 3, 'C07': 2, 'C09': 3, 'C10': 4, 'C11': 8, 'C13': 4, 'C14': 8, 'C15': 3, 'C17': 6, 'C18': 4, 'C19': 3, 'C20': 10}
    base_scale = THOROUGH_SCALE.get(pid, 1) if tier == 'thorough' else 1
    scale = base_scale if ok else base_scale * getattr(mod, 'SEARCH_SCALE', 4)
    try:
        res = mod.correspond(ctx, scale)
    except Exception as ex:
        traceback.print_exc()
        res = {'evaluations': 0, 'distinct_nontrivial': 0, 'rule': 'harness crashed', 'samples': [],
               'failures': [{'key': 'harness-exception:' + type(ex).__name__, 'what': f'correspondence harness raised {ex!r}',
                             'case': {'traceback': traceback.format_exc()[-3000:]}}]}

    known_lines, unknown = {}, []
    for f in res['failures']:
        k = core.match_known(pid, f['key'])
        if k:
            known_lines.setdefault(k['what'], 0)
            known_lines[k['what']] += 1
        else:
            unknown.append(f)
    for what, n in known_lines.items():
        print(f'KNOWN-FINDING: property={pid} {what} [{n} case(s) this run]', flush=True)

    violations = 0
    if unknown:
        violations = len(unknown)
        path = core.write_replay(pid, {'property': pid, 'kind': 'failing-input', 'seed': seed, 'tier': tier, 'scale': scale,
                                       'broken_obligations': ctx.obligation_failures,
                                       'failures': unknown[:5], 'total_failures': len(unknown)})
        for f in unknown[:5]:
            ctx.say(f'[{pid}] FAIL {f["key"]}: {f["what"][:500]}')
        print(f'VIOLATION property={pid} replay={path}', flush=True)
    elif ctx.obligation_failures:
        violations = 1
        path = core.write_replay(pid, {'property': pid, 'kind': 'broken-obligation', 'seed': seed, 'tier': tier,
                                       'broken_obligations': ctx.obligation_failures,
                                       'searched': {'evaluations': res['evaluations'], 'scale': scale, 'rule': res['rule']}})
        print(f'VIOLATION property={pid} replay={path} no-failing-input-found', flush=True)

    cov = {
        'obligations': ctx.obligations + ctx.case_files,
        'discharged': ctx.discharged + ctx.case_files_ok,
        'theorems': getattr(ctx, 'theorems', []),
        'case_files_evaluated_in_coq': ctx.case_files,
        'checker_cmd': f'cd /verif/coq && ./mk_project.sh && make {ob["prop_file"][:-2]}.vo && coqc -Q . VQ {ob["prop_file"]}  (Print Assumptions under every theorem); correspondence: coqc -Q . VQ Cases/*.v (vm_compute)',
        'trusted_base': trusted_base(ctx, mod),
        'axioms_reported_by_Print_Assumptions': ctx.axioms,
        'gen_items': {k: ('ok' if v is None else v) for k, v in ctx.gen_status.items() if k in ob.get('gen_items', ())},
        'evaluations': res['evaluations'],
        'distinct_nontrivial': res['distinct_nontrivial'],
        'rule': res['rule'],
        'samples': res['samples'][:6],
        'known_findings_seen': known_lines,
        'broken_obligations': ctx.obligation_failures,
    }
    for k in ('exhaustive', 'distribution', 'extra'):
        if k in res:
            cov[k] = res[k]
    core.write_evidence(ctx, cov, violations, getattr(mod, 'ASSUMPTIONS', []))
    ctx.say(f'[{pid}] tier={tier} seed={seed} evaluations={res["evaluations"]} nontrivial={res["distinct_nontrivial"]} '
            f'violations={violations} wall={time.time() - ctx.t0:.1f}s')
    return 1 if violations else 0


def trusted_base(ctx, mod):
    tb = ['Coq 8.16.1 kernel and its VM (vm_compute); no native_compute',
          'vlib/srcgen.py (source -> Gen/*.v translator: location rules + expression grammar)',
          'vlib/core.py + props/%s.py (harness: float->rational conversion, case emission, parsing of Coq output)' % ctx.pid.lower(),
          'hand-written dataflow in coq/Model (modelled, tied to the code by the correspondence run, not verified)']
    if ctx.axioms:
        tb.append('standard-library axioms under the property theorems: ' + ', '.join(ctx.axioms))
    else:
        tb.append('no axioms: every property theorem is closed under the global context')
    tb += getattr(mod, 'TRUSTED', [])
    return tb


def replay(ctx, mod, payload, path):
    pid = ctx.pid
    if payload.get('kind') == 'broken-obligation' or not payload.get('failures'):
        ob = mod.OBLIGATIONS
        ok = ctx.check_obligations(ob['prop_file'], glue=ob.get('glue', ()), gen_items=ob.get('gen_items', ()), extra_targets=ob.get('extra', ()))
        if ok:
            print(f'[{pid}] replay: all obligations check on the current tree')
            return 0
        for f in ctx.obligation_failures:
            print(f'[{pid}] replay: still broken: {f["what"]} :: {f["detail"][:400]}')
        print(f'VIOLATION property={pid} replay={path} no-failing-input-found')
        return 1
    # re-run the implementation on the current tree with the recorded seed / tier / scale (generators are deterministic in the
    # seed) and report whether the recorded failing inputs fail again; then the per-case replays on the recorded values
    import importlib
    ctx2 = core.Ctx(pid, payload.get('tier', 'quick'), int(payload.get('seed', ctx.seed)))
    try:
        res = mod.correspond(ctx2, int(payload.get('scale', 1)))
        now = {}
        for f in res['failures']:
            if not core.match_known(pid, f['key']):
                now.setdefault(f['key'], f)
    except Exception as ex:
        now = {'harness-exception': {'what': repr(ex)}}
    bad = 0
    for f in payload['failures']:
        again = f['key'] in now
        print(f'[{pid}] replay {f["key"]}: ' + ('STILL FAILS on the current tree: ' + now[f["key"]]["what"][:300] if again else 'does not fail on the current tree (same seed, same generator)'))
        bad += again
    other = [k for k in now if k not in {f['key'] for f in payload['failures']}]
    if other and not bad:
        print(f'[{pid}] replay: the recorded inputs pass, but the same run shows other failures: {other[:3]}')
        bad += 1
    if bad:
        print(f'VIOLATION property={pid} replay={path}')
    return 1 if bad else 0


if __name__ == '__main__':
    sys.exit(main())

"""Recorder for VectorQuantize-family modules: runs the real module and captures, per codebook (head),
the tokens the codebook actually received (after the module's own projection / head split / normalisation),
the indices / quantized vectors it returned, and the codebook state before and after the call.
Observation is by wrapping `module._codebook.forward` from the harness process (no source change)."""
import copy, math
import torch
from . import core
from .core import qlit, qvec, qmat, coqbool


def cb_state(cb):
    """EuclideanCodebook/CosineSimCodebook -> dict of exact python floats, per codebook h"""
    return dict(embed=cb.embed.detach().double().tolist(), embed_avg=cb.embed_avg.detach().double().tolist(),
                cluster_size=cb.cluster_size.detach().double().tolist(), initted=bool(cb.initted.item()))


def coq_state(st, h):
    return f'(mkst {qmat(st["embed"][h])} {qmat(st["embed_avg"][h])} {qvec(st["cluster_size"][h])} {coqbool(st["initted"])})'


class Rec:
    """one recorded codebook call"""
    pass


def record_call(vq, x, **kw):
    """Runs vq(x, **kw) with the codebook forward wrapped.  Returns (ret, [Rec...]) : one Rec per codebook.forward call."""
    cb = vq._codebook
    recs = []
    orig = cb.forward

    def wrapped(xin, *a, **k):
        r = Rec()
        r.before = cb_state(cb)
        r.training = cb.training
        r.freeze = bool(k.get('freeze_codebook', False))
        r.temp = k.get('sample_codebook_temp', None)
        xin4 = xin if xin.ndim == 4 else xin[None]
        H = xin4.shape[0]
        d = xin4.shape[-1]
        r.H, r.d = H, d
        r.xs = [xin4[h].reshape(-1, d).detach().double().tolist() for h in range(H)]
        m = k.get('mask', None)
        if m is not None:
            ntok = xin4[0].reshape(-1, d).shape[0]
            b, n = m.shape
            hh = ntok // (b * n)
            # flattened token (b, h, n) of every codebook is valid iff mask[b][n]   (spec layout)
            flat = m[:, None, :].expand(b, hh, n).reshape(-1).tolist()
            r.mask = [list(flat) for _ in range(H)]
        else:
            r.mask = None
        # the state right after the (k-means) initialisation inside this very call: init_embed_ is wrapped for the duration of the call
        r.after_init = None
        orig_init = cb.init_embed_

        def init_wrapped(*ia, **ik):
            res_ = orig_init(*ia, **ik)
            r.after_init = cb_state(cb)
            return res_
        cb.init_embed_ = init_wrapped
        try:
            out = orig(xin, *a, **k)
        finally:
            del cb.init_embed_
        quantize, embed_ind, dist = out
        q4 = quantize if xin.ndim == 4 else quantize[None]
        i4 = embed_ind if xin.ndim == 4 else embed_ind[None]
        r.idx = [i4[h].reshape(-1).tolist() for h in range(H)]
        r.quant = [q4[h].reshape(-1, q4.shape[-1]).detach().double().tolist() for h in range(H)]
        r.after = cb_state(cb)
        recs.append(r)
        return out

    cb.forward = wrapped
    # every third recorded call hands the input over as a dense PERMUTED VIEW of the same values (time-major / channel-first activations viewed
    # batch-first, channel-last): the recorded statistics are about values, the memory layout of the caller's tensor must not matter
    global _CALLS
    _CALLS += 1
    if PERMUTE_VIEWS and _CALLS % 3 == 0 and isinstance(x, torch.Tensor) and x.ndim == 3 and not x.requires_grad:
        x = x.transpose(0, 1).contiguous().transpose(0, 1) if _CALLS % 2 == 0 else x.permute(2, 0, 1).contiguous().permute(1, 2, 0)
    try:
        ret = vq(x, **kw)
    finally:
        del cb.forward
    return ret, recs


_CALLS = 0
PERMUTE_VIEWS = True


def grid(rng, shape, den=8, lim=24):
    n = 1
    for s in shape:
        n *= s
    vals = [rng.randint(-lim, lim) / den for _ in range(n)]
    return torch.tensor(vals, dtype=torch.float32).reshape(shape)


def set_codebook_grid(vq, rng, den=8, lim=24, dup=False, zero=False):
    """hand-set codebook on the dyadic grid with consistent running sums (embed_avg = embed * cluster_size)"""
    cb = vq._codebook
    with torch.no_grad():
        e = grid(rng, tuple(cb.embed.shape), den, lim)
        if dup and e.shape[1] > 1:
            e[:, -1] = e[:, 0]
        if zero:
            e[:, e.shape[1] // 2] = 0
        cb.embed.data.copy_(e)
        cs = torch.tensor([[rng.choice([0.5, 1, 1, 2, 3, 4]) for _ in range(e.shape[1])] for _ in range(e.shape[0])], dtype=torch.float32)
        cb.cluster_size.data.copy_(cs)
        cb.embed_avg.data.copy_(e * cs[..., None])

"""Registry of everything regenerated from /repo's working tree into coq/Gen on every run."""
import ast
from . import srcgen as G
from .srcgen import GenError, find_func, emit_kernel, emit_guard, path_conditions, stmt_calls, stmt_assigns

VQ = 'vector_quantize_pytorch.py'
FSQF = 'finite_scalar_quantization.py'
LFQF = 'lookup_free_quantization.py'
RVQ = 'residual_vq.py'
RFSQ = 'residual_fsq.py'
RLFQ = 'residual_lfq.py'
RSVQ = 'residual_sim_vq.py'
SIMVQ = 'sim_vq.py'
RPQ = 'random_projection_quantizer.py'
LQ = 'latent_quantization.py'

ITEMS = []


def item(name):
    def deco(fn):
        ITEMS.append((name, fn))
        return fn
    return deco


def assigned_expr(fname, qual, target, nth=0):
    func = find_func(fname, qual)
    hits = [s for s in ast.walk(func) if isinstance(s, ast.Assign) and any(ast.unparse(t) == target for t in s.targets)]
    if len(hits) <= nth:
        raise GenError(f'{fname}:{qual}: assignment to {target!r} not found')
    return hits[nth].value


def return_expr(fname, qual):
    func = find_func(fname, qual)
    rets = [s for s in func.body if isinstance(s, ast.Return)]
    if len(rets) != 1:
        raise GenError(f'{fname}:{qual}: expected one top-level return')
    return rets[0].value


def unique_path_cond(fname, qual, pred, what):
    func = find_func(fname, qual)
    hits = path_conditions(func, pred)
    if len(hits) != 1:
        raise GenError(f'{fname}:{qual}: expected exactly one site for {what}, found {len(hits)}')
    return hits[0][1]


def guard_item(name, fname, qual, pred, what):
    ITEMS.append((name, lambda: emit_guard(name, unique_path_cond(fname, qual, pred, what), f'{fname}:{qual}: path condition of {what}')))


# =============================================================================== guards (G1)
for cls, tag in (('EuclideanCodebook', 'euclid'), ('CosineSimCodebook', 'cosine')):
    # the two ema_inplace calls share one guard: take the enclosing If of the first
    def _mk(cls=cls, tag=tag):
        def thunk():
            func = find_func(VQ, f'{cls}.forward')
            hits = path_conditions(func, stmt_calls('ema_inplace'))
            if len(hits) != 2:
                raise GenError(f'{cls}.forward: expected two ema_inplace sites, found {len(hits)}')
            if [ast.dump(t) + str(p) for t, p in hits[0][1]] != [ast.dump(t) + str(p) for t, p in hits[1][1]]:
                raise GenError(f'{cls}.forward: the two ema_inplace sites have different guards')
            order = [ast.unparse(h[0]) for h in hits]
            if 'cluster_size' not in order[0] or 'embed_avg' not in order[1]:
                raise GenError(f'{cls}.forward: ema_inplace targets changed: {order}')
            return emit_guard(f'g_{tag}_ema', hits[0][1], f'{cls}.forward: path condition of both ema_inplace calls')
        return thunk
    ITEMS.append((f'g_{tag}_ema', _mk()))
    guard_item(f'g_{tag}_update_ema', VQ, f'{cls}.forward', stmt_calls('self.update_ema'), 'self.update_ema()')
    guard_item(f'g_{tag}_expire', VQ, f'{cls}.forward', stmt_calls('self.expire_codes_'), 'self.expire_codes_(x)')
    guard_item(f'g_{tag}_replace', VQ, f'{cls}.expire_codes_', stmt_calls('self.replace'), 'self.replace(...)')
    guard_item(f'g_{tag}_kmeans', VQ, f'{cls}.init_embed_', stmt_calls('kmeans'), 'kmeans(...)')
    guard_item(f'g_{tag}_mask_onehot', VQ, f'{cls}.forward',
               lambda s: isinstance(s, ast.Assign) and ast.unparse(s.targets[0]) == 'embed_onehot[~mask]', 'embed_onehot[~mask] = 0')

guard_item('g_gumbel_noise', VQ, 'gumbel_sample', stmt_calls('gumbel_noise'), 'gumbel_noise(logits)')
guard_item('g_vq_inplace_opt', VQ, 'VectorQuantize.forward', stmt_calls('loss.backward'), 'loss.backward() (in-place codebook optimiser)')
guard_item('g_vq_inplace_step', VQ, 'VectorQuantize.forward', stmt_calls('self.update_in_place_optimizer'), 'self.update_in_place_optimizer()')
guard_item('g_vq_rotate', VQ, 'VectorQuantize.forward', stmt_calls('rotate_to'), 'rotate_to(x, quantize)')
guard_item('g_vq_commit', VQ, 'VectorQuantize.forward',
           lambda s: isinstance(s, ast.Assign) and ast.unparse(s.targets[0]) == 'loss' and 'commit_loss * self.commitment_weight' in ast.unparse(s.value),
           'loss = loss + commit_loss * self.commitment_weight')
guard_item('g_lfq_commit', LFQF, 'LFQ.forward',
           lambda s: isinstance(s, ast.Assign) and ast.unparse(s.targets[0]) == 'commit_loss' and 'F.mse_loss' in ast.unparse(s.value),
           'commit_loss = F.mse_loss(original_input, quantized.detach(), ...): gated on the LIVE weight attribute')
# the three mask applications of VectorQuantize.forward: padded rows zeroed on entry, padded outputs zeroed and padded indices set to -1 on exit -
# each is guarded by "a mask was given" and NOTHING else (seed C09-k gated the first on self.training, seed C13-k the last on a live hyper-parameter)
def _and(p, q):
    return lambda s_: p(s_) and q(s_)
guard_item('g_vq_zero_padded_input', VQ, 'VectorQuantize.forward', _and(stmt_assigns('x'), stmt_calls('einx.where')), 'x = einx.where(mask, x, 0.) on entry')
guard_item('g_vq_mask_output', VQ, 'VectorQuantize.forward', _and(stmt_assigns('quantize'), stmt_calls('einx.where')), 'quantize = einx.where(mask, quantize, 0.) on exit')
guard_item('g_vq_mask_indices', VQ, 'VectorQuantize.forward', _and(stmt_assigns('embed_ind'), stmt_calls('einx.where')), 'embed_ind = einx.where(mask, embed_ind, -1) on exit')
guard_item('g_rvq_shared_update', RVQ, 'ResidualVQ.forward', stmt_calls('shared_layer._codebook.update_ema'), 'shared update_ema()')
guard_item('g_rvq_shared_expire', RVQ, 'ResidualVQ.forward', stmt_calls('shared_layer.expire_codes_'), 'shared expire_codes_()')
guard_item('g_rvq_shared_opt', RVQ, 'ResidualVQ.forward', stmt_calls('shared_layer.update_in_place_optimizer'), 'shared update_in_place_optimizer()')


@item('g_vq_maybe_detach')
def _():
    e = assigned_expr(VQ, 'VectorQuantize.forward', 'maybe_detach')
    if not (isinstance(e, ast.IfExp) and ast.unparse(e.body) == 'torch.detach' and ast.unparse(e.orelse) == 'identity'):
        raise GenError('maybe_detach is no longer `torch.detach if <cond> else identity`')
    return emit_guard('g_vq_maybe_detach', [(e.test, True)], 'VectorQuantize.forward: condition under which the commitment code is detached')


# quantize-dropout: should_quantize_dropout in the four residual classes, and the skip test
for fname, cls, tag in ((RVQ, 'ResidualVQ', 'rvq'), (RFSQ, 'ResidualFSQ', 'rfsq'), (RLFQ, 'ResidualLFQ', 'rlfq'), (RSVQ, 'ResidualSimVQ', 'rsvq')):
    def _mk_sqd(fname=fname, cls=cls, tag=tag):
        def thunk():
            e = assigned_expr(fname, f'{cls}.forward', 'should_quantize_dropout')
            return emit_guard(f'g_{tag}_should_dropout', [(e, True)], f'{cls}.forward: should_quantize_dropout')
        return thunk
    ITEMS.append((f'g_{tag}_should_dropout', _mk_sqd()))

    def _mk_qd(fname=fname, cls=cls, tag=tag):
        def thunk():
            e = assigned_expr(fname, f'{cls}.__init__', 'self.quantize_dropout')
            return emit_guard(f'g_{tag}_dropout_enabled', [(e, True)], f'{cls}.__init__: self.quantize_dropout')
        return thunk
    ITEMS.append((f'g_{tag}_dropout_enabled', _mk_qd()))

    def _mk_skip(fname=fname, cls=cls, tag=tag):
        def thunk():
            func = find_func(fname, f'{cls}.forward')
            hits = path_conditions(func, lambda s: isinstance(s, ast.Expr) and 'all_indices.append(null_indices)' == ast.unparse(s))
            if len(hits) != 1:
                raise GenError(f'{cls}.forward: null_indices append site not unique')
            conds = hits[0][1]
            # the innermost condition must be `should_quantize_dropout and quantizer_index > rand_quantize_dropout_index`
            test, pol = conds[-1]
            if not (pol and isinstance(test, ast.BoolOp) and isinstance(test.op, ast.And) and len(test.values) == 2
                    and ast.unparse(test.values[0]) == 'should_quantize_dropout'):
                raise GenError(f'{cls}.forward: layer skip test has unexpected shape: {ast.unparse(test)}')
            # and the skipped layer must `continue`
            return emit_kernel(f'k_{tag}_skip', fname, f'{cls}.forward', 'Z',
                               [('quantizer_index', 'qi', 'Z'), ('rand_quantize_dropout_index', 'r', 'Z')],
                               expr=test.values[1], comment=f'{cls}.forward: layer-skip comparison')
        return thunk
    ITEMS.append((f'k_{tag}_skip', _mk_skip()))

    def _mk_idx(fname=fname, cls=cls, tag=tag):
        def thunk():
            func = find_func(fname, f'{cls}.forward')
            # rand_quantize_dropout_index = rand.randrange(cutoff, num_quant) ; if m != 1: idx = round_up_multiple(idx + 1, m) - 1
            a0 = assigned_expr(fname, f'{cls}.forward', 'rand_quantize_dropout_index', 0)
            if ast.unparse(a0) != 'rand.randrange(self.quantize_dropout_cutoff_index, num_quant)':
                raise GenError(f'{cls}.forward: randrange call changed: {ast.unparse(a0)}')
            hits = path_conditions(func, lambda s: isinstance(s, ast.Assign) and ast.unparse(s.targets[0]) == 'rand_quantize_dropout_index'
                                   and 'round_up_multiple' in ast.unparse(s.value))
            if len(hits) != 1:
                raise GenError(f'{cls}.forward: round_up_multiple site not unique')
            stmt, conds = hits[0]
            test, pol = conds[-1]
            call = stmt.value
            # inline round_up_multiple(num, mult) = ceil(num / mult) * mult
            rum = find_func(fname, 'round_up_multiple')
            rbody = return_expr(fname, 'round_up_multiple')
            argn = [a.arg for a in rum.args.args]
            class Inl(ast.NodeTransformer):
                def __init__(s, m): s.m = m
                def visit_Name(s, n): return s.m.get(n.id, n)
            class InlCall(ast.NodeTransformer):
                def visit_Call(s, n):
                    s.generic_visit(n)
                    if G.call_name(n) == 'round_up_multiple':
                        return Inl(dict(zip(argn, n.args))).visit(ast.parse(ast.unparse(rbody), mode='eval').body)
                    return n
            val = InlCall().visit(ast.parse(ast.unparse(call), mode='eval').body)
            cond = test if pol else ast.UnaryOp(ast.Not(), test)
            e = ast.IfExp(cond, val, ast.Name('rand_quantize_dropout_index', ast.Load()))
            ast.fix_missing_locations(e)
            return emit_kernel(f'k_{tag}_drop_index', fname, f'{cls}.forward', 'Z',
                               [('rand_quantize_dropout_index', 'r', 'Z'), ('quant_dropout_multiple_of', 'm', 'Z')],
                               expr=e, comment=f'{cls}.forward: dropout index after round_up_multiple')
        return thunk
    ITEMS.append((f'k_{tag}_drop_index', _mk_idx()))


# =============================================================================== scalar kernels (G2)
@item('k_ema_inplace')
def _():
    func = find_func(VQ, 'ema_inplace')
    hits = [n for n in ast.walk(func) if isinstance(n, ast.Call) and isinstance(n.func, ast.Attribute) and n.func.attr == 'lerp_']
    if len(hits) != 1:
        raise GenError('ema_inplace: lerp_ call not unique')
    return emit_kernel('k_ema_inplace', VQ, 'ema_inplace', 'F', [('old', 'old', 'F'), ('new', 'new', 'F'), ('decay', 'decay', 'F')],
                       expr=hits[0], comment='ema_inplace: old.lerp_(new, 1 - decay)')


@item('k_laplace')
def _():
    return emit_kernel('k_laplace', VQ, 'laplace_smoothing', 'F',
                       [('x', 'x', 'F'), ('n_categories', 'n', 'F'), ('eps', 'eps', 'F'), ('denom', 'denom', 'F')],
                       skip=('denom',), comment='laplace_smoothing with denom = x.sum()')


@item('k_safe_div')
def _():
    return emit_kernel('k_safe_div', VQ, 'safe_div', 'F', [('num', 'num', 'F'), ('den', 'den', 'F'), ('eps', 'eps', 'F')])


@item('k_cdist')
def _():
    # final expression of cdist over the three reduced terms
    e = return_expr(VQ, 'cdist')
    src = ast.unparse(e)
    src = src.replace("rearrange(x2, 'b i -> b i 1')", 'x2').replace("rearrange(y2, 'b j -> b 1 j')", 'y2')
    xy = assigned_expr(VQ, 'cdist', 'xy')
    xysrc = ast.unparse(xy).replace("einsum('b i d, b j d -> b i j', x, y)", 'xdoty')
    x2 = ast.unparse(assigned_expr(VQ, 'cdist', 'x2'))
    y2 = ast.unparse(assigned_expr(VQ, 'cdist', 'y2'))
    if x2 != "reduce(x ** 2, 'b n d -> b n', 'sum')" or y2 != "reduce(y ** 2, 'b n d -> b n', 'sum')":
        raise GenError(f'cdist: squared-norm terms changed: {x2} / {y2}')
    src = src.replace('xy', '(' + xysrc + ')')
    return emit_kernel('k_cdist', VQ, 'cdist', 'F', [('x2', 'x2', 'F'), ('y2', 'y2', 'F'), ('xdoty', 'xy', 'F')],
                       expr=ast.parse(src, mode='eval').body, funs=('sqrt',), comment='cdist: (x2 + y2 - 2 x.y).clamp(min=0).sqrt()')


@item('k_update_ema_denom')
def _():
    e = assigned_expr(VQ, 'EuclideanCodebook.update_ema', 'cluster_size')
    src = ast.unparse(e)
    want = 'laplace_smoothing(self.cluster_size, self.codebook_size, self.eps) * self.cluster_size.sum(dim=-1, keepdim=True)'
    if src != want:
        raise GenError('update_ema: smoothed cluster size expression changed: ' + src)
    e2 = assigned_expr(VQ, 'EuclideanCodebook.update_ema', 'embed_normalized')
    if ast.unparse(e2) != "self.embed_avg / rearrange(cluster_size, '... -> ... 1')":
        raise GenError('update_ema: normalisation changed: ' + ast.unparse(e2))
    c = ast.unparse(assigned_expr(VQ, 'CosineSimCodebook.update_ema', 'cluster_size'))
    if c != want:
        raise GenError('cosine update_ema: smoothed cluster size expression changed')
    return G.emit_strings('k_update_ema_denom', [src, ast.unparse(e2)], 'update_ema expressions (pinned shape)')


@item('k_expire_cmp')
def _():
    outs = []
    for cls in ('EuclideanCodebook', 'CosineSimCodebook'):
        e = assigned_expr(VQ, f'{cls}.expire_codes_', 'expired_codes')
        outs.append(ast.dump(e))
    if outs[0] != outs[1]:
        raise GenError('expire comparison differs between the two codebook classes')
    e = assigned_expr(VQ, 'EuclideanCodebook.expire_codes_', 'expired_codes')
    return emit_kernel('k_expire_cmp', VQ, 'EuclideanCodebook.expire_codes_', 'F',
                       [('self.cluster_size', 'cs', 'F'), ('self.threshold_ema_dead_code', 'thr', 'F')], expr=e,
                       comment='expire_codes_: expired_codes = cluster_size < threshold')


# ---- FSQ / LatentQuantize / LFQ
@item('k_fsq_half_width')
def _():
    outs = set()
    for q in ('FSQ._scale_and_shift', 'FSQ._scale_and_shift_inverse', 'FSQ.quantize'):
        outs.add(ast.unparse(assigned_expr(FSQF, q, 'half_width')))
    if len(outs) != 1:
        raise GenError(f'FSQ half_width defined differently: {outs}')
    return emit_kernel('k_fsq_half_width', FSQF, 'FSQ._scale_and_shift', 'Z', [('self._levels', 'L', 'Z')],
                       expr=assigned_expr(FSQF, 'FSQ._scale_and_shift', 'half_width'))


@item('k_fsq_scale_and_shift')
def _():
    return emit_kernel('k_fsq_scale_and_shift', FSQF, 'FSQ._scale_and_shift', 'F',
                       [('self.preserve_symmetry', 'sym', 'bool'), ('self._levels', 'L', 'F'), ('zhat_normalized', 'z', 'F'), ('half_width', 'hw', 'F')], skip=('half_width',))


@item('k_fsq_scale_and_shift_inverse')
def _():
    return emit_kernel('k_fsq_scale_and_shift_inverse', FSQF, 'FSQ._scale_and_shift_inverse', 'F',
                       [('self.preserve_symmetry', 'sym', 'bool'), ('self._levels', 'L', 'F'), ('zhat', 'z', 'F'), ('half_width', 'hw', 'F')], skip=('half_width',))


@item('k_fsq_level_indices')
def _():
    e = assigned_expr(FSQF, 'FSQ.indices_to_level_indices', 'codes_non_centered')
    return emit_kernel('k_fsq_level_indices', FSQF, 'FSQ.indices_to_level_indices', 'Z',
                       [('indices', 'i', 'Z'), ('self._basis', 'b', 'Z'), ('self._levels', 'l', 'Z')], expr=e)


@item('p_fsq_codec')
def _():
    rows = [ast.unparse(assigned_expr(FSQF, 'FSQ.__init__', '_basis')),
            ast.unparse(return_expr(FSQF, 'FSQ.codes_to_indices')),
            ast.unparse(assigned_expr(FSQF, 'FSQ.codes_to_indices', 'zhat')),
            ast.unparse(assigned_expr(FSQF, 'FSQ._indices_to_codes', 'level_indices')),
            ast.unparse(assigned_expr(FSQF, 'FSQ._indices_to_codes', 'codes'))]
    return G.emit_strings('p_fsq_codec', rows, 'FSQ codec dataflow (pinned shape)')


@item('k_fsq_bound')
def _():
    return emit_kernel('k_fsq_bound', FSQF, 'FSQ.bound', 'F',
                       [('z', 'z', 'F'), ('eps', 'eps', 'F'), ('self._levels', 'L', 'F'), ('offset', 'offset', 'F')],
                       skip=('offset',), funs=('atanh', 'tanh'))


@item('k_fsq_offset')
def _():
    e = assigned_expr(FSQF, 'FSQ.bound', 'offset')
    if ast.unparse(e) != 'torch.where(self._levels % 2 == 0, 0.5, 0.0)':
        raise GenError('FSQ.bound offset changed: ' + ast.unparse(e))
    return G.emit_strings('k_fsq_offset', [ast.unparse(e)], 'FSQ.bound offset (pinned)')


@item('p_fsq_quantize')
def _():
    func = find_func(FSQF, 'FSQ.quantize')
    hits = path_conditions(func, lambda s: isinstance(s, ast.Assign) and ast.unparse(s.targets[0]) == 'quantized')
    rows = []
    for s, c in hits:
        if c and ast.unparse(c[-1][0]) == 'preserve_symmetry' and len(c) == 1:
            rows.append(('sym' if c[-1][1] else 'plain') + ':' + ast.unparse(s.value))
    ev = path_conditions(func, lambda s: isinstance(s, ast.Return) and ast.unparse(s.value) == 'quantized')
    rows.append('eval-return-guard:' + ' & '.join(('' if p else 'not ') + ast.unparse(t) for t, p in ev[0][1]))
    rows.append('round_ste:' + ast.unparse(return_expr(FSQF, 'round_ste')) + '|' + ast.unparse(assigned_expr(FSQF, 'round_ste', 'zhat')))
    rows.append('floor_ste:' + ast.unparse(return_expr(FSQF, 'floor_ste')) + '|' + ast.unparse(assigned_expr(FSQF, 'floor_ste', 'zhat')))
    rows.append('preserve_symmetry=' + ast.unparse(assigned_expr(FSQF, 'FSQ.quantize', 'preserve_symmetry')))
    return G.emit_strings('p_fsq_quantize', rows, 'FSQ.quantize branches (pinned shape)')


@item('k_fsq_sym_bound')
def _():
    return emit_kernel('k_fsq_sym_bound', FSQF, 'FSQ.symmetry_preserving_bound', 'F',
                       [('z', 'z', 'F'), ('self._levels', 'L', 'F')], funs=('tanh', 'floor_ste'))


@item('k_lfq_bits_to_codes')
def _():
    return emit_kernel('k_lfq_bits_to_codes', LFQF, 'LFQ.bits_to_codes', 'F', [('bits', 'bits', 'F'), ('self.codebook_scale', 's', 'F')])


@item('k_lfq_quantize')
def _():
    e = assigned_expr(LFQF, 'LFQ.forward', 'quantized', 0)
    cv = ast.unparse(assigned_expr(LFQF, 'LFQ.forward', 'codebook_value'))
    if cv != 'torch.ones_like(x) * self.codebook_scale':
        raise GenError('LFQ codebook_value changed: ' + cv)
    return emit_kernel('k_lfq_quantize', LFQF, 'LFQ.forward', 'F', [('x', 'x', 'F'), ('codebook_value', 's', 'F')], expr=e)


@item('k_lfq_ste')
def _():
    """LFQ.forward, training branch: `x = self.activation(x); x = x + (quantized - x).detach()` (else `x = quantized`).  The kernel is the VALUE of
    the second assignment as a function of the activated input a and the quantized value q, with detach as an abstract function."""
    f = find_func(LFQF, 'LFQ.forward')
    cands = [n for n in ast.walk(f) if isinstance(n, ast.If) and ast.unparse(n.test) == 'self.training' and n.body and isinstance(n.body[0], ast.Assign)
             and ast.unparse(n.body[0].targets[0]) == 'x']
    if len(cands) != 1:
        raise GenError('LFQ.forward: expected exactly one `if self.training:` block assigning x')
    blk = cands[0]
    if len(blk.body) != 2 or ast.unparse(blk.body[0]) != 'x = self.activation(x)' or not isinstance(blk.body[1], ast.Assign) or ast.unparse(blk.body[1].targets[0]) != 'x':
        raise GenError('LFQ.forward: the straight-through block is no longer `x = self.activation(x); x = <expr>`: ' + ast.unparse(blk)[:160])
    if len(blk.orelse) != 1 or ast.unparse(blk.orelse[0]) != 'x = quantized':
        raise GenError('LFQ.forward: the evaluation branch is no longer `x = quantized`')
    return emit_kernel('k_lfq_ste', LFQF, 'LFQ.forward', 'F', [('x', 'a', 'F'), ('quantized', 'q', 'F')], expr=blk.body[1].value, funs=('detach',))


def ste_item(name, fname, qual, target, params):
    """the unique assignment `target = <expr containing .detach()>` of the function, as a value kernel with detach abstract"""
    f = find_func(fname, qual)
    cands = [n for n in ast.walk(f) if isinstance(n, ast.Assign) and len(n.targets) == 1 and ast.unparse(n.targets[0]) == target and '.detach()' in ast.unparse(n.value)]
    if len(cands) != 1:
        raise GenError(f'{qual}: expected exactly one straight-through assignment to {target}, found {len(cands)}')
    return emit_kernel(name, fname, qual, 'F', params, expr=cands[0].value, funs=('detach',))


@item('k_vq_ste')
def _():
    f = find_func(VQ, 'VectorQuantize.forward')
    cands = [n for n in ast.walk(f) if isinstance(n, ast.Assign) and ast.unparse(n.targets[0]) == 'quantize' and '.detach()' in ast.unparse(n.value) and 'sync_update_v' not in ast.unparse(n.value)]
    if len(cands) != 1:
        raise GenError('VectorQuantize.forward: expected exactly one straight-through assignment to quantize')
    return emit_kernel('k_vq_ste', VQ, 'VectorQuantize.forward', 'F', [('x', 'x', 'F'), ('quantize', 'q', 'F')], expr=cands[0].value, funs=('detach',))


@item('k_vq_sync_update')
def _():
    f = find_func(VQ, 'VectorQuantize.forward')
    cands = [n for n in ast.walk(f) if isinstance(n, ast.Assign) and ast.unparse(n.targets[0]) == 'quantize' and 'sync_update_v' in ast.unparse(n.value)]
    if len(cands) != 1:
        raise GenError('VectorQuantize.forward: expected exactly one synchronous-update assignment to quantize')
    return emit_kernel('k_vq_sync_update', VQ, 'VectorQuantize.forward', 'F', [('quantize', 'q', 'F'), ('self.sync_update_v', 'v', 'F')], expr=cands[0].value, funs=('detach',))


@item('k_fsq_round_ste')
def _():
    return emit_kernel('k_fsq_round_ste', FSQF, 'round_ste', 'F', [('z', 'z', 'F')], funs=('round', 'detach'))


@item('k_simvq_ste')
def _():
    return ste_item('k_simvq_ste', SIMVQ, 'SimVQ.forward', 'quantized', [('x', 'x', 'F'), ('quantized', 'q', 'F')])


@item('k_lq_ste')
def _():
    return ste_item('k_lq_ste', LQ, 'LatentQuantize.quantize', 'quantize', [('z', 'x', 'F'), ('quantize', 'q', 'F')])


@item('k_gumbel_st')
def _():
    return ste_item('k_gumbel_st', VQ, 'gumbel_sample', 'one_hot', [('one_hot', 'h', 'F'), ('π1', 'p', 'F')])


@item('k_lens_to_mask')
def _():
    """lens_to_mask(lens, max_length): position n of a row is valid iff n < lens[row]  (`seq < lens[:, None]` with seq = arange(max_length))"""
    f = find_func(VQ, 'lens_to_mask')
    if f.decorator_list:
        raise GenError('lens_to_mask carries decorators: ' + ', '.join(ast.unparse(d) for d in f.decorator_list))
    seq = ast.unparse(assigned_expr(VQ, 'lens_to_mask', 'seq'))
    ret = ast.unparse(return_expr(VQ, 'lens_to_mask'))
    if seq != 'torch.arange(max_length, device=lens.device)' or ret != 'seq < lens[:, None]':
        raise GenError(f'lens_to_mask changed: seq = {seq}; return {ret}')
    txt = G.HEADER.format(comment='vector_quantize_pytorch.py:lens_to_mask  (entry [row][n] of `arange(max_length) < lens[:, None]`)')
    txt += 'Definition k_lens_to_mask (n len : Z) : bool := Z.ltb n len.\n'
    return txt


@item('p_lfq_codec')
def _():
    rows = [ast.unparse(assigned_expr(LFQF, 'LFQ.forward', 'indices', 0)),
            ast.unparse(assigned_expr(LFQF, 'LFQ.indices_to_codes', 'bits'))]
    init = find_func(LFQF, 'LFQ.__init__')
    for n in ast.walk(init):
        if isinstance(n, ast.Call) and G.call_name(n) == 'self.register_buffer' and n.args[0].value == 'mask':
            rows.append(ast.unparse(n.args[1]))
    rows.append(ast.unparse(assigned_expr(LFQF, 'LFQ.__init__', 'bits')))
    return G.emit_strings('p_lfq_codec', rows, 'LFQ index computation (pinned shape)')


@item('k_lq_scale_and_shift')
def _():
    return emit_kernel('k_lq_scale_and_shift', LQ, 'LatentQuantize._scale_and_shift', 'F',
                       [('zhat_normalized', 'z', 'F'), ('half_width', 'hw', 'F')], skip=('half_width',))


@item('k_lq_scale_and_shift_inverse')
def _():
    return emit_kernel('k_lq_scale_and_shift_inverse', LQ, 'LatentQuantize._scale_and_shift_inverse', 'F',
                       [('zhat', 'z', 'F'), ('half_width', 'hw', 'F')], skip=('half_width',))


@item('p_lq_codec')
def _():
    rows = [ast.unparse(return_expr(LQ, 'LatentQuantize.codes_to_indices')),
            ast.unparse(assigned_expr(LQ, 'LatentQuantize.indices_to_codes', 'codes_non_centered')),
            ast.unparse(assigned_expr(LQ, 'LatentQuantize._scale_and_shift', 'half_width'))]
    return G.emit_strings('p_lq_codec', rows, 'LatentQuantize codec (pinned shape)')


@item('p_select')
def _():
    """selection dataflow (pinned shape): score expressions, argmax/argmin sites, codebook read, lookup"""
    rows = []
    g = find_func(VQ, 'gumbel_sample')
    rows.append('gumbel.ind=' + ast.unparse(assigned_expr(VQ, 'gumbel_sample', 'ind')))
    sl = [s for s in ast.walk(g) if isinstance(s, ast.Assign) and ast.unparse(s.targets[0]) == 'sampling_logits']
    rows += ['gumbel.sampling_logits=' + ast.unparse(s.value) for s in sl]
    for cls in ('EuclideanCodebook', 'CosineSimCodebook'):
        f = find_func(VQ, f'{cls}.forward')
        for tgt in ('embed', 'dist', 'quantize'):
            for s in ast.walk(f):
                if isinstance(s, ast.Assign) and ast.unparse(s.targets[0]) == tgt:
                    rows.append(f'{cls}.{tgt}=' + ast.unparse(s.value))
        rows.append(f'{cls}.select=' + ast.unparse(assigned_expr(VQ, f'{cls}.forward', '(embed_ind, embed_onehot)')))
    rows.append('cosine.transform_input=' + ast.unparse(assigned_expr(VQ, 'CosineSimCodebook.__init__', 'self.transform_input')))
    rows.append('euclid.transform_input=' + ast.unparse(assigned_expr(VQ, 'EuclideanCodebook.__init__', 'self.transform_input')))
    rows.append('simvq.dist=' + ast.unparse(assigned_expr(SIMVQ, 'SimVQ.forward', 'dist')))
    rows += sorted('simvq.indices=' + ast.unparse(n.value) for n in ast.walk(find_func(SIMVQ, 'SimVQ.forward'))
                   if isinstance(n, ast.Assign) and ast.unparse(n.targets[0]) == 'indices')
    rows.append('simvq.quantized=' + ast.unparse(assigned_expr(SIMVQ, 'SimVQ.forward', 'quantized', 0)))
    rows.append('latent.index=' + ast.unparse(assigned_expr(LQ, 'LatentQuantize.quantize', 'index')))
    rows.append('latent.quantize=' + ast.unparse(assigned_expr(LQ, 'LatentQuantize.quantize', 'quantize', 0)))
    rows.append('latent.distance=' + ast.unparse(return_expr(LQ, 'LatentQuantize.quantize.distance')))
    return G.emit_strings('p_select', rows, 'selection dataflow (pinned shape)')


@item('p_expire')
def _():
    """expiry dataflow (pinned shape): the three writes of replace() in both classes, pool construction, sampling branch, reset default"""
    rows = []
    for cls in ('EuclideanCodebook', 'CosineSimCodebook'):
        f = find_func(VQ, f'{cls}.replace')
        for s in ast.walk(f):
            if isinstance(s, ast.Assign):
                rows.append(f'{cls}.replace:' + ast.unparse(s))
        rows.append(f'{cls}.replace.loop:' + ast.unparse([n for n in f.body if isinstance(n, ast.For)][0].iter))
        rows.append(f'{cls}.pool:' + ast.unparse(assigned_expr(VQ, f'{cls}.expire_codes_', 'batch_samples')))
        rows.append(f'{cls}.reset:' + ast.unparse(assigned_expr(VQ, f'{cls}.__init__', 'self.reset_cluster_size')))
        rows.append(f'{cls}.call:' + ast.unparse([n for n in ast.walk(find_func(VQ, f'{cls}.expire_codes_')) if isinstance(n, ast.Call) and G.call_name(n) == 'self.replace'][0]))
    sv = find_func(VQ, 'sample_vectors')
    for s in ast.walk(sv):
        if isinstance(s, ast.If):
            rows.append('sample_vectors.if:' + ast.unparse(s.test))
        if isinstance(s, ast.Assign) and ast.unparse(s.targets[0]) == 'indices':
            rows.append('sample_vectors.indices:' + ast.unparse(s.value))
    rows.append('sample_vectors.return:' + ast.unparse(return_expr(VQ, 'sample_vectors')))
    vqe = find_func(VQ, 'VectorQuantize.expire_codes_')
    rows += ['vq.expire:' + ast.unparse(s) for s in vqe.body]
    f = find_func(RVQ, 'ResidualVQ.forward')
    rows += ['rvq.shared_expire:' + ast.unparse(n) for n in ast.walk(f) if isinstance(n, ast.Call) and G.call_name(n) == 'shared_layer.expire_codes_']
    rows += ['rvq.all_residuals:' + ast.unparse(n) for n in ast.walk(f) if isinstance(n, ast.Call) and G.call_name(n) == 'all_residuals.append']
    return G.emit_strings('p_expire', rows, 'expiry dataflow (pinned shape)')


@item('p_kmeans')
def _():
    """k-means dataflow (pinned shape): loop body of kmeans(), the four writes of init_embed_ and the valid-token selection"""
    rows = []
    f = find_func(VQ, 'kmeans')
    loop = [n for n in f.body if isinstance(n, ast.For)]
    if len(loop) != 1:
        raise GenError('kmeans: expected one loop')
    rows.append('kmeans.init:' + ast.unparse(assigned_expr(VQ, 'kmeans', 'means', 0)))
    rows.append('kmeans.loop:' + ast.unparse(loop[0].iter))
    for s in loop[0].body:
        rows.append('kmeans.body:' + ast.unparse(s).replace('\n', ' '))
    rows.append('kmeans.return:' + ast.unparse(return_expr(VQ, 'kmeans')))
    bb = find_func(VQ, 'batched_bincount')
    rows += ['bincount:' + ast.unparse(s) for s in bb.body]
    for cls in ('EuclideanCodebook', 'CosineSimCodebook'):
        g = find_func(VQ, f'{cls}.init_embed_')
        rows += [f'{cls}.init:' + ast.unparse(s).replace('\n', ' ') for s in g.body]
        rows.append(f'{cls}.initted_buffer:' + [ast.unparse(n) for n in ast.walk(find_func(VQ, f'{cls}.__init__'))
                                                if isinstance(n, ast.Call) and G.call_name(n) == 'self.register_buffer' and n.args[0].value == 'initted'][0])
        rows.append(f'{cls}.call:' + [ast.unparse(n) for n in ast.walk(find_func(VQ, f'{cls}.forward')) if isinstance(n, ast.Call) and G.call_name(n) == 'self.init_embed_'][0])
    return G.emit_strings('p_kmeans', rows, 'k-means dataflow (pinned shape)')


@item('p_mask')
def _():
    """masking dataflow (pinned shape): mask replication into the flattened (codebook, tokens) layout, one-hot zeroing, valid-token
    selection for k-means / expiry, loss masks, output / index fill at padded positions, lens -> mask"""
    rows = ['lens_to_mask:' + ast.unparse(return_expr(VQ, 'lens_to_mask')) + ' ; seq=' + ast.unparse(assigned_expr(VQ, 'lens_to_mask', 'seq'))]
    for cls in ('EuclideanCodebook', 'CosineSimCodebook'):
        f = find_func(VQ, f'{cls}.forward')
        rows += [f'{cls}.forward:' + ast.unparse(n) for n in ast.walk(f) if isinstance(n, ast.Assign) and ast.unparse(n.targets[0]) in ('mask', 'embed_onehot[~mask]')]
        rows += [f'{cls}.forward:' + ast.unparse(n) for n in ast.walk(f) if isinstance(n, ast.Call) and G.call_name(n) in ('self.init_embed_', 'self.expire_codes_')]
        for q in ('init_embed_', 'expire_codes_'):
            g = find_func(VQ, f'{cls}.{q}')
            rows += [f'{cls}.{q}:' + ast.unparse(n) for n in ast.walk(g) if isinstance(n, ast.Assign) and 'mask' in ast.unparse(n.value)]
    f = find_func(VQ, 'VectorQuantize.forward')
    for n in ast.walk(f):
        if isinstance(n, ast.Assign) and ast.unparse(n.targets[0]) in ('mask', 'loss_mask', 'ce_loss_mask', 'masked_out_value', 'unique_code_ids'):
            rows.append('vq.forward:' + ast.unparse(n))
        if isinstance(n, ast.Call) and G.call_name(n) in ('einx.where', 'embed_ind.masked_fill_'):
            rows.append('vq.forward:' + ast.unparse(n).replace('\n', ' '))
        if isinstance(n, ast.Assign) and ast.unparse(n.targets[0]) in ('loss', 'commit_loss') and 'mask' in ast.unparse(n.value):
            rows.append('vq.forward:' + ast.unparse(n))
    ce = find_func(VQ, 'VectorQuantize.forward.calculate_ce_loss')
    rows += ['vq.ce:' + ast.unparse(n).replace('\n', ' ') for n in ast.walk(ce) if isinstance(n, ast.Call) and G.call_name(n) == 'F.cross_entropy']
    lf = find_func(LFQF, 'LFQ.forward')
    rows += ['lfq.forward:' + ast.unparse(n) for n in ast.walk(lf) if isinstance(n, ast.Assign) and 'mask]' in ast.unparse(n.value)]
    return G.emit_strings('p_mask', rows, 'masking dataflow (pinned shape)')


@item('p_residual')
def _():
    """residual loop dataflow (pinned shape) of the four residual classes and the grouped wrappers"""
    rows = []
    for fname, cls, tag in ((RVQ, 'ResidualVQ', 'rvq'), (RFSQ, 'ResidualFSQ', 'rfsq'), (RLFQ, 'ResidualLFQ', 'rlfq'), (RSVQ, 'ResidualSimVQ', 'rsvq')):
        f = find_func(fname, f'{cls}.forward')
        loops = [n for n in ast.walk(f) if isinstance(n, ast.For)]
        if len(loops) != 1:
            raise GenError(f'{cls}.forward: expected exactly one loop')
        rows.append(f'{tag}.loop:' + ast.unparse(loops[0].target) + ' in ' + ast.unparse(loops[0].iter))
        for n in ast.walk(loops[0]):
            if isinstance(n, ast.Assign) and ast.unparse(n.targets[0]) in ('residual', 'quantized_out', 'quantized', '(quantized, indices)', '(quantized, *rest)', '(quantized, indices, loss)', 'maybe_mlp'):
                rows.append(f'{tag}.body:' + ast.unparse(n).replace('\n', ' '))
        for n in ast.walk(f):
            if isinstance(n, ast.Assign) and ast.unparse(n.targets[0]) in ('residual', 'quantized_out', 'x') and n not in list(ast.walk(loops[0])):
                rows.append(f'{tag}.init:' + ast.unparse(n))
            if isinstance(n, ast.Assign) and 'torch.stack' in ast.unparse(n.value):
                rows.append(f'{tag}.stack:' + ast.unparse(n))
        g = find_func(fname, f'{cls}.get_codes_from_indices')
        for n in ast.walk(g):
            if isinstance(n, ast.Assign) and ast.unparse(n.targets[0]) in ('mask', 'indices', 'all_codes', 'scales', 'layer_codes', 'codes', 'quantized_out'):
                rows.append(f'{tag}.decode:' + ast.unparse(n).replace('\n', ' '))
            if isinstance(n, ast.AugAssign):
                rows.append(f'{tag}.decode:' + ast.unparse(n))
        rows.append(f'{tag}.output:' + ast.unparse(return_expr(fname, f'{cls}.get_output_from_indices')) + ' ; ' +
                    ' ; '.join(ast.unparse(n) for n in find_func(fname, f'{cls}.get_output_from_indices').body if isinstance(n, ast.Assign)))
    rows.append('rfsq.scales:' + ' ; '.join(ast.unparse(n) for n in ast.walk(find_func(RFSQ, 'ResidualFSQ.__init__')) if isinstance(n, ast.Call) and G.call_name(n) == 'scales.append'))
    rows.append('rlfq.scale:' + ast.unparse(assigned_expr(RLFQ, 'ResidualLFQ.__init__', 'codebook_scale')))
    for fname, cls, tag in ((RVQ, 'GroupedResidualVQ', 'grvq'), (RFSQ, 'GroupedResidualFSQ', 'grfsq'), (RLFQ, 'GroupedResidualLFQ', 'grlfq')):
        f = find_func(fname, f'{cls}.forward')
        for n in ast.walk(f):
            if isinstance(n, ast.Assign) and ast.unparse(n.targets[0]) in ('x', 'out', 'quantized', 'all_indices', 'forward_kwargs'):
                rows.append(f'{tag}.fwd:' + ast.unparse(n).replace('\n', ' '))
        rows.append(f'{tag}.split_dim:' + ast.unparse(return_expr(fname, f'{cls}.split_dim')))
        rows.append(f'{tag}.decode:' + ast.unparse(return_expr(fname, f'{cls}.get_output_from_indices')))
    return G.emit_strings('p_residual', rows, 'residual loop dataflow (pinned shape)')


@item('p_decode')
def _():
    """public decoders (pinned shape): VectorQuantize / SimVQ / FSQ / LFQ / LatentQuantize"""
    rows = []
    for q in ('VectorQuantize.get_codes_from_indices', 'VectorQuantize.get_output_from_indices'):
        rows += [q + ':' + ast.unparse(n).replace('\n', ' ') for n in find_func(VQ, q).body if not (isinstance(n, ast.Expr) and isinstance(n.value, ast.Constant))]
    rows += ['SimVQ.indices_to_codes:' + ast.unparse(n).replace('\n', ' ') for n in find_func(SIMVQ, 'SimVQ.indices_to_codes').body]
    rows += ['FSQ.indices_to_codes:' + ast.unparse(n).replace('\n', ' ') for n in find_func(FSQF, 'FSQ.indices_to_codes').body if not (isinstance(n, ast.Expr) and isinstance(n.value, ast.Constant))]
    rows += ['LFQ.indices_to_codes:' + ast.unparse(n).replace('\n', ' ') for n in find_func(LFQF, 'LFQ.indices_to_codes').body]
    rows += ['LatentQuantize.indices_to_codes:' + ast.unparse(n).replace('\n', ' ') for n in find_func(LQ, 'LatentQuantize.indices_to_codes').body if not (isinstance(n, ast.Expr) and isinstance(n.value, ast.Constant))]
    return G.emit_strings('p_decode', rows, 'public decoders (pinned shape)')


@item('p_shapes')
def _():
    """shape / dtype relevant call sites (pinned shape): the squeeze in rotate_to, index dtype conversions, null indices, loss tensors"""
    rows = []
    f = find_func(VQ, 'rotate_to')
    sq = [n for n in ast.walk(f) if isinstance(n, ast.Call) and isinstance(n.func, ast.Attribute) and n.func.attr == 'squeeze']
    if len(sq) != 1:
        raise GenError('rotate_to: expected exactly one squeeze call')
    rows.append('rotate_to.squeeze_args=' + ', '.join(ast.unparse(a) for a in sq[0].args) + '|' + ', '.join(f'{k.arg}={ast.unparse(k.value)}' for k in sq[0].keywords))
    rows.append('rotate_to.pack=' + ast.unparse(assigned_expr(VQ, 'rotate_to', '(src, inverse)')))
    rows.append('rotate_to.return=' + ast.unparse(return_expr(VQ, 'rotate_to')))
    rows.append('rotation.e=' + ast.unparse(assigned_expr(VQ, 'efficient_rotation_trick_transform', 'e')))
    rows.append('fsq.index_dtype=' + ast.unparse(return_expr(FSQF, 'FSQ.codes_to_indices')))
    rows.append('lq.index_dtype=' + ast.unparse(return_expr(LQ, 'LatentQuantize.codes_to_indices')))
    rows.append('lfq.indices=' + ast.unparse(assigned_expr(LFQF, 'LFQ.forward', 'indices', 0)))
    for fname, cls in ((RVQ, 'ResidualVQ'), (RFSQ, 'ResidualFSQ'), (RLFQ, 'ResidualLFQ'), (RSVQ, 'ResidualSimVQ')):
        g = find_func(fname, f'{cls}.forward')
        rows += [f'{cls}.' + ast.unparse(n).replace('\n', ' ') for n in ast.walk(g) if isinstance(n, ast.Assign) and ast.unparse(n.targets[0]) in ('null_indices', 'null_loss', 'null_indices_shape')]
    g = find_func(VQ, 'VectorQuantize.forward')
    rows += ['vq.' + ast.unparse(n) for n in ast.walk(g) if isinstance(n, ast.Assign) and ast.unparse(n.targets[0]) in ('only_one', 'loss') and ('torch.tensor' in ast.unparse(n.value) or 'ndim' in ast.unparse(n.value))]
    return G.emit_strings('p_shapes', rows, 'shape / dtype call sites (pinned shape)')


@item('p_gumbel')
def _():
    """stochastic sampling dataflow (pinned shape)"""
    rows = ['gumbel_noise:' + ast.unparse(n).replace('\n', ' ') for n in find_func(VQ, 'gumbel_noise').body]
    rows += ['gumbel_sample:' + ast.unparse(n).replace('\n', ' ') for n in find_func(VQ, 'gumbel_sample').body]
    rows += ['log:' + ast.unparse(return_expr(VQ, 'log'))]
    for cls in ('EuclideanCodebook', 'CosineSimCodebook'):
        rows.append(f'{cls}.temp:' + ast.unparse(assigned_expr(VQ, f'{cls}.forward', 'sample_codebook_temp')))
        rows.append(f'{cls}.temp_cfg:' + ast.unparse(assigned_expr(VQ, f'{cls}.__init__', 'self.sample_codebook_temp')))
    rows.append('vq.partial:' + ast.unparse(assigned_expr(VQ, 'VectorQuantize.__init__', 'gumbel_sample_fn')).replace('\n', ' '))
    rows.append('vq.kwargs:' + ast.unparse(assigned_expr(VQ, 'VectorQuantize.forward', 'codebook_forward_kwargs')).replace('\n', ' '))
    return G.emit_strings('p_gumbel', rows, 'stochastic sampling dataflow (pinned shape)')


@item('p_grad')
def _():
    """every .detach() / no_grad site on the gradient paths (pinned shape)"""
    rows = []

    def detach_sites(fname, qual, tag):
        f = find_func(fname, qual)
        for n in ast.walk(f):
            if isinstance(n, (ast.Assign, ast.Return)) and ('detach' in ast.unparse(n)):
                rows.append(f'{tag}:' + ast.unparse(n).replace('\n', ' '))
            if isinstance(n, ast.With) and 'no_grad' in ast.unparse(n.items[0]):
                rows.append(f'{tag}:with ' + ast.unparse(n.items[0]) + ': ' + ' ; '.join(ast.unparse(b).replace('\n', ' ') for b in n.body))
    detach_sites(VQ, 'VectorQuantize.forward', 'vq')
    detach_sites(VQ, 'rotate_to', 'rotate_to')
    detach_sites(VQ, 'efficient_rotation_trick_transform', 'rotation')
    detach_sites(VQ, 'EuclideanCodebook.forward', 'euclid')
    detach_sites(VQ, 'CosineSimCodebook.forward', 'cosine')
    detach_sites(VQ, 'gumbel_sample', 'gumbel')
    detach_sites(SIMVQ, 'SimVQ.forward', 'simvq')
    detach_sites(FSQF, 'round_ste', 'round_ste')
    detach_sites(FSQF, 'floor_ste', 'floor_ste')
    detach_sites(LFQF, 'LFQ.forward', 'lfq')
    detach_sites(LQ, 'LatentQuantize.quantize', 'latent')
    detach_sites(LQ, 'LatentQuantize.quantization_loss', 'latent')
    detach_sites(LQ, 'LatentQuantize.commitment_loss', 'latent')
    for fname, cls in ((RVQ, 'ResidualVQ'), (RFSQ, 'ResidualFSQ'), (RLFQ, 'ResidualLFQ'), (RSVQ, 'ResidualSimVQ')):
        detach_sites(fname, f'{cls}.forward', cls)
    rows.append('vq.rotate_call:' + ' ; '.join(ast.unparse(n) for n in ast.walk(find_func(VQ, 'VectorQuantize.forward')) if isinstance(n, ast.Call) and G.call_name(n) == 'rotate_to'))
    rows.append('vq.sync_update:' + ' ; '.join(ast.unparse(n) for n in ast.walk(find_func(VQ, 'VectorQuantize.forward')) if isinstance(n, ast.Assign) and 'sync_update_v' in ast.unparse(n.value)))
    return G.emit_strings('p_grad', rows, 'detach / no_grad sites (pinned shape)')


@item('p_losses')
def _():
    """loss assembly (pinned shape): commitment / CE / orthogonal / diversity terms and weights of VectorQuantize, SimVQ, LFQ, LatentQuantize"""
    rows = []
    f = find_func(VQ, 'VectorQuantize.forward')
    for n in ast.walk(f):
        if isinstance(n, ast.Assign) and ast.unparse(n.targets[0]) in ('loss', 'commit_loss', 'orthogonal_reg_loss', 'codebook_diversity_loss', 'prob', 'avg_prob', 'loss_breakdown', 'inplace_optimize_loss'):
            rows.append('vq:' + ast.unparse(n).replace('\n', ' '))
    rows += ['vq.ce:' + ast.unparse(n).replace('\n', ' ') for n in find_func(VQ, 'VectorQuantize.forward.calculate_ce_loss').body]
    rows += ['orth:' + ast.unparse(n).replace('\n', ' ') for n in find_func(VQ, 'orthogonal_loss_fn').body]
    rows += ['entropy:' + ast.unparse(return_expr(VQ, 'entropy')), 'log:' + ast.unparse(return_expr(VQ, 'log'))]
    rows += ['simvq:' + ast.unparse(n).replace('\n', ' ') for n in ast.walk(find_func(SIMVQ, 'SimVQ.forward')) if isinstance(n, ast.Assign) and ast.unparse(n.targets[0]) == 'commit_loss']
    rows += ['simvq.return:' + ast.unparse(return_expr(SIMVQ, 'SimVQ.forward'))]
    lf = find_func(LFQF, 'LFQ.forward')
    for n in ast.walk(lf):
        if isinstance(n, ast.Assign) and ast.unparse(n.targets[0]) in ('entropy_aux_loss', 'per_sample_entropy', 'codebook_entropy', 'avg_prob', 'commit_loss', 'aux_loss', 'prob', 'distance', 'per_sample_probs',
                                                                       'entropy_aux_loss = per_sample_entropy = codebook_entropy'):
            rows.append('lfq:' + ast.unparse(n).replace('\n', ' '))
    rows += ['lfq.entropy:' + ast.unparse(return_expr(LFQF, 'entropy')), 'lfq.log:' + ast.unparse(return_expr(LFQF, 'log'))]
    lqf = find_func(LQ, 'LatentQuantize.forward')
    rows += ['latent:' + ast.unparse(n).replace('\n', ' ') for n in ast.walk(lqf) if isinstance(n, ast.Assign) and ast.unparse(n.targets[0]) in ('loss', 'commitment_loss', 'quantization_loss')]
    return G.emit_strings('p_losses', rows, 'loss assembly (pinned shape)')


@item('p_clamps')
def _():
    """every clamp / eps / masked_fill that keeps an operation finite (pinned shape)"""
    rows = ['l2norm:' + ast.unparse(return_expr(VQ, 'l2norm')) + ' | defaults ' + ', '.join(ast.unparse(d) for d in find_func(VQ, 'l2norm').args.defaults),
            'safe_div:' + ast.unparse(return_expr(VQ, 'safe_div')) + ' | defaults ' + ', '.join(ast.unparse(d) for d in find_func(VQ, 'safe_div').args.defaults),
            'cdist:' + ast.unparse(return_expr(VQ, 'cdist')),
            'log:' + ast.unparse(return_expr(VQ, 'log')) + ' | defaults ' + ', '.join(ast.unparse(d) for d in find_func(VQ, 'log').args.defaults),
            'entropy:' + ast.unparse(return_expr(VQ, 'entropy')) + ' | defaults ' + ', '.join(ast.unparse(d) for d in find_func(VQ, 'entropy').args.defaults),
            'laplace:' + ast.unparse(return_expr(VQ, 'laplace_smoothing')) + ' | defaults ' + ', '.join(ast.unparse(d) for d in find_func(VQ, 'laplace_smoothing').args.defaults),
            'kmeans.clamp:' + ast.unparse(assigned_expr(VQ, 'kmeans', 'bins_min_clamped')) + ' ; ' + ast.unparse(assigned_expr(VQ, 'kmeans', 'zero_mask')),
            'lfq.log:' + ast.unparse(return_expr(LFQF, 'log')) + ' | defaults ' + ', '.join(ast.unparse(d) for d in find_func(LFQF, 'log').args.defaults),
            'fsq.bound:' + ' ; '.join(ast.unparse(n) for n in find_func(FSQF, 'FSQ.bound').body if not isinstance(n, ast.Expr)) + ' | eps default ' + ', '.join(ast.unparse(d) for d in find_func(FSQF, 'FSQ.bound').args.defaults),
            'lfq.cosine_sim_linear:' + ' ; '.join(ast.unparse(n).replace('\n', ' ') for n in find_func(LFQF, 'CosineSimLinear.forward').body if not isinstance(n, ast.Expr)),
            'rotate_to:' + ' ; '.join(ast.unparse(n).replace('\n', ' ') for n in find_func(VQ, 'rotate_to').body if 'safe_div' in ast.unparse(n) or 'norm' in ast.unparse(n))]
    return G.emit_strings('p_clamps', rows, 'clamps / eps (pinned shape)')


@item('p_dist')
def _():
    """distributed wiring (pinned shape): is_distributed defaults, all_reduce / sample_fn selection, distributed sampling, seed sync, LFQ distributed mean"""
    rows = ['vq.is_distributed:' + ast.unparse(return_expr(VQ, 'is_distributed'))]
    f = find_func(VQ, 'VectorQuantize.__init__')
    rows += ['vq.sync_default:' + ast.unparse(n).replace('\n', ' ') for n in ast.walk(f) if isinstance(n, ast.If) and 'sync_codebook' in ast.unparse(n.test)]
    rows += ['vq.use_ddp:' + ast.unparse(k.value) for n in ast.walk(f) if isinstance(n, ast.Call) and G.call_name(n) == 'dict' for k in n.keywords if k.arg == 'use_ddp']
    for cls in ('EuclideanCodebook', 'CosineSimCodebook'):
        for tgt in ('self.sample_fn', 'self.replace_sample_fn', 'self.kmeans_all_reduce_fn', 'self.all_reduce_fn'):
            rows.append(f'{cls}.{tgt}=' + ast.unparse(assigned_expr(VQ, f'{cls}.__init__', tgt)))
    rows += ['sample_vectors_distributed:' + ast.unparse(n).replace('\n', ' ') for n in find_func(VQ, 'sample_vectors_distributed').body]
    rows += ['all_gather_variably_sized:' + ast.unparse(n).replace('\n', ' ') for n in find_func(VQ, 'all_gather_variably_sized').body]
    rows += ['sample_multinomial:' + ast.unparse(n).replace('\n', ' ') for n in find_func(VQ, 'sample_multinomial').body]
    for fname, tag in ((RVQ, 'rvq'), (RFSQ, 'rfsq'), (RLFQ, 'rlfq'), (RSVQ, 'rsvq')):
        rows += [f'{tag}.seed:' + ast.unparse(n).replace('\n', ' ') for n in find_func(fname, 'get_maybe_sync_seed').body]
    rows += ['lfq.mean:' + ast.unparse(n).replace('\n', ' ') for n in find_func(LFQF, 'maybe_distributed_mean').body]
    rows += ['lfq.avg:' + ast.unparse(n) for n in ast.walk(find_func(LFQF, 'LFQ.forward')) if isinstance(n, ast.Assign) and ast.unparse(n.targets[0]) == 'avg_prob']
    return G.emit_strings('p_dist', rows, 'distributed wiring (pinned shape)')


# =============================================================================== inventories (G4)
for fname, cls, tag in ((VQ, 'EuclideanCodebook', 'euclid'), (VQ, 'CosineSimCodebook', 'cosine'), (VQ, 'VectorQuantize', 'vq'),
                        (FSQF, 'FSQ', 'fsq'), (LFQF, 'LFQ', 'lfq'), (SIMVQ, 'SimVQ', 'simvq'), (RPQ, 'RandomProjectionQuantizer', 'rpq'),
                        (RFSQ, 'ResidualFSQ', 'rfsq'), (LQ, 'LatentQuantize', 'lq'), (RVQ, 'ResidualVQ', 'rvq'), (RLFQ, 'ResidualLFQ', 'rlfq'),
                        (RSVQ, 'ResidualSimVQ', 'rsvq')):
    ITEMS.append((f'inv_{tag}', (lambda fname=fname, cls=cls, tag=tag: G.emit_inventory(f'inv_{tag}', fname, cls))))


# initialiser expressions of the NON-persistent buffers (must be rebuilt by __init__ from constructor arguments alone)
def npinit_item(name, fname, cls, locals_of=()):
    def thunk():
        inv = G.class_inventory(fname, cls)
        rows = []
        for n, k, p, src in inv:
            if k == 'Buffer' and not p:
                rows.append(f'{n}={src}')
        # the local definitions those initialisers depend on (assignments in __init__)
        for tgt in locals_of:
            rows.append(f'local {tgt}=' + ast.unparse(assigned_expr(fname, f'{cls}.__init__', tgt)))
        return G.emit_strings(name, rows, f'initialisers of non-persistent buffers of {cls}')
    ITEMS.append((name, thunk))


npinit_item('npinit_vq', VQ, 'VectorQuantize')
npinit_item('npinit_fsq', FSQF, 'FSQ', ['_levels', '_basis', 'implicit_codebook', 'self.codebook_size'])
npinit_item('npinit_lfq', LFQF, 'LFQ', ['codebook', 'bits', 'all_codes'])
npinit_item('npinit_rfsq', RFSQ, 'ResidualFSQ', ['levels_tensor'])
npinit_item('npinit_lq', LQ, 'LatentQuantize', ['_levels', '_basis', 'implicit_codebook', 'self.codebook_size'])


for cls, tag in (('EuclideanCodebook', 'euclid'), ('CosineSimCodebook', 'cosine')):
    guard_item(f'g_{tag}_embed_is_param', VQ, f'{cls}.__init__', stmt_assigns('self.embed'), 'self.embed = nn.Parameter(embed)')


@item('p_simvq_codebook')
def _():
    rows = ['codebook=' + ast.unparse(return_expr(SIMVQ, 'SimVQ.codebook')),
            'frozen=' + ast.unparse(assigned_expr(SIMVQ, 'SimVQ.__init__', 'codebook', 0)) + ' ; ' + ast.unparse(assigned_expr(SIMVQ, 'SimVQ.__init__', 'codebook', 1)),
            'transform=' + ast.unparse(assigned_expr(SIMVQ, 'SimVQ.__init__', 'self.code_transform')),
            'decode=' + ast.unparse(assigned_expr(SIMVQ, 'SimVQ.indices_to_codes', 'frozen_codes')) + ' ; ' + ast.unparse(assigned_expr(SIMVQ, 'SimVQ.indices_to_codes', 'quantized', 0))]
    rp = find_func(RPQ, 'RandomProjectionQuantizer.__init__')
    rows += ['rpq.' + ast.unparse(n).replace('\n', ' ') for n in rp.body if 'rand_projs' in ast.unparse(n) or 'self.vq' in ast.unparse(n)]
    return G.emit_strings('p_simvq_codebook', rows, 'SimVQ implicit codebook / RPQ construction (pinned shape)')


def writes_item(name, fname, quals):
    def thunk():
        rows = []
        for q in quals:
            rows += [q + ':' + w for w in G.state_writes(find_func(fname, q))]
        return G.emit_strings(name, rows, f'in-place writes to self.* in {quals}')
    ITEMS.append((name, thunk))


writes_item('w_euclid', VQ, ['EuclideanCodebook.forward', 'EuclideanCodebook.init_embed_', 'EuclideanCodebook.replace',
                             'EuclideanCodebook.expire_codes_', 'EuclideanCodebook.update_ema'])
writes_item('w_cosine', VQ, ['CosineSimCodebook.forward', 'CosineSimCodebook.init_embed_', 'CosineSimCodebook.replace',
                             'CosineSimCodebook.expire_codes_', 'CosineSimCodebook.update_ema'])
writes_item('w_vq', VQ, ['VectorQuantize.forward', 'VectorQuantize.get_codes_from_indices', 'VectorQuantize.get_output_from_indices',
                         'VectorQuantize.expire_codes_', 'VectorQuantize.update_in_place_optimizer', 'VectorQuantize.maybe_split_heads_from_input',
                         'gumbel_sample', 'gumbel_noise', 'cdist', 'rotate_to', 'efficient_rotation_trick_transform', 'kmeans', 'ema_inplace',
                         'sample_vectors', 'batched_bincount', 'orthogonal_loss_fn'])
writes_item('w_fsq', FSQF, ['FSQ.forward', 'FSQ.quantize', 'FSQ.bound', 'FSQ.symmetry_preserving_bound', 'FSQ.codes_to_indices', 'FSQ.indices_to_codes',
                            'FSQ._indices_to_codes', 'FSQ.indices_to_level_indices', 'FSQ._scale_and_shift', 'FSQ._scale_and_shift_inverse'])
writes_item('w_lfq', LFQF, ['LFQ.forward', 'LFQ.indices_to_codes', 'LFQ.bits_to_codes'])
writes_item('w_simvq', SIMVQ, ['SimVQ.forward', 'SimVQ.indices_to_codes'])
writes_item('w_rpq', RPQ, ['RandomProjectionQuantizer.forward'])
writes_item('w_rvq', RVQ, ['ResidualVQ.forward', 'ResidualVQ.get_codes_from_indices', 'ResidualVQ.get_output_from_indices',
                           'GroupedResidualVQ.forward', 'GroupedResidualVQ.get_codes_from_indices', 'GroupedResidualVQ.get_output_from_indices', 'MLP.forward'])
writes_item('w_rfsq', RFSQ, ['ResidualFSQ.forward', 'ResidualFSQ.get_codes_from_indices', 'ResidualFSQ.get_output_from_indices',
                             'GroupedResidualFSQ.forward', 'GroupedResidualFSQ.get_codes_from_indices', 'GroupedResidualFSQ.get_output_from_indices'])
writes_item('w_rlfq', RLFQ, ['ResidualLFQ.forward', 'ResidualLFQ.get_codes_from_indices', 'ResidualLFQ.get_output_from_indices',
                             'GroupedResidualLFQ.forward', 'GroupedResidualLFQ.get_codes_from_indices', 'GroupedResidualLFQ.get_output_from_indices'])
writes_item('w_rsvq', RSVQ, ['ResidualSimVQ.forward', 'ResidualSimVQ.get_codes_from_indices', 'ResidualSimVQ.get_output_from_indices'])
writes_item('w_lq', LQ, ['LatentQuantize.forward', 'LatentQuantize.quantize', 'LatentQuantize.codes_to_indices', 'LatentQuantize.indices_to_codes',
                         'LatentQuantize._scale_and_shift', 'LatentQuantize._scale_and_shift_inverse', 'LatentQuantize.quantization_loss', 'LatentQuantize.commitment_loss'])


@item('o_rpq_eval')
def _():
    return G.emit_call_sequence('o_rpq_eval', RPQ, 'RandomProjectionQuantizer.forward', ('self.vq.eval', 'self.vq.train', 'self.vq'),
                                'RandomProjectionQuantizer.forward: self.vq.eval() must precede self.vq(...)')


for cls, tag in (('EuclideanCodebook', 'euclid'), ('CosineSimCodebook', 'cosine')):
    ITEMS.append((f'o_{tag}_collectives', (lambda cls=cls, tag=tag: G.emit_call_sequence(
        f'o_{tag}_collectives', VQ, f'{cls}.forward', ('self.all_reduce_fn', 'ema_inplace', 'self.update_ema', 'self.expire_codes_', 'self.init_embed_', 'self.gumbel_sample'),
        f'{cls}.forward: order of collectives / state updates'))))
ITEMS.append(('o_kmeans_collectives', lambda: G.emit_call_sequence('o_kmeans_collectives', VQ, 'kmeans', ('all_reduce_fn', 'sample_fn', 'batched_bincount', 'torch.argmax', 'cdist', 'l2norm', 'torch.where'), 'kmeans: order of steps')))

# masking vs input projection: padded rows must be zeroed BEFORE they enter the projection (Model/NonFinite.v: 0 * inf = nan in its backward)
ITEMS.append(('o_vq_mask_proj', lambda: G.emit_call_sequence('o_vq_mask_proj', VQ, 'VectorQuantize.forward', ('einx.where', 'torch.where', 'x.masked_fill', 'self.project_in'),
                                                              'VectorQuantize.forward: zeroing of padded rows vs the input projection')))
ITEMS.append(('o_rvq_mask_proj', lambda: G.emit_call_sequence('o_rvq_mask_proj', RVQ, 'ResidualVQ.forward', ('einx.where', 'torch.where', 'x.masked_fill', 'self.project_in'),
                                                               'ResidualVQ.forward: zeroing of padded rows vs the input projection')))

# k-means initialisation: everything that can raise (masking, kmeans, sampling) comes BEFORE the first write, and the `initted` flag is written last
for cls, tag in (('EuclideanCodebook', 'euclid'), ('CosineSimCodebook', 'cosine')):
    ITEMS.append((f'o_{tag}_init', (lambda cls=cls, tag=tag: G.emit_call_sequence(
        f'o_{tag}_init', VQ, f'{cls}.init_embed_', ('kmeans', 'rearrange', 'self.embed.data.copy_', 'self.embed_avg.data.copy_', 'self.cluster_size.data.copy_', 'self.initted.data.copy_',
                                                    'self.initted.copy_', 'self.initted.fill_', 'self.initted.data.fill_'),
        f'{cls}.init_embed_: k-means before any write, the flag last'))))

# which random generator draws the quantize-dropout depth: a private random.Random(seed) instance, never the process-global functions (Model/RngSched.v)
for cls, tag, fn in (('ResidualVQ', 'rvq', RVQ), ('ResidualFSQ', 'rfsq', RFSQ), ('ResidualLFQ', 'rlfq', RLFQ), ('ResidualSimVQ', 'rsvq', RSVQ)):
    ITEMS.append((f'o_{tag}_rng', (lambda cls=cls, tag=tag, fn=fn: G.emit_call_sequence(
        f'o_{tag}_rng', fn, f'{cls}.forward', ('random.Random', 'rand.randrange', 'random.seed', 'random.randrange', 'random.randint', 'random.random', 'random.choice',
                                               'random.getrandbits', 'random.uniform'),
        f'{cls}.forward: generator of the dropout depth'))))

# writes THROUGH view handles: an in-place write whose target is a reshape / flatten / view / rearrange ... expression (or a name bound to one) lands
# in a throw-away copy whenever that call cannot return a view (a dense permuted input: round-6 seeds C04-f, C05-f, C06-f, C09-f, C10-f).  The
# inventory lists every such statement of the package; it is pinned, so a new one is an obligation to look at.
_VIEW_CALLS = {'reshape', 'flatten', 'view', 'rearrange', 'permute', 'transpose', 't', 'float', 'to', 'type', 'expand', 'unflatten', 'squeeze', 'unsqueeze', 'chunk', 'split', 'unbind', 'narrow', 'movedim', 'contiguous'}


def _view_call_in(e):
    for n in ast.walk(e):
        if isinstance(n, ast.Call):
            f = n.func
            nm = f.attr if isinstance(f, ast.Attribute) else (f.id if isinstance(f, ast.Name) else None)
            if nm in _VIEW_CALLS:
                return nm
    return None


@item('inv_view_writes')
def _():
    rows = []
    for fname in (VQ, RVQ, FSQF, LFQF, RFSQ, RLFQ, RSVQ, SIMVQ, LQ, RPQ):
        tree = G.module_ast(fname)
        for func in [n for n in ast.walk(tree) if isinstance(n, ast.FunctionDef)]:
            handles = {}
            for st in ast.walk(func):
                if isinstance(st, ast.Assign) and len(st.targets) == 1 and isinstance(st.targets[0], ast.Name) and isinstance(st.value, ast.Call) and _view_call_in(st.value):
                    handles[st.targets[0].id] = _view_call_in(st.value)
            for st in ast.walk(func):
                hit = None
                if isinstance(st, ast.Assign):
                    for t in st.targets:
                        if isinstance(t, ast.Subscript):
                            if _view_call_in(t.value):
                                hit = 'subscript assignment through ' + _view_call_in(t.value)
                            elif isinstance(t.value, ast.Name) and t.value.id in handles:
                                hit = f'subscript assignment to the handle {t.value.id} <- {handles[t.value.id]}'
                elif isinstance(st, ast.AugAssign):
                    base = st.target.value if isinstance(st.target, ast.Subscript) else st.target
                    if _view_call_in(base):
                        hit = 'augmented assignment through ' + _view_call_in(base)
                    elif isinstance(base, ast.Name) and base.id in handles:
                        hit = f'augmented assignment to the handle {base.id} <- {handles[base.id]}'
                elif isinstance(st, ast.Expr) and isinstance(st.value, ast.Call) and isinstance(st.value.func, ast.Attribute) and st.value.func.attr.endswith('_') \
                        and not st.value.func.attr.startswith('__'):
                    base = st.value.func.value
                    if _view_call_in(base):
                        hit = f'in-place method {st.value.func.attr} through ' + _view_call_in(base)
                    elif isinstance(base, ast.Name) and base.id in handles:
                        hit = f'in-place method {st.value.func.attr} on the handle {base.id} <- {handles[base.id]}'
                if hit:
                    rows.append(f'{fname}:{func.name}: {hit} :: ' + ast.unparse(st).replace('\n', ' ')[:160])
    return G.emit_strings('inv_view_writes', sorted(rows), 'in-place writes through view handles (whole package)')

# FSQ.forward: the flat index is computed from the float32 codes BEFORE they are cast back to the activation dtype (Proofs/BF16Index.v: in bfloat16 the
# index arithmetic is wrong from 258 levels on)
ITEMS.append(('o_fsq_index_cast', lambda: G.emit_call_sequence('o_fsq_index_cast', FSQF, 'FSQ.forward', ('self.quantize', 'self.codes_to_indices', 'codes.to', 'codes.type', 'self.quantize(z).to'),
                                                                'FSQ.forward: codes_to_indices before the cast to the activation dtype')))

# every call of the codebook inside VectorQuantize.forward with the names its three results are bound to: after the in-place optimiser step the module
# quantizes AGAIN, and the second call must rebind the indices as well as the vectors (Model/Requant.v; seeds C01-i / C17-i kept the first pass's indices)
@item('o_vq_codebook_calls')
def _():
    func = find_func(VQ, 'VectorQuantize.forward')
    rows = []
    for n in ast.walk(func):
        if isinstance(n, ast.Assign) and isinstance(n.value, ast.Call) and G.call_name(n.value) == 'self._codebook':
            tgt = n.targets[0]
            names = [ast.unparse(e) for e in tgt.elts] if isinstance(tgt, ast.Tuple) else [ast.unparse(tgt)]
            rows.append((n.lineno, ', '.join(names)))
    if not rows:
        raise GenError('VectorQuantize.forward: no assignment from self._codebook(...)')
    rows.sort()
    return G.emit_strings('o_vq_codebook_calls', [r for _, r in rows], 'VectorQuantize.forward: result bindings of every self._codebook(...) call, in source order')

# the branch a residual stack takes for a DROPPED layer (quantize dropout): every statement of it and every name it reads.  A dropped layer is not run,
# so the branch must not mention the layer, its codebook or anything derived from them (Model/DropIndep.v; seed C12-j added `vq.codebook.sum() * 0.`)
@item('o_dropped_branch')
def _():
    rows = []
    for fname, qual, tag in ((RVQ, 'ResidualVQ.forward', 'rvq'), (RFSQ, 'ResidualFSQ.forward', 'rfsq'), (RLFQ, 'ResidualLFQ.forward', 'rlfq'), (RSVQ, 'ResidualSimVQ.forward', 'rsvq')):
        func = find_func(fname, qual)
        found = [n for n in ast.walk(func) if isinstance(n, ast.If) and 'should_quantize_dropout' in ast.unparse(n.test) and 'rand_quantize_dropout_index' in ast.unparse(n.test)]
        if len(found) != 1:
            raise GenError(f'{qual}: expected exactly one dropped-layer branch, found {len(found)}')
        br = found[0]
        if br.orelse:
            raise GenError(f'{qual}: the dropped-layer branch has an else part')
        rows.append(f'{tag}.test:' + ast.unparse(br.test))
        for st in br.body:
            rows.append(f'{tag}.stmt:' + ast.unparse(st).replace('\n', ' '))
        names = sorted({n.id for st in br.body for n in ast.walk(st) if isinstance(n, ast.Name)})
        rows.append(f'{tag}.names:' + ' '.join(names))
        rows.append(f'{tag}.last:' + type(br.body[-1]).__name__)
    return G.emit_strings('o_dropped_branch', rows, 'residual stacks: the branch taken for a dropped layer (statements, names read, last statement)')

# flags a residual stack caches at construction and tests in its forward: each must be the constructor argument itself (or the documented expression).
# Seeds C03-i / C11-i turned `self.shared_codebook = shared_codebook` into `... and num_quantizers > 1`: no forward changes, the stack just never
# takes its shared end-of-step branch.
@item('p_rvq_flags')
def _():
    rows = []
    want = ('shared_codebook', 'quantize_dropout', 'quantize_dropout_cutoff_index', 'quantize_dropout_multiple_of', 'num_quantizers', 'uniform_codebook_size', 'implicit_neural_codebook')
    func = find_func(RVQ, 'ResidualVQ.__init__')
    for n in ast.walk(func):
        if isinstance(n, ast.Assign) and len(n.targets) == 1 and isinstance(n.targets[0], ast.Attribute) and isinstance(n.targets[0].value, ast.Name) and n.targets[0].value.id == 'self' and n.targets[0].attr in want:
            rows.append((n.lineno, f'ResidualVQ.__init__:self.{n.targets[0].attr} = ' + ast.unparse(n.value).replace('\n', ' ')))
    if not any('self.shared_codebook' in r for _, r in rows):
        raise GenError('ResidualVQ.__init__: no assignment to self.shared_codebook')
    rows.sort()
    return G.emit_strings('p_rvq_flags', [r for _, r in rows], 'ResidualVQ.__init__: flags cached at construction (pinned)')


# einops patterns (G3)
for name, fname, qual in (('pat_vq_forward', VQ, 'VectorQuantize.forward'), ('pat_vq_split', VQ, 'VectorQuantize.maybe_split_heads_from_input'),
                          ('pat_vq_decode', VQ, 'VectorQuantize.get_codes_from_indices'),
                          ('pat_euclid_forward', VQ, 'EuclideanCodebook.forward'), ('pat_cosine_forward', VQ, 'CosineSimCodebook.forward'),
                          ('pat_fsq_forward', FSQF, 'FSQ.forward'), ('pat_fsq_decode', FSQF, 'FSQ.indices_to_codes'),
                          ('pat_lfq_forward', LFQF, 'LFQ.forward'), ('pat_lfq_decode', LFQF, 'LFQ.indices_to_codes'),
                          ('pat_rvq_decode', RVQ, 'ResidualVQ.get_codes_from_indices'),
                          ('pat_simvq_forward', SIMVQ, 'SimVQ.forward')):
    ITEMS.append((name, (lambda name=name, fname=fname, qual=qual: G.emit_patterns(name, fname, qual))))


# einops patterns with roles, interpreted inside Coq by Model/Einops.v (G3b)
ITEMS.append(('pr_vq', lambda: G.emit_pattern_roles('pr_vq', [(VQ, 'VectorQuantize.forward'), (VQ, 'VectorQuantize.maybe_split_heads_from_input'),
                                                              (VQ, 'VectorQuantize.get_codes_from_indices'), (VQ, 'VectorQuantize.forward.calculate_ce_loss')])))
ITEMS.append(('pr_scalar', lambda: G.emit_pattern_roles('pr_scalar', [(FSQF, 'FSQ.forward'), (FSQF, 'FSQ.indices_to_codes'), (LFQF, 'LFQ.forward'), (LFQF, 'LFQ.indices_to_codes')])))

ITEMS.append(('pr_more', lambda: G.emit_pattern_roles('pr_more', [
    (RVQ, 'ResidualVQ.get_codes_from_indices'), (RFSQ, 'ResidualFSQ.get_codes_from_indices'), (RFSQ, 'ResidualFSQ.forward'),
    (RLFQ, 'ResidualLFQ.get_codes_from_indices'), (RSVQ, 'ResidualSimVQ.get_codes_from_indices'),
    (SIMVQ, 'SimVQ.forward'), (SIMVQ, 'SimVQ.indices_to_codes'), (LQ, 'LatentQuantize.forward'), (LQ, 'LatentQuantize.indices_to_codes')])))

# ------------------------------------------------------------------ footprints (G5)
# For every property: the functions / methods its behaviour depends on, as whole normalised source text (ast.unparse: comments and layout do not
# matter).  Pinned by Glue/Pin_fp_Cxx.v: ANY edit of a function in the footprint breaks the obligation of that property, the correspondence then
# searches for a failing input (VIOLATION ... no-failing-input-found when the edit is harmless).  This is the coarse safety net under the
# semantic ties (kernels, guards, einops glue): it guarantees that no change inside the footprint goes unreported.
_EU, _CO, _VQc = 'EuclideanCodebook', 'CosineSimCodebook', 'VectorQuantize'
_CB_FWD = [(VQ, f'{_EU}.forward'), (VQ, f'{_CO}.forward')]
_RES_FWD = [(RVQ, 'ResidualVQ.forward'), (RFSQ, 'ResidualFSQ.forward'), (RLFQ, 'ResidualLFQ.forward'), (RSVQ, 'ResidualSimVQ.forward')]
_GRP_FWD = [(RVQ, 'GroupedResidualVQ.forward'), (RFSQ, 'GroupedResidualFSQ.forward'), (RLFQ, 'GroupedResidualLFQ.forward')]
_DECODE = [(VQ, f'{_VQc}.get_codes_from_indices'), (VQ, f'{_VQc}.get_output_from_indices')] + \
    [(f, f'{c}.{m}') for f, c in ((RVQ, 'ResidualVQ'), (RVQ, 'GroupedResidualVQ'), (RFSQ, 'ResidualFSQ'), (RFSQ, 'GroupedResidualFSQ'), (RLFQ, 'ResidualLFQ'),
                                  (RLFQ, 'GroupedResidualLFQ'), (RSVQ, 'ResidualSimVQ')) for m in ('codebooks', 'get_codes_from_indices', 'get_output_from_indices')] + \
    [(FSQF, 'FSQ._indices_to_codes'), (FSQF, 'FSQ.indices_to_level_indices'), (FSQF, 'FSQ.indices_to_codes'), (FSQF, 'FSQ.codes_to_indices'), (FSQF, 'FSQ._scale_and_shift'),
     (FSQF, 'FSQ._scale_and_shift_inverse'), (LFQF, 'LFQ.bits_to_codes'), (LFQF, 'LFQ.indices_to_codes'), (SIMVQ, 'SimVQ.codebook'), (SIMVQ, 'SimVQ.indices_to_codes'),
     (LQ, 'LatentQuantize.indices_to_codes'), (LQ, 'LatentQuantize.codes_to_indices'), (LQ, 'LatentQuantize._scale_and_shift'), (LQ, 'LatentQuantize._scale_and_shift_inverse')]
_SEEDS = [(f, n) for f in (RVQ, RFSQ, RLFQ, RSVQ) for n in ('get_maybe_sync_seed', 'round_up_multiple')]
_ROT = [(VQ, 'rotate_to'), (VQ, 'efficient_rotation_trick_transform'), (VQ, 'safe_div'), (VQ, 'l2norm')]
_SAMPLE = [(VQ, 'sample_vectors'), (VQ, 'batched_sample_vectors')]
_DIST = [(VQ, 'all_gather_sizes'), (VQ, 'all_gather_variably_sized'), (VQ, 'sample_vectors_distributed'), (VQ, 'sample_multinomial'), (VQ, 'pad_shape')]
_INITS = [(VQ, f'{_EU}.__init__'), (VQ, f'{_CO}.__init__'), (VQ, f'{_VQc}.__init__'), (RVQ, 'ResidualVQ.__init__'), (FSQF, 'FSQ.__init__'), (LFQF, 'LFQ.__init__'),
          (RFSQ, 'ResidualFSQ.__init__'), (RLFQ, 'ResidualLFQ.__init__'), (RSVQ, 'ResidualSimVQ.__init__'), (SIMVQ, 'SimVQ.__init__'), (LQ, 'LatentQuantize.__init__'),
          (RPQ, 'RandomProjectionQuantizer.__init__')]
_ALL_FWD = _CB_FWD + [(VQ, f'{_VQc}.forward'), (VQ, f'{_VQc}.maybe_split_heads_from_input')] + _RES_FWD + _GRP_FWD + \
    [(FSQF, 'FSQ.forward'), (LFQF, 'LFQ.forward'), (SIMVQ, 'SimVQ.forward'), (LQ, 'LatentQuantize.forward'), (LQ, 'LatentQuantize.quantize'), (RPQ, 'RandomProjectionQuantizer.forward')]
FOOTPRINT = {
    'C01': [(VQ, 'cdist'), (VQ, 'l2norm'), (VQ, 'gumbel_sample')] + _CB_FWD + [(VQ, f'{_VQc}.forward'), (VQ, f'{_VQc}.maybe_split_heads_from_input'), (SIMVQ, 'SimVQ.forward'),
            (LQ, 'LatentQuantize.quantize'), (RPQ, 'RandomProjectionQuantizer.forward'), (RVQ, 'ResidualVQ.forward'), (RVQ, 'MLP.forward'), (RSVQ, 'ResidualSimVQ.forward'),
            # the cosine ranking is the dot product: every writer of a cosine codebook must keep its codes on the unit sphere (seed C01-e)
            (VQ, f'{_CO}.replace'), (VQ, f'{_CO}.expire_codes_'), (VQ, f'{_CO}.update_ema'), (VQ, f'{_CO}.init_embed_'), (VQ, f'{_VQc}.expire_codes_'), (SIMVQ, 'SimVQ.codebook')],
    'C02': _DECODE + _ALL_FWD,
    'C03': [(VQ, 'ema_inplace'), (VQ, 'laplace_smoothing'), (VQ, f'{_EU}.update_ema'), (VQ, f'{_CO}.update_ema'), (RVQ, 'ResidualVQ.forward')] + _CB_FWD,
    'C04': [(FSQF, n) for n in ('round_ste', 'floor_ste', 'FSQ.__init__', 'FSQ.bound', 'FSQ.symmetry_preserving_bound', 'FSQ.quantize', 'FSQ._scale_and_shift', 'FSQ._scale_and_shift_inverse',
                                'FSQ._indices_to_codes', 'FSQ.codes_to_indices', 'FSQ.indices_to_level_indices', 'FSQ.indices_to_codes', 'FSQ.forward')] +
           [(LFQF, 'LFQ.__init__'), (LFQF, 'LFQ.bits_to_codes'), (LFQF, 'LFQ.indices_to_codes'), (LFQF, 'LFQ.forward'), (LQ, 'LatentQuantize.codes_to_indices'),
            (LQ, 'LatentQuantize.indices_to_codes'), (LQ, 'LatentQuantize._scale_and_shift'), (LQ, 'LatentQuantize._scale_and_shift_inverse')],
    'C05': [(FSQF, n) for n in ('round_ste', 'floor_ste', 'FSQ.bound', 'FSQ.symmetry_preserving_bound', 'FSQ.quantize', 'FSQ.forward')] + [(LFQF, 'LFQ.forward')],
    'C06': _RES_FWD + _GRP_FWD + [(RVQ, 'ResidualVQ.codebooks'), (RVQ, 'ResidualVQ.get_codes_from_indices'), (RVQ, 'GroupedResidualVQ.split_dim'), (RVQ, 'MLP.forward'),
            (VQ, f'{_VQc}.forward')] + _CB_FWD,
    'C07': _ROT + [(VQ, 'gumbel_sample'), (VQ, f'{_VQc}.forward'), (FSQF, 'round_ste'), (FSQF, 'floor_ste'), (FSQF, 'FSQ.quantize'), (LFQF, 'LFQ.forward'), (SIMVQ, 'SimVQ.forward'),
                   (LQ, 'LatentQuantize.quantize')] + _CB_FWD,
    'C08': _ALL_FWD + [(VQ, f'{_VQc}.update_in_place_optimizer'), (VQ, f'{_VQc}.expire_codes_'), (VQ, f'{_EU}.expire_codes_'), (VQ, f'{_CO}.expire_codes_'),
                       (VQ, f'{_EU}.init_embed_'), (VQ, f'{_CO}.init_embed_')] + _DECODE[:2],
    'C09': [(VQ, 'lens_to_mask'), (VQ, f'{_EU}.init_embed_'), (VQ, f'{_CO}.init_embed_'), (VQ, f'{_EU}.expire_codes_'), (VQ, f'{_CO}.expire_codes_'), (VQ, f'{_VQc}.forward'),
            (RVQ, 'ResidualVQ.forward'), (RVQ, 'GroupedResidualVQ.forward'), (LFQF, 'LFQ.forward'), (RLFQ, 'ResidualLFQ.forward')] + _CB_FWD,
    'C10': [(VQ, f'{_VQc}.forward'), (VQ, f'{_VQc}.maybe_split_heads_from_input'), (VQ, 'safe_div'), (VQ, 'rotate_to'), (VQ, 'efficient_rotation_trick_transform'), (FSQF, 'FSQ.forward'),
            (LFQF, 'LFQ.forward'), (SIMVQ, 'SimVQ.forward'), (SIMVQ, 'pack_one'), (LQ, 'LatentQuantize.forward'), (RFSQ, 'ResidualFSQ.forward'), (RSVQ, 'ResidualSimVQ.forward'), (RVQ, 'ResidualVQ.forward'), (RVQ, 'GroupedResidualVQ.forward'),
            (RLFQ, 'ResidualLFQ.forward'), (RVQ, 'MLP.forward'), (RPQ, 'RandomProjectionQuantizer.forward')] + _CB_FWD,
    'C11': [(VQ, f'{_EU}.replace'), (VQ, f'{_EU}.expire_codes_'), (VQ, f'{_CO}.replace'), (VQ, f'{_CO}.expire_codes_'), (VQ, f'{_VQc}.expire_codes_'), (RVQ, 'ResidualVQ.forward')] + _SAMPLE + _CB_FWD,
    'C12': _SEEDS + _RES_FWD + _GRP_FWD,
    'C13': _ALL_FWD + [(VQ, 'rotate_to'), (VQ, 'lens_to_mask'), (SIMVQ, 'pack_one'), (RSVQ, 'ResidualSimVQ.get_codes_from_indices')],
    'C14': [(VQ, 'kmeans'), (VQ, 'batched_bincount'), (VQ, f'{_EU}.init_embed_'), (VQ, f'{_CO}.init_embed_')] + _SAMPLE + _CB_FWD,
    'C15': _INITS + [(VQ, f'{_EU}.replace'), (VQ, f'{_CO}.replace'), (VQ, f'{_EU}.init_embed_'), (VQ, f'{_CO}.init_embed_'), (VQ, f'{_VQc}.update_in_place_optimizer')] + _SAMPLE,
    'C16': _DIST + [(VQ, 'kmeans'), (VQ, f'{_EU}.__init__'), (VQ, f'{_CO}.__init__'), (VQ, f'{_EU}.update_ema'), (VQ, f'{_CO}.update_ema'), (RVQ, 'get_maybe_sync_seed'),
                    (LFQF, 'maybe_distributed_mean'), (VQ, 'is_distributed'), (LFQF, 'is_distributed'), (RVQ, 'is_distributed'), (RFSQ, 'is_distributed'), (RLFQ, 'is_distributed'),
                    (RSVQ, 'is_distributed'), (RFSQ, 'get_maybe_sync_seed'), (RLFQ, 'get_maybe_sync_seed'), (RSVQ, 'get_maybe_sync_seed'), (VQ, f'{_VQc}.__init__'),
                    (RVQ, 'GroupedResidualVQ.forward'), (RPQ, 'RandomProjectionQuantizer.forward')] + _CB_FWD,
    'C17': [(VQ, 'orthogonal_loss_fn'), (VQ, f'{_VQc}.forward'), (SIMVQ, 'SimVQ.forward'), (LFQF, 'LFQ.forward'), (LFQF, 'entropy'), (LFQF, 'log'), (LQ, 'LatentQuantize.quantization_loss'),
            (LQ, 'LatentQuantize.commitment_loss'), (LQ, 'LatentQuantize.forward'), (RVQ, 'ResidualVQ.forward'), (RLFQ, 'ResidualLFQ.forward'), (RSVQ, 'ResidualSimVQ.forward')],
    'C18': _ROT + [(VQ, 'log'), (VQ, 'cdist'), (VQ, 'laplace_smoothing'), (VQ, f'{_EU}.update_ema'), (VQ, f'{_CO}.update_ema'), (VQ, 'kmeans'), (VQ, 'gumbel_noise'), (VQ, 'gumbel_sample'),
                   (FSQF, 'FSQ.bound'), (FSQF, 'FSQ.symmetry_preserving_bound'), (LFQF, 'LFQ.forward'), (LFQF, 'entropy'), (LFQF, 'log'), (LFQF, 'l2norm'), (VQ, 'orthogonal_loss_fn')] + _CB_FWD,
    'C19': [(VQ, 'gumbel_noise'), (VQ, 'gumbel_sample'), (VQ, 'log'), (RVQ, 'ResidualVQ.forward')] + _CB_FWD,
    'C20': [(RPQ, 'RandomProjectionQuantizer.__init__'), (RPQ, 'RandomProjectionQuantizer.forward'), (SIMVQ, 'SimVQ.__init__'), (SIMVQ, 'SimVQ.codebook'), (SIMVQ, 'SimVQ.forward'),
            (SIMVQ, 'SimVQ.indices_to_codes'), (FSQF, 'FSQ.__init__'), (FSQF, 'FSQ.forward'), (LFQF, 'LFQ.__init__'), (LFQF, 'LFQ.forward'), (RFSQ, 'ResidualFSQ.__init__'),
            (RFSQ, 'ResidualFSQ.forward'), (RFSQ, 'ResidualFSQ.get_codes_from_indices'), (RLFQ, 'ResidualLFQ.__init__'), (RLFQ, 'ResidualLFQ.forward'), (RLFQ, 'ResidualLFQ.get_codes_from_indices'),
            (RSVQ, 'ResidualSimVQ.__init__'), (RSVQ, 'ResidualSimVQ.forward'), (RSVQ, 'ResidualSimVQ.get_codes_from_indices')],
}

# whatever depends on LFQ.forward also depends on the optional cosine-similarity input projection it calls (seed C18-e lived there)
for _pid, _fns in FOOTPRINT.items():
    if (LFQF, 'LFQ.forward') in _fns and (LFQF, 'CosineSimLinear.forward') not in _fns:
        _fns.append((LFQF, 'CosineSimLinear.forward'))

def _footprint_item(pid):
    rows = []
    seen = set()
    for fname, qual in FOOTPRINT[pid]:
        if (fname, qual) in seen:
            continue
        seen.add((fname, qual))
        nodes = G.find_funcs(fname, qual)
        if not nodes:
            raise GenError(f'footprint of {pid}: {fname}:{qual} not found')
        for k, f in enumerate(nodes):
            rows.append(f'{fname}:{qual}' + (f'#{k}' if len(nodes) > 1 else '') + ' := ' + ast.unparse(f).replace('\n', ' \\n '))
    return G.emit_strings(f'fp_{pid}', rows, f'source footprint of {pid}: whole functions, normalised text')


for _pid in sorted(FOOTPRINT):
    ITEMS.append((f'fp_{_pid}', (lambda _pid=_pid: _footprint_item(_pid))))

ITEMS = [(n, f) for n, f in ITEMS if f is not None]


def regenerate(outdir):
    return G.run(ITEMS, outdir)


if __name__ == '__main__':
    import sys, os
    st = regenerate(os.path.join(os.path.dirname(os.path.dirname(os.path.abspath(__file__))), 'coq', 'Gen'))
    for k, v in st.items():
        if v:
            print('GEN-FAIL', k, v)
    print(len(st), 'items,', sum(1 for v in st.values() if v), 'failed')

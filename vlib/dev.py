"""development aid: run only the correspondence of a property (no Coq obligations):  python -m vlib.dev C03 [tier]"""
import sys, time, importlib, os
from . import core


def main():
    pid = sys.argv[1].upper()
    tier = sys.argv[2] if len(sys.argv) > 2 else 'quick'
    if core.REPO not in sys.path:
        sys.path.insert(0, core.REPO)
    mod = importlib.import_module('props.' + pid.lower())
    ctx = core.Ctx(pid, tier, int(os.environ.get('VERIF_SEED', '20260926')))
    t = time.time()
    res = mod.correspond(ctx, int(os.environ.get('VERIF_SCALE', '1')))
    print(f'{time.time() - t:.1f}s evaluations={res["evaluations"]} nontrivial={res["distinct_nontrivial"]} failures={len(res["failures"])}')
    print(res.get('distribution'))
    keys = {}
    for f in res['failures']:
        keys.setdefault(f['key'], []).append(f)
    new = [k for k in keys if not core.match_known(pid, k)]
    for k, fs in list(keys.items())[:int(os.environ.get("VERIF_SHOW", "12"))]:
        print('FAIL' if k in new else 'known', len(fs), k, '::', fs[0]['what'][:400])
    print(f'SUMMARY new_keys={len(new)} known_keys={len(keys) - len(new)} first_new={new[:4]}')


if __name__ == '__main__':
    main()

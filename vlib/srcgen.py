"""Fail-closed Python-ast -> Gallina translator (DESIGN 2.3).

Every item is located by (file, function qualname, syntactic role), translated through a
small whitelisted grammar and written as one file  coq/Gen/<name>.v .  Anything outside the
grammar, missing or ambiguous raises GenError; the item's file is then removed so that every
Glue/Properties file depending on it stops compiling (= broken obligation).
Nothing is located by line number.
"""
import ast, os, re, json, hashlib
from fractions import Fraction

REPO = os.environ.get('VQ_REPO', '/repo')
PKG = os.path.join(REPO, 'vector_quantize_pytorch')


class GenError(Exception):
    pass


_cache = {}


def module_ast(fname):
    path = os.path.join(PKG, fname)
    st = os.stat(path)
    key = (path, st.st_mtime_ns, st.st_size)
    if key not in _cache:
        with open(path) as f:
            _cache[key] = ast.parse(f.read(), filename=path)
    return _cache[key]


def find_func(fname, qual):
    """qual = 'func' or 'Class.method' (first match must be unique)."""
    tree = module_ast(fname)
    parts = qual.split('.')
    nodes = [tree]
    for p in parts:
        nxt = []
        for n in nodes:
            for c in getattr(n, 'body', []):
                if isinstance(c, (ast.FunctionDef, ast.ClassDef)) and c.name == p:
                    nxt.append(c)
        nodes = nxt
    if len(nodes) != 1:
        raise GenError(f'{fname}:{qual}: expected exactly one definition, found {len(nodes)}')
    return nodes[0]


# ------------------------------------------------------------------ helpers

def find_funcs(fname, qual):
    """all definitions matching the qualified name (properties with a setter are defined twice); [] if none"""
    tree = module_ast(fname)
    nodes = [tree]
    for p in qual.split('.'):
        nxt = []
        for n in nodes:
            for c in getattr(n, 'body', []):
                if isinstance(c, (ast.FunctionDef, ast.ClassDef)) and c.name == p:
                    nxt.append(c)
        nodes = nxt
    return nodes


def call_name(node):
    """dotted name of a call target: foo / self.foo / a.b.c ; else None"""
    f = node.func if isinstance(node, ast.Call) else node
    parts = []
    while isinstance(f, ast.Attribute):
        parts.append(f.attr)
        f = f.value
    if isinstance(f, ast.Name):
        parts.append(f.id)
        return '.'.join(reversed(parts))
    return None


def contains(node, pred):
    return any(pred(n) for n in ast.walk(node))


def terminates(stmts):
    return bool(stmts) and isinstance(stmts[-1], (ast.Return, ast.Continue, ast.Raise, ast.Break))


def path_conditions(func, pred):
    """All path conditions (list of (test, polarity)) of statements satisfying pred inside func.
    A preceding `if c: ...; return/continue/raise` (no else) contributes (c, False)."""
    found = []

    def walk(stmts, conds):
        conds = list(conds)
        for s in stmts:
            if pred(s):
                found.append((s, list(conds)))
            if isinstance(s, ast.If):
                walk(s.body, conds + [(s.test, True)])
                walk(s.orelse, conds + [(s.test, False)])
                if terminates(s.body) and not s.orelse:
                    conds.append((s.test, False))
                elif s.orelse and terminates(s.orelse) and not terminates(s.body):
                    conds.append((s.test, True))
            elif isinstance(s, (ast.For, ast.While)):
                walk(s.body, conds)
            elif isinstance(s, ast.With):
                walk(s.body, conds)
            elif isinstance(s, ast.Try):
                walk(s.body, conds)
    walk(func.body, [])
    return found


def stmt_calls(name):
    """predicate: simple statement (Expr/Assign/AugAssign/Return) that contains a call to dotted `name`"""
    def p(s):
        if not isinstance(s, (ast.Expr, ast.Assign, ast.AugAssign, ast.Return, ast.AnnAssign)):
            return False
        return contains(s, lambda n: isinstance(n, ast.Call) and call_name(n) == name)
    return p


def stmt_assigns(target):
    def p(s):
        if isinstance(s, ast.Assign):
            for t in s.targets:
                if ast.unparse(t) == target:
                    return True
                if isinstance(t, ast.Tuple) and any(ast.unparse(e) == target for e in t.elts):
                    return True
        return False
    return p


# ------------------------------------------------------------------ boolean guards

def atom_name(node):
    s = ast.unparse(node)
    s = s.replace('self.', 'self_')
    rep = [('>=', '_ge_'), ('<=', '_le_'), ('==', '_eq_'), ('!=', '_ne_'), ('>', '_gt_'), ('<', '_lt_'),
           (' is not ', '_isnot_'), (' is ', '_is_'), (' not in ', '_notin_'), (' in ', '_in_')]
    for a, b in rep:
        s = s.replace(a, b)
    s = re.sub(r'[^A-Za-z0-9_]+', '_', s).strip('_')
    s = re.sub(r'_+', '_', s)
    if not s or s[0].isdigit():
        s = 'a_' + s
    return s


class BoolTr:
    """Python boolean expression -> Gallina bool term over atoms."""

    def __init__(self, numeric_atoms=True):
        self.atoms = {}

    def atom(self, node):
        n = atom_name(node)
        self.atoms[n] = ast.unparse(node)
        return n

    def tr(self, e):
        if isinstance(e, ast.BoolOp):
            op = ' && ' if isinstance(e.op, ast.And) else ' || '
            return '(' + op.join(self.tr(v) for v in e.values) + ')'
        if isinstance(e, ast.UnaryOp) and isinstance(e.op, ast.Not):
            return '(negb ' + self.tr(e.operand) + ')'
        if isinstance(e, ast.Constant) and isinstance(e.value, bool):
            return 'true' if e.value else 'false'
        if isinstance(e, ast.Call) and call_name(e) == 'exists' and len(e.args) == 1:
            return self.atom(e)
        if isinstance(e, (ast.Name, ast.Attribute, ast.Compare, ast.Call, ast.Subscript)):
            return self.atom(e)
        raise GenError('guard grammar: unsupported ' + ast.dump(e)[:80])


def emit_guard(name, conds, comment):
    """conds: list of (test, polarity) -> Gen file text with  <name>_atoms  and  <name>."""
    tr = BoolTr()
    terms = []
    for test, pol in conds:
        t = tr.tr(test)
        terms.append(t if pol else f'(negb {t})')
    body = ' && '.join(terms) if terms else 'true'
    atoms = sorted(tr.atoms)
    params = ' '.join(atoms)
    sig = f'({params} : bool)' if atoms else ''
    atom_list = '; '.join(f'"{a}"' for a in atoms)
    txt = HEADER.format(comment=comment)
    txt += 'From Coq Require Import String.\nOpen Scope string_scope.\n'
    txt += f'Definition {name}_atoms : list string := [{atom_list}].\n'
    txt += f'Definition {name} {sig} : bool :=\n  {body}.\n'
    return txt


HEADER = '''(* GENERATED by vlib/srcgen.py from /repo -- do not edit.  {comment} *)
From Coq Require Import ZArith List Bool.
From VQ Require Import Num Model.Vec.
Import ListNotations.
'''


# ------------------------------------------------------------------ numeric kernels

def frac_of_const(v):
    if isinstance(v, bool):
        raise GenError('bool constant in numeric context')
    if isinstance(v, int):
        return Fraction(v)
    if isinstance(v, float):
        return Fraction(repr(v))
    raise GenError(f'constant {v!r}')


class NumTr:
    """Python arithmetic -> Gallina over `ops F` (mode 'F') or over Z (mode 'Z').
    vars: mapping python-source-text -> (coq_name, type) where type in {'F','Z','bool','vec'}.
    funs: whitelisted abstract unary functions (sqrt, tanh, ...) appearing as method calls; they become
    parameters of the generated definition so that the glue can instantiate them."""

    UNARY_METHODS = ('sqrt', 'tanh', 'atanh', 'round', 'floor', 'detach', 'exp', 'log', 'abs', 'float', 'int')

    def __init__(self, mode, vars, consts=None):
        self.mode = mode
        self.vars = dict(vars)
        self.used_funs = []
        self.locals = {}

    def num(self, fr):
        fr = Fraction(fr)
        if self.mode == 'Z':
            if fr.denominator != 1:
                raise GenError('non-integer literal in Z kernel')
            n = fr.numerator
            return f'({n})' if n < 0 else str(n)
        if fr.denominator == 1:
            n = fr.numerator
            if n == 0:
                return '(zero o)'
            if n == 1:
                return '(one o)'
            return f'(ofZ o ({n}))'
        return f'(div o (ofZ o ({fr.numerator})) (ofZ o ({fr.denominator})))'

    def fun(self, f):
        if f not in self.used_funs:
            self.used_funs.append(f)
        return 'f_' + f

    def var(self, e):
        key = ast.unparse(e)
        if key in self.locals:
            return self.locals[key]
        if key in self.vars:
            return self.vars[key][0]
        raise GenError(f'unknown variable {key!r} in kernel')

    def tr(self, e):
        m = self.mode
        if isinstance(e, ast.Constant):
            return self.num(frac_of_const(e.value))
        if isinstance(e, (ast.Name, ast.Attribute)):
            return self.var(e)
        if isinstance(e, ast.UnaryOp) and isinstance(e.op, ast.USub):
            if isinstance(e.operand, ast.Constant):
                return self.num(-frac_of_const(e.operand.value))
            return f'(opp o {self.tr(e.operand)})' if m == 'F' else f'(- {self.tr(e.operand)})'
        if isinstance(e, ast.UnaryOp) and isinstance(e.op, ast.Not):
            return f'(negb {self.tr(e.operand)})'
        if isinstance(e, ast.UnaryOp) and isinstance(e.op, ast.Invert):
            return f'(negb {self.tr(e.operand)})'
        if isinstance(e, ast.BinOp):
            a, b = e.left, e.right
            if isinstance(e.op, ast.Pow):
                if isinstance(b, ast.Constant) and isinstance(b.value, int) and 1 <= b.value <= 4:
                    x = self.tr(a)
                    r = x
                    for _ in range(b.value - 1):
                        r = f'(mul o {r} {x})' if m == 'F' else f'({r} * {x})'
                    return r
                if m == 'F':
                    return f'(f_pow {self.tr(a)} {self.tr(b)})' if self._mark('pow') else None
                raise GenError('pow in Z kernel')
            A, B = self.tr(a), self.tr(b)
            if m == 'F':
                op = {ast.Add: 'add', ast.Sub: 'sub', ast.Mult: 'mul', ast.Div: 'div'}.get(type(e.op))
                if op is None:
                    if isinstance(e.op, ast.FloorDiv):
                        return f'(f_floordiv {A} {B})' if self._mark('floordiv') else None
                    raise GenError('operator ' + type(e.op).__name__)
                return f'({op} o {A} {B})'
            op = {ast.Add: '+', ast.Sub: '-', ast.Mult: '*', ast.FloorDiv: '/', ast.Mod: 'mod'}.get(type(e.op))
            if op is None:
                raise GenError('operator ' + type(e.op).__name__ + ' in Z kernel')
            return f'({A} {op} {B})'
        if isinstance(e, ast.Compare) and len(e.ops) == 1:
            A, B = self.tr(e.left), self.tr(e.comparators[0])
            t = type(e.ops[0])
            if m == 'F':
                return {ast.Lt: f'(ltb o {A} {B})', ast.LtE: f'(leb o {A} {B})',
                        ast.Gt: f'(ltb o {B} {A})', ast.GtE: f'(leb o {B} {A})',
                        ast.Eq: f'(eqb o {A} {B})', ast.NotEq: f'(negb (eqb o {A} {B}))'}[t]
            return {ast.Lt: f'({A} <? {B})', ast.LtE: f'({A} <=? {B})',
                    ast.Gt: f'({B} <? {A})', ast.GtE: f'({B} <=? {A})',
                    ast.Eq: f'({A} =? {B})', ast.NotEq: f'(negb ({A} =? {B}))'}[t]
        if isinstance(e, ast.BoolOp):
            op = ' && ' if isinstance(e.op, ast.And) else ' || '
            return '(' + op.join(self.tr(v) for v in e.values) + ')'
        if isinstance(e, ast.IfExp):
            return f'(if {self.tr(e.test)} then {self.tr(e.body)} else {self.tr(e.orelse)})'
        if isinstance(e, ast.Call):
            return self.call(e)
        raise GenError('kernel grammar: unsupported ' + ast.dump(e)[:100])

    def _mark(self, f):
        self.fun(f)
        return True

    def kw(self, e, name, default=None):
        for k in e.keywords:
            if k.arg == name:
                return k.value
        return default

    def call(self, e):
        m = self.mode
        cn = call_name(e)
        # method calls on an expression
        if isinstance(e.func, ast.Attribute):
            recv, meth = e.func.value, e.func.attr
            if meth == 'clamp' and m == 'F':
                lo = self.kw(e, 'min')
                hi = self.kw(e, 'max')
                r = self.tr(recv)
                if lo is not None:
                    r = f'(fmax o {r} {self.tr(lo)})'
                if hi is not None:
                    r = f'(fmin o {r} {self.tr(hi)})'
                if lo is None and hi is None:
                    raise GenError('clamp without bounds')
                return r
            if meth in self.UNARY_METHODS and not e.args and m == 'F':
                return f'({self.fun(meth)} {self.tr(recv)})'
            if meth == 'lerp_' and m == 'F' and len(e.args) == 2:
                return f'(lerp o {self.tr(recv)} {self.tr(e.args[0])} {self.tr(e.args[1])})'
            if meth == 'sum' and m == 'F':
                return f'({self.fun("sum")} {self.tr(recv)})'
            if cn in ('torch.where',) and len(e.args) == 3:
                return f'(if {self.tr(e.args[0])} then {self.tr(e.args[1])} else {self.tr(e.args[2])})'
            if cn in ('torch.tanh', 'torch.atanh', 'torch.sqrt', 'torch.log', 'torch.exp', 'torch.abs') and len(e.args) == 1:
                return f'({self.fun(cn.split(".")[1])} {self.tr(e.args[0])})'
            if cn == 'torch.detach' and len(e.args) == 1:
                return f'({self.fun("detach")} {self.tr(e.args[0])})'
        if cn == 'ceil' and m == 'Z' and len(e.args) == 1 and isinstance(e.args[0], ast.BinOp) and isinstance(e.args[0].op, ast.Div):
            a, b = self.tr(e.args[0].left), self.tr(e.args[0].right)
            return f'(- ((- {a}) / {b}))'
        if cn == 'default' and len(e.args) == 2:
            raise GenError('default() in kernel: resolve in item spec')
        if cn in ('floor_ste', 'round_ste') and len(e.args) == 1 and m == 'F':
            return f'({self.fun(cn)} {self.tr(e.args[0])})'
        if cn and cn in self.vars and self.vars[cn][1] == 'fun':
            args = ' '.join(self.tr(a) for a in e.args)
            return f'({self.vars[cn][0]} {args})'
        raise GenError('kernel grammar: unsupported call ' + ast.unparse(e)[:80])


def emit_kernel(name, fname, qual, mode, params, vars=None, ret=None, stmts=None, expr=None,
                comment='', skip=(), funs=()):
    """Translate a straight-line function body (assignments + return) or a single located
    expression into  Definition <name> {F} (o:ops F) <funs> <params> := ... .
    params: ordered list of (python_text, coq_name, type). `funs`: the abstract functions the glue
    expects, in order (generation fails if the code uses one that is not listed)."""
    vmap = {p: (c, t) for p, c, t in params}
    tr = NumTr(mode, vmap)
    lets = []
    if expr is not None:
        body = tr.tr(expr)
    else:
        func = find_func(fname, qual)
        if stmts is None and func.decorator_list:
            # memoisation / tracing decorators change what a call means (e.g. functools.cache on a function of mutable tensors): fail closed
            raise GenError(f'{fname}:{qual}: translated function carries decorators {[ast.unparse(d) for d in func.decorator_list]}')
        body = None
        body_stmts = stmts if stmts is not None else func.body
        wraps = []   # early `if c: return e` prefixes, applied around the final term
        for s in body_stmts:
            if isinstance(s, ast.If) and not s.orelse and len(s.body) == 1 and isinstance(s.body[0], ast.Return):
                wraps.append((len(lets), tr.tr(s.test), tr.tr(s.body[0].value)))
                continue
            if isinstance(s, ast.Expr) and isinstance(s.value, ast.Constant) and isinstance(s.value.value, str):
                continue  # docstring
            if isinstance(s, ast.Assign) and len(s.targets) == 1 and isinstance(s.targets[0], ast.Name):
                tgt = s.targets[0].id
                if tgt in skip:
                    continue
                rhs = tr.tr(s.value)
                cname = 'v_' + tgt + str(len(lets))
                lets.append((cname, rhs))
                tr.locals[tgt] = cname
                continue
            if isinstance(s, ast.Return):
                body = tr.tr(s.value)
                break
            raise GenError(f'{fname}:{qual}: kernel statement outside grammar: {ast.unparse(s)[:70]}')
        if body is None:
            raise GenError(f'{fname}:{qual}: no return')
    for f in tr.used_funs:
        if f not in funs:
            raise GenError(f'{fname}:{qual}: uses function {f!r} not expected by the glue {list(funs)}')
    tyname = {'F': 'F', 'Z': 'Z', 'bool': 'bool'}
    ps = ' '.join(f'({c} : {tyname[t]})' for _, c, t in params)
    if mode == 'F':
        fps = ' '.join(f'(f_{f} : {FUN_TYPES.get(f, "F -> F")})' for f in funs)
        head = f'Definition {name} {{F : Type}} (o : ops F) {fps} {ps} :=\n'
    else:
        head = f'Definition {name} {ps} :=\n'
    txt = HEADER.format(comment=comment or f'{fname}:{qual}')
    if mode == 'Z':
        txt += 'Open Scope Z_scope.\n'
    txt += head
    wraps_ = locals().get('wraps', [])
    for i, (c, r) in enumerate(lets):
        for pos, t, e in wraps_:
            if pos == i:
                txt += f'  if {t} then {e} else\n'
        txt += f'  let {c} := {r} in\n'
    for pos, t, e in wraps_:
        if pos == len(lets):
            txt += f'  if {t} then {e} else\n'
    txt += f'  {body}.\n'
    return txt


FUN_TYPES = {'pow': 'F -> F -> F', 'floordiv': 'F -> F -> F'}


# ------------------------------------------------------------------ inventories, patterns, orders

def class_inventory(fname, cls):
    """[(name, kind, persistent, init_src)] for register_buffer / nn.Parameter / ParameterList in __init__."""
    init = find_func(fname, cls + '.__init__')
    inv = []
    for n in ast.walk(init):
        if isinstance(n, ast.Call) and call_name(n) == 'self.register_buffer':
            if not (n.args and isinstance(n.args[0], ast.Constant)):
                raise GenError(f'{cls}: register_buffer with non-literal name')
            persistent = True
            for k in n.keywords:
                if k.arg == 'persistent':
                    if not isinstance(k.value, ast.Constant):
                        raise GenError(f'{cls}: non-literal persistent=')
                    persistent = bool(k.value.value)
            init_src = ast.unparse(n.args[1]) if len(n.args) > 1 else ''
            inv.append((n.args[0].value, 'Buffer', persistent, init_src))
        if isinstance(n, ast.Assign) and len(n.targets) == 1:
            t = n.targets[0]
            if isinstance(t, ast.Attribute) and isinstance(t.value, ast.Name) and t.value.id == 'self' \
               and isinstance(n.value, ast.Call) and call_name(n.value) in ('nn.Parameter', 'nn.ParameterList'):
                inv.append((t.attr, 'Param', True, ast.unparse(n.value)))
    return sorted(set(inv))


def emit_inventory(name, fname, cls):
    inv = class_inventory(fname, cls)
    txt = HEADER.format(comment=f'state inventory of {fname}:{cls}')
    txt += 'From Coq Require Import String.\nOpen Scope string_scope.\n'
    txt += 'From VQ Require Import Model.Inventory.\n'
    rows = ';\n   '.join(f'("{n}", {k}, {"true" if p else "false"})' for n, k, p, _ in inv)
    txt += f'Definition {name} : list (string * kind * bool) :=\n  [{rows}].\n'
    return txt


def state_writes(func):
    """Every syntactic site in a method that can mutate a tensor or the module: in-place tensor methods (name ending in `_`)
    on ANY receiver (aliases of module state included), subscript / attribute assignments, augmented assignments to
    attributes or subscripts, setattr / register_buffer / load_state_dict / train / eval calls.  The resulting list is
    pinned by a glue lemma: a new write site anywhere in a forward / decode method breaks the obligation (fail-closed)."""
    writes = set()

    def root(e):
        return ast.unparse(e)

    for n in ast.walk(func):
        if isinstance(n, ast.Call) and isinstance(n.func, ast.Attribute):
            meth = n.func.attr
            if meth.endswith('_') and not meth.startswith('__') and meth not in ('requires_grad_',):
                writes.add(root(n.func.value) + ':' + meth)
            if meth in ('train', 'eval', 'load_state_dict', 'register_buffer', 'register_parameter', 'step', 'zero_grad', 'backward') :
                writes.add(root(n.func.value) + ':' + meth + '()')
        if isinstance(n, ast.Call) and isinstance(n.func, ast.Name) and n.func.id in ('setattr', 'delattr'):
            writes.add(n.func.id + ':' + ast.unparse(n.args[0]) if n.args else n.func.id)
        if isinstance(n, (ast.Assign, ast.AugAssign)):
            tgts = n.targets if isinstance(n, ast.Assign) else [n.target]
            for t in tgts:
                for tt in (t.elts if isinstance(t, ast.Tuple) else [t]):
                    if isinstance(tt, ast.Subscript):
                        writes.add(root(tt.value) + ':setitem')
                    elif isinstance(tt, ast.Attribute):
                        writes.add(root(tt) + ':assign')
    return sorted(writes)


def collect_patterns(fname, qual, fn_names=('rearrange', 'repeat', 'reduce', 'pack_one', 'unpack_one', 'pack', 'unpack',
                                            'einx.where', 'einx.get_at', 'get_at', 'einsum', 'inverse', 'inverse_pack')):
    func = find_func(fname, qual)
    pats = []
    for n in ast.walk(func):
        if isinstance(n, ast.Call) and call_name(n) in fn_names:
            for a in n.args:
                if isinstance(a, ast.Constant) and isinstance(a.value, str) and ('->' in a.value or ' ' in a.value or '*' in a.value):
                    pats.append((n.lineno, n.col_offset, call_name(n), a.value))
                elif isinstance(a, ast.JoinedStr):
                    pats.append((n.lineno, n.col_offset, call_name(n), ast.unparse(a)))
                elif isinstance(a, ast.Name) and a.id.endswith('_eq'):
                    pats.append((n.lineno, n.col_offset, call_name(n), '$' + a.id))
    pats.sort()
    return [(c, p) for _, _, c, p in pats]


def emit_patterns(name, fname, qual):
    pats = collect_patterns(fname, qual)
    txt = HEADER.format(comment=f'einops/einx patterns of {fname}:{qual} in source order')
    txt += 'From Coq Require Import String.\nOpen Scope string_scope.\n'
    rows = ';\n   '.join('("%s", "%s")' % (c, p.replace('"', "'")) for c, p in pats)
    txt += f'Definition {name} : list (string * string) :=\n  [{rows}].\n'
    return txt


def _string_alternatives(func, var):
    """constant strings a local variable can hold, each with the (textual) condition under which it is assigned:
       `v = A if c else B`  and  if/elif/else chains assigning constants.  Fail closed on anything else."""
    alts = []

    def walk(stmts, conds):
        for st in stmts:
            if isinstance(st, ast.Assign) and len(st.targets) == 1 and isinstance(st.targets[0], ast.Name) and st.targets[0].id == var:
                v = st.value
                if isinstance(v, ast.Constant) and isinstance(v.value, str):
                    alts.append((' and '.join(conds) or 'True', v.value))
                elif isinstance(v, ast.IfExp) and all(isinstance(b, ast.Constant) and isinstance(b.value, str) for b in (v.body, v.orelse)):
                    c = ast.unparse(v.test)
                    alts.append((' and '.join(conds + [c]), v.body.value))
                    alts.append((' and '.join(conds + [f'not ({c})']), v.orelse.value))
                else:
                    raise GenError(f'pattern variable {var}: assignment not understood: {ast.unparse(st)}')
            elif isinstance(st, ast.If):
                c = ast.unparse(st.test)
                walk(st.body, conds + [c])
                walk(st.orelse, conds + [f'not ({c})'])
            elif isinstance(st, (ast.For, ast.While, ast.With, ast.Try)):
                walk(getattr(st, 'body', []), conds)
                walk(getattr(st, 'orelse', []), conds)
            elif isinstance(st, ast.FunctionDef):
                walk(st.body, conds)
    walk(func.body, [])
    if not alts:
        raise GenError(f'pattern variable {var}: no constant assignment found')
    return alts


def collect_pattern_roles(fname, qual, fn_names=('rearrange', 'repeat')):
    """(role target, call, pattern) for every rearrange / repeat call of the function, in source order.  The role target says where the
    result goes: the assigned variable, `return`, or `arg:<callee>` for a nested use; for a pattern held in a local variable or an f-string
    over one, one row per alternative with `@<condition>` appended.  Fail closed on patterns that cannot be resolved to constants."""
    func = find_func(fname, qual)
    parents = {}
    for n in ast.walk(func):
        for c in ast.iter_child_nodes(n):
            parents[c] = n
    rows = []
    for n in ast.walk(func):
        if not (isinstance(n, ast.Call) and call_name(n) in fn_names):
            continue
        # where does the value go?
        par = parents.get(n)
        if isinstance(par, ast.Assign) and par.value is n:
            target = ast.unparse(par.targets[0])
        elif isinstance(par, ast.Return):
            target = 'return'
        elif isinstance(par, (ast.Call,)):
            target = 'arg:' + (call_name(par) or '?')
        elif isinstance(par, ast.keyword):
            target = 'kw:' + (par.arg or '?')
        else:
            target = 'expr:' + type(par).__name__
        if len(n.args) < 2:
            raise GenError(f'{qual}: {call_name(n)} call without a pattern argument')
        a = n.args[1]
        if isinstance(a, ast.Constant) and isinstance(a.value, str):
            alts = [(None, a.value)]
        elif isinstance(a, ast.Name):
            alts = _string_alternatives(func, a.id)
        elif isinstance(a, ast.JoinedStr):
            names = [v.value.id for v in a.values if isinstance(v, ast.FormattedValue) and isinstance(v.value, ast.Name)]
            if len(names) != 1 or any(isinstance(v, ast.FormattedValue) and not isinstance(v.value, ast.Name) for v in a.values):
                raise GenError(f'{qual}: f-string pattern not understood: {ast.unparse(a)}')
            alts = []
            for cond, val in _string_alternatives(func, names[0]):
                txt = ''.join(v.value if isinstance(v, ast.Constant) else val for v in a.values)
                alts.append((cond, txt))
        else:
            raise GenError(f'{qual}: pattern argument not understood: {ast.unparse(a)}')
        for cond, pat in alts:
            rows.append((n.lineno, n.col_offset, target + (f'@{cond}' if cond else ''), call_name(n), pat))
    rows.sort()
    return [(t, c, p) for _, _, t, c, p in rows]


def emit_pattern_roles(name, specs):
    """specs: list of (file, qualified function).  Emits `list (string * string * string)` = (function:target, call, pattern)."""
    rows = []
    for fname, qual in specs:
        for t, c, p in collect_pattern_roles(fname, qual):
            rows.append((f'{qual}:{t}', c, p))
    txt = HEADER.format(comment='rearrange / repeat patterns with the role of their result (function:target, call, pattern), source order')
    txt += 'From Coq Require Import String.\nOpen Scope string_scope.\n'
    body = ';\n   '.join('("%s", "%s", "%s")' % (t.replace('"', "'"), c, p.replace('"', "'")) for t, c, p in rows)
    txt += f'Definition {name} : list (string * string * string) :=\n  [{body}].\n'
    return txt


def emit_call_sequence(name, fname, qual, names, comment=''):
    """Ordered list of the dotted call names from `names` that occur in the function (source order),
    each with its argument text.  Used for collectives / ordering obligations."""
    func = find_func(fname, qual)
    calls = []
    for n in ast.walk(func):
        if isinstance(n, ast.Call) and call_name(n) in names:
            calls.append((n.lineno, n.col_offset, call_name(n), ', '.join(ast.unparse(a) for a in n.args)))
    calls.sort()
    txt = HEADER.format(comment=comment or f'call sequence in {fname}:{qual}')
    txt += 'From Coq Require Import String.\nOpen Scope string_scope.\n'
    rows = ';\n   '.join('("%s", "%s")' % (c, a.replace('"', "'")) for _, _, c, a in calls)
    txt += f'Definition {name} : list (string * string) :=\n  [{rows}].\n'
    return txt


def emit_strings(name, rows, comment=''):
    txt = HEADER.format(comment=comment)
    txt += 'From Coq Require Import String.\nOpen Scope string_scope.\n'
    body = ';\n   '.join('"%s"' % r.replace('"', "'") for r in rows)
    txt += f'Definition {name} : list string :=\n  [{body}].\n'
    return txt


# ------------------------------------------------------------------ driver

def run(items, outdir):
    """items: list of (name, thunk) ; thunk() -> file text.  Returns {name: error or None}."""
    os.makedirs(outdir, exist_ok=True)
    status = {}
    keep = set()
    for name, thunk in items:
        path = os.path.join(outdir, name + '.v')
        keep.add(name + '.v')
        try:
            txt = thunk()
            status[name] = None
            old = None
            if os.path.exists(path):
                with open(path) as f:
                    old = f.read()
            if old != txt:
                with open(path, 'w') as f:
                    f.write(txt)
        except GenError as ex:
            status[name] = str(ex)
            if os.path.exists(path):
                os.remove(path)
        except (SyntaxError, FileNotFoundError, KeyError) as ex:
            status[name] = f'{type(ex).__name__}: {ex}'
            if os.path.exists(path):
                os.remove(path)
    for f in os.listdir(outdir):
        if f.endswith('.v') and f not in keep:
            os.remove(os.path.join(outdir, f))
    with open(os.path.join(outdir, '_status.json'), 'w') as f:
        json.dump(status, f, indent=1, sort_keys=True)
    return status

"""Helpers to run /repo's code from the harness (same process, PYTHONPATH=/repo first)."""
import os, sys, math, random, copy, contextlib
import torch

torch.set_num_threads(1)
torch.manual_seed(0)

import vector_quantize_pytorch as vqp
assert os.path.realpath(vqp.__file__).startswith(os.path.realpath(os.environ.get('VQ_REPO', '/repo'))), \
    'harness must import the implementation from the repository working tree: ' + vqp.__file__
from vector_quantize_pytorch import (VectorQuantize, ResidualVQ, GroupedResidualVQ, RandomProjectionQuantizer, FSQ, LFQ,
                                     ResidualLFQ, GroupedResidualLFQ, ResidualFSQ, GroupedResidualFSQ, LatentQuantize,
                                     SimVQ, ResidualSimVQ)
import vector_quantize_pytorch.vector_quantize_pytorch as vqmod


def fl(t):
    """tensor -> nested python lists of floats (exact float32 values as python doubles)"""
    return t.detach().cpu().to(torch.float64).tolist()


def il(t):
    return t.detach().cpu().to(torch.int64).tolist()


def grid_tensor(rng, shape, den=8, lim=32):
    """random tensor on the dyadic grid k/den, |k| <= lim : float32 sums/products of these stay exact"""
    n = 1
    for s in shape:
        n *= s
    vals = [rng.randint(-lim, lim) / den for _ in range(n)]
    return torch.tensor(vals, dtype=torch.float32).reshape(shape)


def state_blob(module):
    """bit-exact snapshot of state_dict + parameters"""
    out = {}
    for k, v in module.state_dict().items():
        out[k] = v.detach().clone()
    return out


def blobs_equal(a, b):
    if a.keys() != b.keys():
        return False, 'keys differ: %s' % (sorted(set(a) ^ set(b)),)
    for k in a:
        x, y = a[k], b[k]
        if x.shape != y.shape or x.dtype != y.dtype:
            return False, f'{k}: shape/dtype {tuple(x.shape)}/{x.dtype} vs {tuple(y.shape)}/{y.dtype}'
        if x.dtype.is_floating_point:
            same = torch.equal(x.view(torch.int32) if x.dtype == torch.float32 else x, y.view(torch.int32) if y.dtype == torch.float32 else y)
        else:
            same = torch.equal(x, y)
        if not same:
            d = (x.double() - y.double()).abs().max().item() if x.numel() else 0
            return False, f'{k}: differs (max abs diff {d:g})'
    return True, ''


@contextlib.contextmanager
def seeded(seed):
    st = torch.random.get_rng_state()
    torch.manual_seed(seed)
    try:
        yield
    finally:
        torch.random.set_rng_state(st)

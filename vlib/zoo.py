"""A pairwise-covering "zoo" of VectorQuantize configurations shared by the history-based harnesses (C08, C09, C15, C16 ...).

The seeded-change experiments showed that the harnesses missed regressions that live in the *interaction* of two options
(cosine x stochastic sampling, cosine x dead-code expiry under DDP, orthogonal regularisation x EMA ...).  Instead of hand lists,
the zoo enumerates option values and greedily picks configurations until every PAIR of option values that the library accepts
together occurs in at least one configuration (all-pairs covering array).  Validity is decided by the library itself: a candidate
is kept only if the constructor accepts it and one training forward/backward runs.  Generation is deterministic (fixed seed).
"""
import itertools, random
from functools import partial

FEATURES = dict(
    metric=['euclid', 'cosine'],
    codebook=['ema', 'learnable', 'inplace-sgd', 'orth-ema'],
    expiry=[0, 2],
    sampling=['argmax', 'stochastic', 'stochastic-st'],
    init=['uniform', 'kmeans'],
    heads=['1', '2-shared', '2-separate'],
    proj=[False, True],
    commit=['mse', 'ce'],
    rotation=[True, False],
    ln=[False, True],          # layernorm_after_project_in (built only when there is a projection)
)


def to_kwargs(c):
    from torch.optim import SGD
    heads = 1 if c['heads'] == '1' else 2
    d = 2
    kw = dict(dim=d * heads + (1 if c['proj'] else 0), codebook_dim=d, heads=heads, separate_codebook_per_head=(c['heads'] == '2-separate'),
              codebook_size=6, decay=0.5, use_cosine_sim=(c['metric'] == 'cosine'), threshold_ema_dead_code=c['expiry'],
              kmeans_init=(c['init'] == 'kmeans'), kmeans_iters=2, rotation_trick=c['rotation'],
              commitment_use_cross_entropy_loss=(c['commit'] == 'ce'), layernorm_after_project_in=bool(c.get('ln')))
    if c['codebook'] == 'learnable':
        kw.update(learnable_codebook=True, ema_update=False)
    elif c['codebook'] == 'inplace-sgd':
        kw.update(learnable_codebook=True, ema_update=False, in_place_codebook_optimizer=partial(SGD, lr=0.5))
    elif c['codebook'] == 'orth-ema':
        kw.update(orthogonal_reg_weight=0.5)
    if c['sampling'] != 'argmax':
        kw.update(stochastic_sample_codes=True, sample_codebook_temp=0.5)
    if c['sampling'] == 'stochastic-st':
        kw.update(straight_through=True)
    return kw


def name_of(c):
    return 'zoo-' + '-'.join(str(c[k]).lower() for k in FEATURES)


def _valid(c):
    import torch
    from vector_quantize_pytorch import VectorQuantize
    try:
        st = torch.get_rng_state()
        kw = to_kwargs(c)
        vq = VectorQuantize(**kw)
        vq.train()
        x = torch.randn(2, 5, kw['dim'], requires_grad=True)
        out, idx, loss = vq(x)
        (out.sum() + loss.sum()).backward()
        vq.eval()
        vq(torch.randn(2, 5, kw['dim']))
        torch.set_rng_state(st)
        return True
    except Exception:
        return False


_CACHE = {}


def configs(max_n=40, seed=1234):
    """deterministic all-pairs covering list of valid configurations: [(name, features, kwargs-factory)]"""
    key = (max_n, seed)
    if key in _CACHE:
        return _CACHE[key]
    rng = random.Random(seed)
    names = list(FEATURES)
    pairs = set()
    for a, b in itertools.combinations(names, 2):
        for va in FEATURES[a]:
            for vb in FEATURES[b]:
                pairs.add((a, va, b, vb))
    chosen, rejected_pairs = [], set()
    stall = 0
    while pairs and len(chosen) < max_n and stall < 6:
        best, best_cov = None, -1
        for _ in range(60):
            c = {k: rng.choice(v) for k, v in FEATURES.items()}
            # bias: force one uncovered pair into the candidate
            a, va, b, vb = rng.choice(sorted(pairs, key=str))
            c[a], c[b] = va, vb
            cov = sum(1 for (a2, va2, b2, vb2) in pairs if c[a2] == va2 and c[b2] == vb2)
            if cov > best_cov and _valid(c):
                best, best_cov = c, cov
        if best is None:
            stall += 1
            continue
        stall = 0
        chosen.append(best)
        pairs = {p for p in pairs if not (best[p[0]] == p[1] and best[p[2]] == p[3])}
    out = [(name_of(c), dict(c), partial(to_kwargs, dict(c))) for c in chosen]
    _CACHE[key] = out
    _CACHE[('uncovered',) + key] = sorted(pairs, key=str)
    return out


def uncovered(max_n=40, seed=1234):
    configs(max_n, seed)
    return _CACHE[('uncovered', max_n, seed)]


# ------------------------------------------------------------------ the same all-pairs construction for the other exported classes
def _pairwise(features, build, probe, max_n, seed):
    """generic all-pairs covering set: `build(c)` -> module (may raise = invalid), `probe(module, c)` exercises it once"""
    rng = random.Random(seed)
    names = list(features)
    pairs = {(a, va, b, vb) for a, b in itertools.combinations(names, 2) for va in features[a] for vb in features[b]}

    def valid(c):
        import torch
        st = torch.get_rng_state()
        try:
            probe(build(c), c)
            return True
        except Exception:
            return False
        finally:
            torch.set_rng_state(st)
    chosen, stall = [], 0
    while pairs and len(chosen) < max_n and stall < 6:
        best, best_cov = None, -1
        for _ in range(40):
            c = {k: rng.choice(v) for k, v in features.items()}
            a, va, b, vb = rng.choice(sorted(pairs, key=str))
            c[a], c[b] = va, vb
            cov = sum(1 for (a2, va2, b2, vb2) in pairs if c[a2] == va2 and c[b2] == vb2)
            if cov > best_cov and valid(c):
                best, best_cov = c, cov
        if best is None:
            stall += 1
            continue
        stall = 0
        chosen.append(best)
        pairs = {p for p in pairs if not (best[p[0]] == p[1] and best[p[2]] == p[3])}
    return chosen, sorted(pairs, key=str)


FSQ_FEATURES = dict(levels=[(5, 4), (8, 5, 5), (3,), (2, 6), (7, 7)], num_codebooks=[1, 2], sym=[False, True], noise=[0.0, 0.5], proj=[False, True],
                    layout=['seq', 'cfirst'], keep=[None, True])
LFQ_FEATURES = dict(cd=[1, 3, 4], num_codebooks=[1, 2], spherical=[False, True], proj=[False, True], clamp=[None, 2.0], act=['identity', 'tanh'],
                    frac=[1.0, 0.5], softplus=[False, True], layout=['seq', 'cfirst'], commit=[0.0, 0.25], cosproj=[False, True])
RES_FEATURES = dict(cls=['rvq', 'rfsq', 'rlfq', 'rsimvq'], nq=[1, 2, 4], dropout=[False, True], cutoff=[0, 1], multiple=[1, 2], proj=[False, True], layout=['seq', 'cfirst'])


def _fsq_build(c):
    from vector_quantize_pytorch import FSQ
    nd = len(c['levels']) * c['num_codebooks']
    return FSQ(list(c['levels']), num_codebooks=c['num_codebooks'], preserve_symmetry=c['sym'], noise_dropout=c['noise'], dim=(nd + 1 if c['proj'] else None),
               channel_first=(c['layout'] == 'cfirst'), keep_num_codebooks_dim=c['keep'])


def _lfq_build(c):
    from torch import nn
    from vector_quantize_pytorch import LFQ
    nd = c['cd'] * c['num_codebooks']
    return LFQ(codebook_size=2 ** c['cd'], num_codebooks=c['num_codebooks'], spherical=c['spherical'], dim=(nd + 1 if c['proj'] else nd), soft_clamp_input_value=c['clamp'],
               straight_through_activation=(nn.Tanh() if c['act'] == 'tanh' else nn.Identity()), frac_per_sample_entropy=c['frac'], experimental_softplus_entropy_loss=c['softplus'],
               channel_first=(c['layout'] == 'cfirst'), commitment_loss_weight=c['commit'], cosine_sim_project_in=bool(c.get('cosproj')))


def _res_build(c):
    from vector_quantize_pytorch import ResidualVQ, ResidualFSQ, ResidualLFQ, ResidualSimVQ
    kw = dict(num_quantizers=c['nq'], quantize_dropout=c['dropout'] and c['nq'] > 1, quantize_dropout_cutoff_index=c['cutoff'], quantize_dropout_multiple_of=c['multiple'])
    if c['cls'] == 'rvq':
        return ResidualVQ(dim=4 if c['proj'] else 3, codebook_dim=3, codebook_size=5, decay=0.5, channel_last=(c['layout'] != 'cfirst'), **kw)
    if c['cls'] == 'rfsq':
        return ResidualFSQ(levels=[4, 3], dim=3 if c['proj'] else 2, is_channel_first=(c['layout'] == 'cfirst'), **kw)
    if c['cls'] == 'rlfq':
        return ResidualLFQ(dim=4 if c['proj'] else 3, codebook_size=8, channel_first=(c['layout'] == 'cfirst'), **kw)
    return ResidualSimVQ(dim=3, codebook_size=6, channel_first=(c['layout'] == 'cfirst'), **kw)


def zoo_dim(kind, c):
    if kind == 'fsq':
        nd = len(c['levels']) * c['num_codebooks']
        return nd + 1 if c['proj'] else nd
    if kind == 'lfq':
        nd = c['cd'] * c['num_codebooks']
        return nd + 1 if c['proj'] else nd
    return {'rvq': 4 if c['proj'] else 3, 'rfsq': 3 if c['proj'] else 2, 'rlfq': 4 if c['proj'] else 3, 'rsimvq': 3}[c['cls']]


def zoo_input(kind, c, torch, b=2, n=5):
    d = zoo_dim(kind, c)
    return torch.randn(b, d, n) if c['layout'] == 'cfirst' else torch.randn(b, n, d)


def _probe(kind):
    def probe(mod, c):
        import torch
        mod.train()
        x = zoo_input(kind, c, torch).requires_grad_(True)
        ret = mod(x)
        fl = [t for t in (ret if isinstance(ret, tuple) else (ret,)) if isinstance(t, torch.Tensor) and t.dtype.is_floating_point and t.requires_grad]
        if fl:
            sum(t.sum() for t in fl).backward()
        mod.eval()
        mod(zoo_input(kind, c, torch))
    return probe


def class_configs(kind, max_n=24, seed=4321):
    """[(name, features, factory)] for kind in fsq / lfq / res"""
    key = ('class', kind, max_n, seed)
    if key not in _CACHE:
        feats, build = {'fsq': (FSQ_FEATURES, _fsq_build), 'lfq': (LFQ_FEATURES, _lfq_build), 'res': (RES_FEATURES, _res_build)}[kind]
        chosen, left = _pairwise(feats, build, _probe(kind), max_n, seed)
        _CACHE[key] = [(f'zoo-{kind}-' + '-'.join(str(c[k]).replace(' ', '').lower() for k in feats), dict(c), partial(build, dict(c))) for c in chosen]
        _CACHE[('uncovered',) + key] = left
    return _CACHE[key]


if __name__ == '__main__':
    import sys
    sys.path.insert(0, '/repo')
    cs = configs()
    for n, c, _ in cs:
        print(n)
    print(len(cs), 'configurations; uncovered (library rejects the combination, or budget):', uncovered())
    for kind in ('fsq', 'lfq', 'res'):
        cc = class_configs(kind)
        for n, c, _ in cc:
            print(n)
        print(kind, len(cc), 'configurations; uncovered:', _CACHE[('uncovered', 'class', kind, 24, 4321)])

"""A pairwise-covering "zoo" of VectorQuantize configurations shared by the history-based harnesses (C08, C09, C15, C16 ...).

The seeded-change experiments showed that the harnesses missed regressions that live in the *interaction* of two options
(cosine x stochastic sampling, cosine x dead-code expiry under DDP, orthogonal regularisation x EMA ...).  Instead of hand lists,
the zoo enumerates option values and greedily picks configurations until every PAIR of option values that the library accepts
together occurs in at least one configuration (all-pairs covering array).  Validity is decided by the library itself: a candidate
is kept only if the constructor accepts it and one training forward/backward runs.  Generation is deterministic (fixed seed).
"""
import itertools, random
from functools import partial

FEATURES = dict(
    metric=['euclid', 'cosine'],
    codebook=['ema', 'learnable', 'inplace-sgd', 'orth-ema'],
    expiry=[0, 2],
    sampling=['argmax', 'stochastic', 'stochastic-st'],
    init=['uniform', 'kmeans'],
    heads=['1', '2-shared', '2-separate'],
    proj=[False, True],
    commit=['mse', 'ce'],
    rotation=[True, False],
)


def to_kwargs(c):
    from torch.optim import SGD
    heads = 1 if c['heads'] == '1' else 2
    d = 2
    kw = dict(dim=d * heads + (1 if c['proj'] else 0), codebook_dim=d, heads=heads, separate_codebook_per_head=(c['heads'] == '2-separate'),
              codebook_size=6, decay=0.5, use_cosine_sim=(c['metric'] == 'cosine'), threshold_ema_dead_code=c['expiry'],
              kmeans_init=(c['init'] == 'kmeans'), kmeans_iters=2, rotation_trick=c['rotation'],
              commitment_use_cross_entropy_loss=(c['commit'] == 'ce'))
    if c['codebook'] == 'learnable':
        kw.update(learnable_codebook=True, ema_update=False)
    elif c['codebook'] == 'inplace-sgd':
        kw.update(learnable_codebook=True, ema_update=False, in_place_codebook_optimizer=partial(SGD, lr=0.5))
    elif c['codebook'] == 'orth-ema':
        kw.update(orthogonal_reg_weight=0.5)
    if c['sampling'] != 'argmax':
        kw.update(stochastic_sample_codes=True, sample_codebook_temp=0.5)
    if c['sampling'] == 'stochastic-st':
        kw.update(straight_through=True)
    return kw


def name_of(c):
    return 'zoo-' + '-'.join(str(c[k]).lower() for k in FEATURES)


def _valid(c):
    import torch
    from vector_quantize_pytorch import VectorQuantize
    try:
        st = torch.get_rng_state()
        kw = to_kwargs(c)
        vq = VectorQuantize(**kw)
        vq.train()
        x = torch.randn(2, 5, kw['dim'], requires_grad=True)
        out, idx, loss = vq(x)
        (out.sum() + loss.sum()).backward()
        vq.eval()
        vq(torch.randn(2, 5, kw['dim']))
        torch.set_rng_state(st)
        return True
    except Exception:
        return False


_CACHE = {}


def configs(max_n=40, seed=1234):
    """deterministic all-pairs covering list of valid configurations: [(name, features, kwargs-factory)]"""
    key = (max_n, seed)
    if key in _CACHE:
        return _CACHE[key]
    rng = random.Random(seed)
    names = list(FEATURES)
    pairs = set()
    for a, b in itertools.combinations(names, 2):
        for va in FEATURES[a]:
            for vb in FEATURES[b]:
                pairs.add((a, va, b, vb))
    chosen, rejected_pairs = [], set()
    stall = 0
    while pairs and len(chosen) < max_n and stall < 6:
        best, best_cov = None, -1
        for _ in range(60):
            c = {k: rng.choice(v) for k, v in FEATURES.items()}
            # bias: force one uncovered pair into the candidate
            a, va, b, vb = rng.choice(sorted(pairs, key=str))
            c[a], c[b] = va, vb
            cov = sum(1 for (a2, va2, b2, vb2) in pairs if c[a2] == va2 and c[b2] == vb2)
            if cov > best_cov and _valid(c):
                best, best_cov = c, cov
        if best is None:
            stall += 1
            continue
        stall = 0
        chosen.append(best)
        pairs = {p for p in pairs if not (best[p[0]] == p[1] and best[p[2]] == p[3])}
    out = [(name_of(c), dict(c), partial(to_kwargs, dict(c))) for c in chosen]
    _CACHE[key] = out
    _CACHE[('uncovered',) + key] = sorted(pairs, key=str)
    return out


def uncovered(max_n=40, seed=1234):
    configs(max_n, seed)
    return _CACHE[('uncovered', max_n, seed)]


if __name__ == '__main__':
    import sys
    sys.path.insert(0, '/repo')
    cs = configs()
    for n, c, _ in cs:
        print(n)
    print(len(cs), 'configurations; uncovered (library rejects the combination, or budget):', uncovered())

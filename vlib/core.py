"""Shared machinery of ./check : build, Coq evaluation, evidence, violations, known findings."""
import os, sys, json, time, re, subprocess, fcntl, hashlib, random, struct, math, shutil
from fractions import Fraction

VERIF = os.path.dirname(os.path.dirname(os.path.abspath(__file__)))
COQ = os.path.join(VERIF, 'coq')
REPO = os.environ.get('VQ_REPO', '/repo')
CASES = os.path.join(COQ, 'Cases')
NPROC = int(os.environ.get('VERIF_NPROC', '16'))
FORBIDDEN = re.compile(r'\b(Admitted|admit|Axiom|Axioms|Parameter|Parameters|Conjecture|Hypothesis|Variable)\b|Unset Guard|bypass_check|type-in-type|impredicative-set|Admit Obligations|give_up')


def sh(cmd, timeout=None, cwd=None, env=None):
    p = subprocess.run(cmd, shell=isinstance(cmd, str), cwd=cwd, env=env, timeout=timeout,
                       stdout=subprocess.PIPE, stderr=subprocess.STDOUT, text=True)
    return p.returncode, p.stdout


class BuildLock:
    def __enter__(self):
        self.f = open(os.path.join(VERIF, '.build.lock'), 'w')
        fcntl.flock(self.f, fcntl.LOCK_EX)
        return self

    def __exit__(self, *a):
        fcntl.flock(self.f, fcntl.LOCK_UN)
        self.f.close()


# --------------------------------------------------------------------------- literals

def f32(x):
    """round a python float to float32 and back (exact value of the float32)"""
    return struct.unpack('f', struct.pack('f', x))[0]


def dyadic(x):
    """finite float -> (m, e) with x == m * 2**e, m odd or zero"""
    if x != x or x in (float('inf'), float('-inf')):
        raise ValueError('non-finite value cannot be given to the rational model: %r' % x)
    if x == 0:
        return 0, 0
    m, e = math.frexp(x)
    m = int(m * (1 << 53))
    e -= 53
    while m % 2 == 0:
        m //= 2
        e += 1
    return m, e


def qlit(x):
    """Coq term of type Q for a float (exact) or Fraction/int"""
    if isinstance(x, Fraction):
        if x.denominator == 1:
            return f'(inject_Z ({x.numerator}))'
        return f'(({x.numerator}) # {x.denominator})'
    if isinstance(x, int):
        return f'(inject_Z ({x}))'
    m, e = dyadic(float(x))
    if e >= 0:
        return f'(inject_Z ({m * (1 << e)}))'
    return f'(({m}) # {1 << (-e)})'


def qvec(v):
    return '[' + '; '.join(qlit(float(x)) for x in v) + ']'


def qmat(m):
    return '[' + '; '.join(qvec(r) for r in m) + ']'


def zlit(n):
    return f'({int(n)})'


def zlist(v):
    return '[' + '; '.join(zlit(x) for x in v) + ']%Z'


def natlist(v):
    return '[' + '; '.join(str(int(x)) for x in v) + ']%nat'


def blist(v):
    return '[' + '; '.join('true' if x else 'false' for x in v) + ']'


def coqbool(b):
    return 'true' if b else 'false'


def sflit(x):
    """spec_float literal (via b32_of_dy) for a float32 value"""
    x = float(x)
    if x == 0:
        return '(S754_zero %s)' % ('true' if math.copysign(1, x) < 0 else 'false')
    m, e = dyadic(x)
    return f'(b32_of_dy ({m}) ({e}))'


# --------------------------------------------------------------------------- context

class Ctx:
    def __init__(self, pid, tier, seed):
        self.pid, self.tier, self.seed = pid, tier, seed
        self.t0 = time.time()
        self.rng = random.Random(seed)
        # every source of randomness of a run derives from the one seed: the harness's own generator, the global `random` module (dropout
        # seeds drawn by the library) and torch's global generator (inputs, initialisations, sampling) - so that a failure replays exactly
        random.seed(seed)
        try:
            import torch
            torch.manual_seed(seed % (2 ** 31))
        except Exception:
            pass
        self.log = []
        self.obligation_failures = []   # list of dicts {what, detail}
        self.obligations = 0
        self.discharged = 0
        self.axioms = {}
        self.trusted = []
        self.gen_status = {}
        self.case_files = 0
        self.case_files_ok = 0

    def say(self, *a):
        msg = ' '.join(str(x) for x in a)
        self.log.append(msg)
        print(msg, flush=True)

    @property
    def thorough(self):
        return self.tier == 'thorough'

    # ---------------- obligations: regen + make + property file + scans
    def regen(self):
        from . import gen_items
        self.gen_status = gen_items.regenerate(os.path.join(COQ, 'Gen'))
        return self.gen_status

    def build(self, targets, timeout=1500):
        """make the given .vo targets (paths relative to coq/). Returns (ok, log)."""
        with BuildLock():
            sh([os.path.join(COQ, 'mk_project.sh')])
            rc, out = sh(['timeout', str(timeout), 'make', '-k', '-j', str(NPROC)] + targets, cwd=COQ)
        return rc == 0, out

    def check_obligations(self, prop_file, glue=(), extra_targets=(), gen_items=()):
        """prop_file: 'Properties/C04.v'.  Builds it (and what it needs), re-compiles it to capture
        Print Assumptions, counts theorems, scans for forbidden tokens."""
        st = self.regen()
        for name in gen_items:
            if st.get(name):
                self.obligation_failures.append({'what': f'Gen item {name} could not be regenerated from /repo',
                                                 'detail': st[name]})
        # the non-vacuity examples (concrete objects meeting the hypotheses of the property theorems) are rebuilt with every property
        targets = [prop_file[:-2] + '.vo', 'Proofs/NonVacuity.vo'] + [g[:-2] + '.vo' for g in glue] + list(extra_targets)
        ok, out = self.build(targets)
        src = open(os.path.join(COQ, prop_file)).read()
        thms = re.findall(r'^\s*(?:Theorem|Lemma|Corollary|Example|Fact)\s+(\w+)', src, re.M)
        self.obligations += len(thms)
        if not ok:
            errs = re.findall(r'File "([^"]+)", line (\d+)[^\n]*\n(?:.*\n){0,6}?Error:?\s*([^\n]*(?:\n[^\n]+){0,3})', out)
            detail = '; '.join(f'{f}:{l}: {m.strip()[:300]}' for f, l, m in errs[:4]) or out[-1500:]
            self.obligation_failures.append({'what': f'proof obligations of {prop_file} no longer check (make failed)',
                                             'detail': detail})
            # count what still compiled
            self.discharged += 0
        else:
            rc, pout = sh(['timeout', '600', 'coqc', '-Q', '.', 'VQ', prop_file], cwd=COQ)
            if rc != 0:
                self.obligation_failures.append({'what': f'{prop_file} does not compile', 'detail': pout[-1500:]})
            else:
                self.discharged += len(thms)
                self.parse_assumptions(pout)
        # forbidden tokens in the whole development (comments stripped)
        bad = scan_forbidden()
        if bad:
            self.obligation_failures.append({'what': 'forbidden token in development', 'detail': '; '.join(bad[:5])})
        self.theorems = thms
        return not self.obligation_failures

    def parse_assumptions(self, out):
        axs = set()
        in_ax = False
        for line in out.splitlines():
            if line.startswith('Axioms:'):
                in_ax = True
                continue
            if line.startswith('Closed under the global context'):
                in_ax = False
                continue
            if in_ax:
                m = re.match(r'^([A-Za-z_][\w.\']*)\s*$', line) or re.match(r'^([A-Za-z_][\w.\']*)\s*:', line)
                if m and not line.startswith(' '):
                    axs.add(m.group(1))
        self.axioms = sorted(axs)

    # ---------------- Coq evaluation of case files
    def coq_eval_many(self, files, timeout=900):
        """files: list of (name, text).  Compiles each under Cases/ in parallel.  Returns {name: (rc, stdout)}."""
        os.makedirs(CASES, exist_ok=True)
        procs = {}
        results = {}
        pending = list(files)
        running = []
        while pending or running:
            while pending and len(running) < NPROC:
                name, text = pending.pop(0)
                uname = f'{name}_p{os.getpid()}'       # process-unique: concurrent checks never share a case file
                path = os.path.join(CASES, uname + '.v')
                with open(path, 'w') as f:
                    f.write(text)
                outf = open(os.path.join(CASES, uname + '.out'), 'w')
                p = subprocess.Popen(['timeout', str(timeout), 'coqc', '-w', '-all', '-Q', '.', 'VQ', os.path.join('Cases', uname + '.v')],
                                     cwd=COQ, stdout=outf, stderr=subprocess.STDOUT, text=True)
                outf.close()
                running.append((name, p))
            for name, p in list(running):
                if p.poll() is not None:
                    uname = f'{name}_p{os.getpid()}'
                    with open(os.path.join(CASES, uname + '.out')) as fo:
                        results[name] = (p.returncode, fo.read(2_000_000))
                    for ext in ('.vo', '.glob', '.vok', '.vos', '.out') + (('.v',) if p.returncode == 0 else ()):
                        try:
                            os.remove(os.path.join(CASES, uname + ext))
                        except OSError:
                            pass
                        try:
                            os.remove(os.path.join(CASES, '.' + uname + '.aux'))
                        except OSError:
                            pass
                    running.remove((name, p))
            time.sleep(0.02)
        self.case_files += len(files)
        self.case_files_ok += sum(1 for rc, _ in results.values() if rc == 0)
        return results

    def coq_eval(self, name, text, timeout=900):
        return self.coq_eval_many([(name, text)], timeout)[name]


def parse_eval_lists(out):
    """All `= ... : type` results of Eval commands, whitespace-normalised, in order."""
    out = re.sub(r'\s+', ' ', out)
    return [m.group(1).strip() for m in re.finditer(r'= (.*?) : (?:list|bool|nat|Z|Q|N|\(|prod|option)', out)]


def parse_natlist(s):
    s = s.strip()
    s = re.sub(r'%\w+', '', s)
    if s in ('[]', 'nil'):
        return []
    return [int(x) for x in re.findall(r'-?\d+', s)]


def strip_comments(src):
    out, depth, i = [], 0, 0
    while i < len(src):
        if src.startswith('(*', i):
            depth += 1
            i += 2
        elif src.startswith('*)', i) and depth:
            depth -= 1
            i += 2
        else:
            if depth == 0:
                out.append(src[i])
            i += 1
    return ''.join(out)


def scan_forbidden():
    bad = []
    for root, _, files in os.walk(COQ):
        if root.endswith('Cases'):
            continue
        for f in files:
            if f.endswith('.v'):
                p = os.path.join(root, f)
                # string literals are data (pinned source text quotes python such as `nn.Parameter(...)` or `(*args)`): blank them first, keeping the
                # line structure, then drop the comments
                src = re.sub(r'"(?:[^"]|"")*"', lambda mm: '""' + '\n' * mm.group(0).count('\n'), open(p).read())
                src = strip_comments(src)
                # Section-local Variable/Hypothesis/Context are allowed: only flag them outside sections
                depth = 0
                for ln, line in enumerate(src.splitlines(), 1):
                    if re.match(r'\s*Section\b', line):
                        depth += 1
                    if re.match(r'\s*End\b', line) and depth:
                        depth -= 1
                    for m in FORBIDDEN.finditer(line):
                        tok = m.group(0)
                        if tok in ('Variable', 'Hypothesis', 'Variables', 'Hypotheses') and depth > 0:
                            continue
                        bad.append(f'{os.path.relpath(p, COQ)}:{ln}: {tok}')
    return bad


# --------------------------------------------------------------------------- findings, evidence

def load_known():
    p = os.path.join(VERIF, 'known_findings.json')
    if not os.path.exists(p):
        return []
    return json.load(open(p))


def match_known(pid, key):
    for k in load_known():
        if k.get('property') == pid and k.get('status') == 'open' and re.search(k['key'], key):
            return k
    return None


def write_replay(pid, payload):
    os.makedirs(os.path.join(VERIF, 'replays'), exist_ok=True)
    blob = json.dumps(payload, sort_keys=True, default=str)
    h = hashlib.sha1(blob.encode()).hexdigest()[:10]
    path = os.path.join(VERIF, 'replays', f'{pid}-{h}.json')
    with open(path, 'w') as f:
        json.dump(payload, f, indent=1, sort_keys=True, default=str)
    return path


def write_evidence(ctx, coverage, violations, assumptions):
    # VERIF_EVIDENCE_DIR: set by tools/seedfull.sh while a seeded change is applied to /repo, so that the records of those
    # (deliberately violating) runs never replace the evidence of the unchanged tree under /verif/evidence
    evdir = os.environ.get('VERIF_EVIDENCE_DIR') or os.path.join(VERIF, 'evidence')
    os.makedirs(evdir, exist_ok=True)
    ev = {
        'property_id': ctx.pid, 'tier': ctx.tier, 'seed': ctx.seed, 'level': 'proof',
        'coverage': coverage, 'assumptions': assumptions, 'wall_s': round(time.time() - ctx.t0, 2),
        'violations': violations,
    }
    with open(os.path.join(evdir, ctx.pid + '.json'), 'w') as f:
        json.dump(ev, f, indent=1, default=str)
    return ev


# --------------------------------------------------------------------------- generic case runner

def run_cases(ctx, prefix, header, cases, per_file=100, timeout=900):
    """cases: list of Coq terms of type nat (0 = ok, other = failure code).  Shards them into Cases/<prefix>_<k>.v,
    evaluates each with vm_compute and returns ({case_index: code}, [names of files that did not evaluate])."""
    files = []
    for k in range(0, len(cases), per_file):
        rows = ';\n'.join(f'(({k + i})%Z, {t})' for i, t in enumerate(cases[k:k + per_file]))
        body = header + '\nDefinition cases : list (Z * nat) := [\n' + rows + '].\n'
        body += 'Eval vm_compute in filter (fun c => negb (Nat.eqb (snd c) 0)) cases.\n'
        files.append((f'{prefix}_{k // per_file}', body))
    res = ctx.coq_eval_many(files, timeout=timeout)
    bad, broken = {}, []
    for name, (rc, out) in sorted(res.items()):
        if rc != 0:
            broken.append((name, out[-600:]))
            continue
        lists = parse_eval_lists(out)
        if not lists:
            broken.append((name, 'no Eval result: ' + out[-300:]))
            continue
        for m in re.finditer(r'\((-?\d+)(?:%Z)?,\s*(\d+)(?:%nat)?\)', lists[0]):
            bad[int(m.group(1))] = int(m.group(2))
    return bad, broken

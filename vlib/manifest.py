"""writes MANIFEST.json from the table below:  /venv/bin/python -m vlib.manifest"""
import json, os
VERIF = os.path.dirname(os.path.dirname(os.path.abspath(__file__)))

CHECKS = {
 'C01': dict(
   text='Theorems (Coq, reals, all sizes/dims/codebooks incl. duplicates and zero codes): argmax of the code\'s score -sqrt(max(0, x.x + c.c - 2 x.c)) is a nearest code in squared distance and the first such index; '
        'clamp and sqrt never change the winner; any maximal-score index is nearest (any tie-break); cosine: the winner maximises <x, c>, is invariant under positive rescaling of x, and is the nearest point on the sphere; '
        'the index is computed from the codebook in force at call start; LatentQuantize picks the value nearest in |z - v|; a mutated formula (dropped code norm) is refuted by witness. '
        'Tie: cdist kernel, gumbel guard and the selection dataflow regenerated from the source; every recorded codebook call (VectorQuantize heads/layouts/projections/cosine, ResidualVQ layers incl. shared and implicit-neural, SimVQ, ResidualSimVQ, RandomProjectionQuantizer, LatentQuantize) checked nearest + returned vector = entry inside Coq on exact rationals. Histories with external writes (load_state_dict, codebook setter, direct writes, optimiser steps): every deterministic call of ANY history selects over the codebook in force at that call (Model/History.v). The einops patterns that split heads and re-layout indices are regenerated from the source, interpreted in Coq (Model/Einops.v) and proved equal to the index maps of the layout model for all extents.',
   note='near-ties inside a float band are accepted (tol 0 on the dyadic stream); projections / MLP / SimVQ transform are opaque (applied by the module itself); pairwise_distance 1e-6 shift of the implicit-neural path is inside the band.',
   technique='Coq proof (reals, order/field reasoning, unbounded) + regenerated kernels + per-call correspondence evaluated in Coq (vm_compute over Q)',
   ref='DESIGN.md section 4 C01'),
 'C03': dict(
   text='Theorems (Coq, reals, all K/dim/batches/decay/eps/histories): after a step counts and sums are decay*old + (1-decay)*batch statistic; codebook entry = running sum / Laplace-smoothed count; closed form after any history '
        '(decay^n c0 + (1-decay) sum decay^(n-1-k) counts_k) by induction; never-hit codes decay geometrically and stay well defined (smoothed count > 0); total smoothed mass = total mass; decay = 1: statistics never move, codebook constant, '
        'and for a fresh module it never moves at all; shared codebook: L layers accumulate, one normalisation; masked tokens contribute nothing. Tie: lerp / Laplace kernels, EMA / update / mask guards, step order regenerated from source; '
        'every recorded training/eval/frozen/masked call of VectorQuantize (heads, separate codebooks, cosine, manual update) and ResidualVQ (per-layer, shared) stepped through the model inside Coq from the implementation\'s own pre-state.',
   note='float32 rounding modelled by tolerance: 0 on the first step from a dyadic state with dyadic decay, 2^-20 relative otherwise, 2e-5 on the normalised codebook; cosine l2norm via a rational sqrt with error 2^-40.',
   technique='Coq proof (reals, induction over histories) + regenerated kernels/guards + stepwise re-synchronised correspondence evaluated in Coq (vm_compute over Q)',
   ref='DESIGN.md section 4 C03'),
 'C08': dict(
   text='Theorems (Coq, axiom-free, generic in the scalar type, all configurations/oracles/histories): an initialised codebook is returned unchanged by every evaluation-mode call, every frozen training-mode call and every decode; '
        'any history of pure operations is the identity on the state, and pure operations can be deleted from ANY interleaving with training steps without changing the final state; the only exception is the one-time k-means initialisation '
        '(flag monotone, no operation re-initialises); eval calls and deterministic frozen calls return the same indices whatever the noise oracle; in-place optimiser and the shared-codebook end-of-forward block are pure when frozen / eval. '
        'Tie: every guard on a state write is regenerated from the source; the list of all in-place write sites of every forward/decode method of every class is regenerated and pinned (FSQ/LFQ/SimVQ/ResidualFSQ/LFQ/SimVQ: none); '
        'random walks over {train, eval, frozen, decode} on 29 module configurations with bit-exact state comparison, repetition of pure calls, and replay of codebook-bearing pure calls through the model.',
   note='optimiser-internal state is not in state_dict and not observed; stochastic frozen training calls: only state purity is claimed.',
   technique='Coq proof (case analysis on regenerated guards + induction over operation lists) + regenerated guards and write-site inventory + random-walk correspondence (bit-exact) with model replay in Coq',
   ref='DESIGN.md section 4 C08'),
 'C11': dict(
   text='Theorems (Coq, reals, all K / thresholds incl. fractional / reset / picks): codes at or above the threshold are untouched by expiry; a code below it takes the next sampled vector (the k-th pick, k = number of dead codes before it), its count is reset and its running sum = reset * vector; '
        'if picks come from the pool so does every revived code; after expiry nothing is below the threshold when reset >= threshold; threshold 0 or nothing dead: identity; expiry is reached only in unfrozen training calls with automatic EMA; order EMA -> normalise -> expire. '
        'Tie: comparison operator, early-outs, guards, the three writes and their order, pool construction and sampling branch regenerated from the source; every recorded call (Euclid / cosine, heads, reset values, per-layer and shared ResidualVQ) stepped through the model in Coq with the replacements read off the post-state and checked to be pool members.',
   note='which pool vector is drawn is an oracle; pool validity under masks is C09.',
   technique='Coq proof (list induction over the reals) + regenerated kernels/guards/dataflow + stepwise correspondence evaluated in Coq (vm_compute over Q)',
   ref='DESIGN.md section 4 C11'),
 'C14': dict(
   text='Theorems (Coq, reals, all data sets / K more or fewer than rows / iteration counts / any score): cluster sizes are non-negative and add up to the number of rows; init writes codes = means, counts = bins, running sums = code * count, flag set; '
        'count-weighted sum of codes = sum of data; every code is a convex combination of data rows (induction over iterations: mean of members, or kept previous mean, or a seed row); only valid tokens reach k-means; '
        'the first call (any mode) initialises, the flag is monotone under every operation and no later operation depends on the k-means oracle (exactly once). '
        'Tie: k-means loop body, the four writes of init_embed_, its guard, the valid-token selection and the persistence of `initted` regenerated from the source and pinned; one iteration of the implementation\'s kmeans() replicated by the model in Coq; '
        'loop = iterated single iteration (bit-exact); first calls in eval / frozen / train mode with masks and adversarial padding checked against the invariants in Coq; later calls, state_dict reload and deepcopy never re-run k-means.',
   note='seeds are an oracle (contract: rows of the valid data, checked); iterations with near-tie assignments (gap < 1e-4) are discarded from the replication stream and counted; a training first call also performs one EMA step (empty clusters then sit at the origin).',
   technique='Coq proof (reals, induction over iterations, convex combinations) + regenerated dataflow/guards + per-iteration correspondence and state invariants evaluated in Coq',
   ref='DESIGN.md section 4 C14'),
 'C09': dict(
   text='Theorems (Coq, reals, all masks / padding contents / assignments of padded tokens): the statistics of a masked batch are those of its valid tokens; two batches that agree on the valid positions give the same accumulated statistics and the same whole state update '
        '(EMA, normalisation, expiry), whatever sits in the padding and whatever indices padded tokens receive; k-means sees valid tokens only; with heads folded into the batch the flattened token (b,h,n) is valid iff mask[b][n]; '
        'outputs at padded positions are the fill value and independent of the computation there; masked mean losses depend on valid tokens only. '
        'Tie: one-hot zeroing guard, mask replication pattern, valid-token selection (k-means, expiry), loss masks and fill values regenerated from the source and pinned; paired runs on 26 configurations (same valid tokens, adversarial padding, ragged masks / lens, multi-step histories) '
        'compared bit-exactly on outputs, indices, every loss term and state_dict; padded positions = -1 / fill; masked call = call on the truncated sequence; recorded calls stepped on valid tokens through the model in Coq. lens_to_mask regenerated (prefix mask, no decorators); the mask replication pattern interpreted in Coq; ragged batches equal the concatenated valid tokens.',
   note='known findings (listed in known_findings.json, reported as KNOWN-FINDING): diversity loss averages over padded positions; shared-codebook ResidualVQ end-of-forward expiry ignores the mask; LFQ / ResidualLFQ mask is loss-only (no -1, output depends on padding). Two defects were repaired (fix: 892caae, f30bcfa).',
   technique='Coq proof (reals, lock-step list induction) + regenerated guards/dataflow + paired-run correspondence (bit-exact) with model replay in Coq',
   ref='DESIGN.md section 4 C09'),
 'C20': dict(
   text='Theorems (Coq, axiom-free, all histories of forwards and optimiser steps writing arbitrary values): a store entry that is neither a forward write site nor a Parameter keeps its value forever; instantiated on the inventories regenerated from the source: '
        'SimVQ.frozen_codebook, RandomProjectionQuantizer.rand_projs, FSQ _levels/_basis/implicit_codebook and LFQ codebook/mask are buffers (never Parameters) and no forward/decode method of those classes contains a write site; '
        'the RPQ inner codebook is pure because eval() is forced before the call (pinned order) and evaluation calls are pure (C08), so equal inputs give equal indices; the codebook is a Parameter only if learnable. '
        'Tie: inventories, write sites, eval-forcing order, SimVQ codebook expression regenerated and pinned; live module registries compared with the inventories in Coq; random loops of train/eval forwards, backward, SGD/Adam(+weight decay) steps with bit-exact comparison of every designated tensor.',
   note='optimisers are modelled as "may write any value into any Parameter, nothing else"; observation: the inner VectorQuantize of RandomProjectionQuantizer owns a trainable projection (codebook_dim is not forwarded), so optimiser steps can change its indices - outside the property, which speaks about forward calls.',
   technique='Coq proof (induction over operation lists on a named store + computation on regenerated inventories) + regenerated inventories/write sites + random-loop correspondence (bit-exact)',
   ref='DESIGN.md section 4 C20'),
 'C02': dict(
   text='Theorems (Coq, reals / integers, all layer counts / codebooks / dims): decoding the indices returned by the residual forward reproduces its output (sum of table entries); index -1 decodes to the zero vector; every coarse prefix decodes to the partial sum; '
        'dropped layers report -1 and a zero code; return_all_codes sums to the output; the mixed-radix index codec is a bijection and distinct indices decode to distinct codes (FSQ / LatentQuantize). '
        'Tie: residual decoders (mask test == -1, pad value, fill 0, scales, uniform vs layer-by-layer branch) and the public decoders regenerated from the source and pinned; for every class x layout x non-updating mode decode(indices) is compared with the forward output '
        '(bit-exact FSQ / LFQ / residual forms in eval, 1e-5 otherwise), image layouts with the feature axis last, every dropout depth, every coarse prefix, -1; the model\'s decoder is evaluated in Coq on the returned indices. Every decode of any history with external writes is a table lookup in the codebook in force; the -1 masks, layer-axis and channel-first patterns of the residual / scalar / SimVQ / LatentQuantize decoders are interpreted in Coq from the regenerated pattern strings.',
   note='four decoder defects were repaired (fix: e1c9974, cb34132, c81a07b, f8fd7c6; earlier 9098ab2); known finding: LatentQuantize.indices_to_codes ignores learned values_per_latent. The float32 bit-exact codec statements live under C04.',
   technique='Coq proof (list induction, reals/integers) + regenerated decoders + round-trip correspondence over all classes/layouts with model decode in Coq',
   ref='DESIGN.md section 4 C02'),
 'C06': dict(
   text='Theorems (Coq, reals, every number of layers, every per-layer quantizer without assumption): layer k receives exactly x - sum_{i<k} code_i and emits q_k of it (with the running sum as side input for implicit codebooks); output = sum of per-layer codes; '
        'indices / codes / residuals carry one entry per layer in layer order; with nearest-code layers each index is a nearest code OF ITS RESIDUAL; scalar layers emit s_k * q(r_k / s_k); groups are independent quantizers on consecutive equal chunks whose concatenation is the input; dropout truncates the loop and keeps the prefix unchanged. '
        'Tie: loop bodies, iteration order, scales, stack / chunk / cat axes of all four residual classes and grouped wrappers regenerated and pinned; ResidualVQ: residuals recomputed exactly from the selected entries inside Coq (layers 1-8, tuple sizes, shared, cosine, projections, masks, train/frozen/eval, after histories); '
        'ResidualFSQ/LFQ/SimVQ: specification replayed with the layer modules as opaque quantizers; grouped forms vs independent quantizers.',
   note='known finding: return_all_codes in an updating training step decodes from the already-updated codebooks.',
   technique='Coq proof (reals, induction over layers, generic in the layer quantizer) + regenerated loop dataflow + per-token correspondence evaluated in Coq',
   ref='DESIGN.md section 4 C06'),
 'C15': dict(
   text='Theorems (Coq, axiom-free, all histories of forwards and optimiser steps): on a named store, save (keep the persistent entries) + load into a freshly constructed module reproduces the store exactly whenever every non-persistent entry still has its constructor value; '
        'that invariant is preserved by every history provided forwards write persistent entries only and every Parameter is persistent; equal stores have equal futures; conversely a written non-persistent entry breaks the round trip. '
        'Instantiated by computation on the inventories regenerated from the source: codebook state (initted, cluster_size, embed_avg, embed) is persistent, all Parameters are persistent, the non-persistent buffers (zero, _levels, _basis, implicit_codebook, LFQ codebook, scales, LatentQuantize weights) have pinned constructor-only initialisers. '
        'Tie: inventories + initialisers regenerated and pinned, live registries compared in Coq; 29 module configurations: history -> state_dict -> fresh module / deepcopy / reload-of-reload -> identical outputs, indices and state_dict trajectory over 5 further steps with equal seeds.',
   note='known finding: a stateful in_place_codebook_optimizer (Adam) keeps its moments outside state_dict. Caller-owned optimisers are the caller\'s to checkpoint. torch state_dict machinery is modelled by persist/rebuild.',
   technique='Coq proof (named-store round-trip theorems + computation on regenerated inventories) + behavioural round-trip correspondence (bit-exact trajectories)',
   ref='DESIGN.md section 4 C15'),
 'C10': dict(
   text='Theorems (Coq, axiom-free, ALL extents - no bound on batch, sequence, image, head or feature sizes): with layouts as index maps and grouped axes row-major, the image / channel-first / multi-head (separate and shared, heads folded into the batch) / multi-codebook pipelines return at every position exactly f(input vector at that position) '
        'and the index of that vector; image layout = flattened channel-last sequence; consequently permuting, splitting, concatenating or re-batching tokens re-indexes outputs and indices identically, a single vector alone = in any batch, and the result depends on its own vector only. '
        'Tie: every einops/einx pattern at the anchored sites regenerated and pinned; the model\'s index map of each pattern compared with einops itself on index-labelled tensors (several extents per pattern, evaluated in Coq); '
        'metamorphic pairs on 17 module configurations x layouts in eval / frozen mode (token permutations, batch split/concat, single vs batch, every layout vs flattened channel-last with the same weights). The pattern STRINGS of 41 rearrange sites are regenerated, parsed and interpreted in Coq (Model/Einops.v) and proved equal to the index maps; for every well-formed pattern rearrange after the swapped rearrange is the identity, reads only in-range entries and is injective; the interpreter is compared with einops on every collected pattern.',
   note='Linear / LayerNorm / SiLU / MLP are assumed position-wise on the last axis (validated by the metamorphic runs); BLAS reassociation is absorbed by a 1e-5 tolerance on projected outputs.',
   technique='Coq proof (div/mod index-map lemmas, all extents, no functional extensionality) + regenerated patterns + einops-vs-model correspondence in Coq + metamorphic correspondence',
   ref='DESIGN.md section 4 C10'),
 'C13': dict(
   text='Theorems (Coq, axiom-free, all extents >= 1 incl. every degenerate one): for each layout the quantized output has the shape of the input; indices have the documented shape (input without its feature axis + trailing heads / codebooks / layers axis + leading groups axis); '
        'rotate_to with squeeze(1) keeps the packed shape for every (tokens, dim), while a bare squeeze() is refuted at dim = 1 (shape [6;6]) and harmless otherwise; squeeze / broadcast lemmas. '
        'Tie: the squeeze call, index dtype conversions, null-index / null-loss constructors regenerated and pinned; cross product of constructor options x accepted layouts x degenerate extents (batch 1, one token, dim 1, codebook_dim 1, one code, heads = dim, one layer) x train/eval x requires_grad: '
        'output shape, documented index shape (computed by the Coq model per case), integer dtype, range [0, K), loss shape.',
   note='two defects repaired (rotate_to bare squeeze; single vector with channel_last=False). Index range theorems are those of C01 / C04 / C09 / C12.',
   technique='Coq proof (shape calculus over lists of extents) + regenerated call sites + exhaustive-over-options correspondence with the documented shape evaluated in Coq',
   ref='DESIGN.md section 4 C13'),
 'C05': dict(
   text='Theorems (Coq, reals, every L >= 2): the regenerated FSQ.bound kernel is tanh(z + atanh(offset/half_l)) * half_l - offset with range (-half_l - offset, half_l - offset), strictly increasing, 0 -> 0; the quantizer round(bound)/floor(L/2) is a non-decreasing step function '
        'whose level is always one of the L declared levels (for eps (L-1) < 1), inside [-1,1], every level reachable (explicit pre-image), thresholds at the pre-images of half-integers, odd-symmetric for odd L, saturating at the extreme levels; '
        'symmetry-preserving mode: output is a point of the uniform L-grid within half a step of tanh z (nearest grid point), monotone; LFQ: +scale iff x > 0; per-dimension map. '
        'Tie: bound / symmetric-bound / LFQ kernels, offset, half width and the quantize branches regenerated from the source; for every L in 2..16 and both modes the level returned by the implementation on exponent sweeps, plateau boundaries +- 3 ulps and random inputs '
        'is certified against the real bounding function by one `interval` goal per sample (about 2500 kernel-checked goals per quick run); LFQ sign rule evaluated at Q; tensors / codebooks / layouts / training flag vs the scalar map. The LFQ straight-through expression is regenerated as a value kernel with abstract detach: its forward value is the quantized value for every activation; FSQ / LFQ codebook split and merge patterns interpreted in Coq.',
   note='libm tanh/atanh modelled by the real functions within 2e-5 of a level; round-half-even vs other tie rules is not distinguishable through float tanh; thorough tier adds larger L and denser sweeps (not all 2^32 bit patterns).',
   technique='Coq proof (reals, Flocq rounding) + regenerated kernels + per-sample certification with the interval tactic + exact LFQ correspondence in Coq',
   ref='DESIGN.md section 4 C05'),
 'C19': dict(
   text='Theorems (Coq, reals): deterministic fallback (temperature <= 0, evaluation mode or no flag => plain argmax = nearest code); Gumbel-max selection is an exponential race: code j beats code i iff E_j / w_j <= E_i / w_i with E = -ln u and w = exp(logit/T); '
        'the selected index wins every pairwise race; the race integrand is w_j exp(-(sum w) t); its integral over [0,a] is (w_j / W)(1 - exp(-W a)) with limit w_j / W, i.e. softmax(logits/T)_j; the weights sum to one. '
        'Tie: noise guard, gumbel_noise / gumbel_sample bodies and temperature resolution regenerated and pinned; for every token of recorded stochastic calls (VectorQuantize, ResidualVQ layers, Euclid / cosine, configured and per-call temperatures) the selected index is certified '
        'to win every race for the CAPTURED uniforms by `interval`; deterministic configurations return the first maximal logit (Coq, exact); 1e5-draw frequencies vs the closed form (chi-square, support only).',
   note='PARTIAL as named: the probability space (independent uniforms, the conditioning formula P(j) = race integral) is definitional; frequencies are support, not proof.',
   technique='Coq proof (exp/ln algebra, Coquelicot integral and limit) + regenerated guard/dataflow + interval-certified race inequalities on captured noise + exact fallback correspondence',
   ref='DESIGN.md section 4 C19'),
 'C07': dict(
   text='Theorems (Coq, reals, every dimension): straight-through: forward value = the code, derivative w.r.t. the input = identity; rotation trick: forward value = the code (non-degenerate norms), derivative = (|q|/|x|) (I - 2 w w^T + 2 q_hat u_hat^T) applied to dx, linear in the direction, '
        'that map carries the input direction onto the code direction and is an isometry (|R e| = |e| for every e: a rotation); evaluation-mode output has no input gradient; sync_update_v scales the gradient by (1+v); commitment loss: d/dx = 2 w (x - q)/N (Coquelicot derivative), EMA-maintained or frozen codebooks get no gradient, learnable ones 2 w (q - x)/N; '
        'FSQ: derivative = half_l (1 - tanh^2(z + shift)) / floor(L/2); gradients never flow between positions. '
        'Tie: maybe_detach / rotation guards and safe_div regenerated, every .detach() / no_grad site pinned; full torch Jacobians compared column by column with the model evaluated in Coq over Q, forward values, loss gradients w.r.t. input and codebook, SimVQ two-sided loss and transform gradient, '
        'FSQ / LFQ / LatentQuantize closed forms, residual and large forms by vector-Jacobian products, every cross-position block compared exactly with 0. The straight-through expressions of VectorQuantize, the synchronous update, FSQ round_ste, SimVQ, LatentQuantize, LFQ and the Gumbel one-hot are regenerated as kernels with abstract detach: value = quantized value, and with the detached part frozen the expression is input + constant (identity Jacobian). Cosine codebooks: J.v on directions orthogonal to x equals the model tangent at the normalised input (checked in Coq).',
   note='PARTIAL as named: torch autograd itself is modelled (detached sub-expressions are constants of the differentiated map) and validated against real Jacobians, not verified.',
   technique='Coq proof (reals, vector algebra, Coquelicot derivatives) + regenerated guards / pinned detach sites + Jacobian correspondence evaluated in Coq over Q',
   ref='DESIGN.md section 4 C07'),
 'C17': dict(
   text='Theorems (Coq, reals): the commitment term enters the loss only under the regenerated training guard (zero in evaluation mode); mse is non-negative, symmetric, zero iff equal; SimVQ loss = commitment_weight (1 + w) mse; '
        'clamped entropy of a distribution: non-negative, at most ln K (Gibbs, unclamped region), 0 for a one-hot and ln K for the uniform distribution; finite Jensen for the entropy term -t ln t (any number of points); the FULL chain 0 <= mean per-token entropy <= entropy of the mean distribution <= ln K for ANY number of tokens and ANY distributions, clamped region and exact zeros included (t -> -t ln max(t,eps) is a minimum of a linear and a concave function; supporting-line Jensen); '
        'orthogonality penalty of n identical unit codes = 1 - 1/n. '
        'Tie: commitment guard and the whole loss assembly (VectorQuantize, SimVQ, LFQ, LatentQuantize) regenerated and pinned; reported losses and breakdown tuples compared with the documented formulas recomputed independently (float64) from inputs, selected codes, codebook, weights, temperatures and (per-sample) masks; '
        'mse terms evaluated in Coq over Q, small LFQ entropy cases certified by the interval tactic, entropy inequalities checked on every LFQ call, every term zero in evaluation mode.',
   note='The entropy chain is proved in full (C17_entropy_chain_full). Known finding: SimVQ / ResidualSimVQ report a non-zero loss in eval().',
   technique='Coq proof (reals: Gibbs inequality, concavity) + regenerated guard / pinned loss assembly + independent recomputation with Coq (Q) and interval-certified cases',
   ref='DESIGN.md section 4 C17'),
 'C18': dict(
   text='Theorems (Coq, reals): every divisor is bounded away from zero (safe_div and l2norm divisors >= eps, Laplace-smoothed counts > 0 also for never-hit codes, k-means divides by 1 for empty clusters), quotients are bounded by |num|/eps, l2norm of the zero vector is the zero vector, '
        'the cdist sqrt argument is clamped non-negative, log arguments are >= eps, the FSQ atanh argument is strictly inside (-1,1) and the bound stays below half_l + 1, tanh stays in (-1,1); EMA is a convex combination for decay in [0,1], so the statistics stay within the bounds of what they have seen along any history (induction). '
        'Tie: the kernels and every clamp / eps default regenerated and pinned; direct oracle on 12 adversarial input families x 28 module configurations x multi-step train/eval histories: isfinite over outputs, losses, input gradients and state_dict.',
   note='PARTIAL as named: theorems are over the reals; "finite in float32" additionally assumes that a float32 operation on finite operands whose exact result is far below 2^127 is finite (not proved end-to-end with Flocq for the tensor code).',
   technique='Coq proof (reals: divisor / argument-range lemmas, convexity, induction over histories) + regenerated kernels / pinned clamps + adversarial-family oracle',
   ref='DESIGN.md section 4 C18'),
 'C16': dict(
   text='Theorems (Coq, reals, every world size >= 1, unequal per-rank batches): counts and vector sums are additive over concatenation, so the all-reduced statistics are those of the concatenated batch; with both statistics reduced every rank performs exactly the single-process EMA update on the concatenation, '
        'hence all ranks agree after every step and after any history (induction); dropping either reduction is refuted by an explicit two-rank witness; synchronised k-means (reduced bins, local sums over global bins, reduced means) equals one single-process iteration on the concatenated data; the LFQ rank mean is the mean. '
        'Tie: presence, order and operands of every all_reduce in the codebook forwards and k-means, the use_ddp / sync_kmeans wiring, distributed sampling, seed sync and the LFQ distributed mean regenerated and pinned; '
        'real gloo process groups over loopback (world size 2; thorough: 2-4), unequal batches, independent RNG streams, multi-step histories, 8 scenarios: per-rank state_dict bit-equal across ranks after every step, EMA path equal to a single process on the concatenated batch and to the Coq model step, dropout depth equal, LFQ batch entropy rank-averaged.',
   note='PARTIAL as named: collectives are modelled as sums / copies; scheduling, failures, NCCL/GPU and the ordering of async broadcasts are only exercised by the gloo runs. One defect repaired (LFQ distributed mean).',
   technique='Coq proof (reals, additivity + induction over histories, refutation witnesses) + regenerated collective order / pinned wiring + multi-process gloo correspondence with model replay in Coq',
   ref='DESIGN.md section 4 C16'),
 'C12': dict(
   text='Theorems (Coq, axiom-free, all n, cutoff, multiple_of, draws r): the layers that run are exactly the prefix {0..k-1} with k = min(n, round_up(r+1, m)); cutoff < k <= n; m | k or k = n; '
        'dropped layers form a suffix; every admissible k is produced by some in-contract draw; dropout is off when not training / indices supplied / dropout disabled / one layer. '
        'Tie: the dropout arithmetic and guards of all four residual classes are regenerated from the source and proved equal to the model; the per-layer -1 pattern, zero losses and '
        'output = decode(kept prefix) of 7 classes are compared with the model inside Coq; Python randrange is tabulated for all 10000 seeds x all (cutoff, n <= 12) and checked in Coq.',
   note='random.Random(seed).randrange is an oracle (recorded, contract cutoff <= r < n); "every admissible k occurs for some seed" = theorem (every in-contract r gives k) + finite recorded table (every in-contract r is hit by a seed).',
   technique='Coq proof (lia over Z, unbounded) + regenerated kernels/guards + exhaustive-in-r correspondence evaluated in Coq (vm_compute)',
   ref='DESIGN.md section 4 C12'),
 'C04': dict(
   text='Theorems (Coq): the mixed-radix index codec of FSQ/LatentQuantize is a bijection for every level list and index (unbounded induction); '
        'the float32 round trip level->code->level of the repaired code is proved for every L in 2..128 by exhaustive vm_compute over a SpecFloat binary32 model '
        'and lifted to every level list by induction; symmetric and plain grids are equally spaced in [-1,1] with distinct values; LFQ bit codec is a bijection, MSB first, '
        'codes are +/-scale. Tie: kernels regenerated from the source (Gen) proved equal to the model; exhaustive enumeration of every index of every codebook in the family '
        'on the implementation, compared bit-exactly with the model evaluated inside Coq.',
   note='binary32 semantics = Coq.Floats.SpecFloat; per-level float theorem bounded to L<=128 (stated); int32 overflow (prod(levels) >= 2^31) not modelled; '
        'reachability of levels observed on sweeps (real-valued argument under C05); translator and harness trusted.',
   technique='Coq proof (induction + bounded-exhaustive vm_compute over a binary32 model) + regenerated kernels + exhaustive table correspondence evaluated in Coq',
   ref='DESIGN.md section 4 C04'),
}

PENDING = 'check not built yet in this round (design in DESIGN.md section 4); not claimed until its theorems and correspondence run'


def main():
    props = [json.loads(l) for l in open(os.path.join(VERIF, 'properties.jsonl'))]
    checks, na = [], []
    for p in props:
        pid = p['id']
        c = CHECKS.get(pid)
        if not c:
            na.append({'property_id': pid, 'reason': PENDING})
            continue
        checks.append({
            'property_id': pid,
            'quick_cmd': f'./check {pid} --tier quick',
            'thorough_cmd': f'./check {pid} --tier thorough',
            'evidence_file': f'/verif/evidence/{pid}.json',
            'replay_cmd_template': f'./check {pid} --replay {{path}}',
            'engine': 'coq-proof+correspondence',
            'level_claimed': {'category': 'proof', 'text': c['text'], 'design_ref': c['ref']},
            'level_note': c['note'],
            'technique': c['technique'],
        })
    m = {
        'version': 1,
        'setup_cmd': 'cd /verif && ./setup.sh',
        'hooks': {'guard': 'VQ_VERIF', 'enable': 'no source hooks are needed: checks observe through the public API, state_dict() and autograd (VQ_VERIF=1 is exported by ./check but read by nothing in /repo)',
                  'baseline_off_cmd': 'cd /repo && /venv/bin/python -m pytest -ra -q -p no:cacheprovider --timeout=900 --continue-on-collection-errors',
                  'source_commits': [], 'add_only': True},
        'engines': [{'name': 'coq-proof+correspondence', 'path': '/verif/check', 'serves_properties': [c['property_id'] for c in checks],
                     'kind_free_text': 'Coq 8.16 theorems about a Gallina model; Gen/*.v regenerated from /repo by vlib/srcgen.py on every run; '
                                       'implementation I/O evaluated against the model inside Coq (vm_compute)'}],
        'checks': checks,
        'not_applicable': na,
        'notes': 'fix: commits in /repo are listed in known_findings.json (status fixed). See DESIGN.md.',
    }
    json.dump(m, open(os.path.join(VERIF, 'MANIFEST.json'), 'w'), indent=1)
    print('MANIFEST: %d checks, %d not claimed' % (len(checks), len(na)))


if __name__ == '__main__':
    main()

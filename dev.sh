#!/bin/bash
# ./dev.sh C03 [tier]   (VQ_REPO=/path/to/mutated/copy to test a mutant)
cd "$(dirname "$0")"
export PYTHONPATH=/verif:${VQ_REPO:-/repo} PYTHONHASHSEED=0 OMP_NUM_THREADS=1 MKL_NUM_THREADS=1
exec /venv/bin/python -W ignore -m vlib.dev "$@" 2> >(grep -v auto_activate_base >&2)

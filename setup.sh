#!/bin/bash
# offline build of the whole development from files on disk (full .vo build, no -vos/-vok)
cd "$(dirname "$0")"
export PYTHONPATH=/verif:${VQ_REPO:-/repo} PYTHONHASHSEED=0
/venv/bin/python -W ignore -m vlib.gen_items 2>&1 | grep -v auto_activate_base
cd coq && ./mk_project.sh && timeout 3000 make -k -j16 2>&1 | grep -v "^COQC\|^COQDEP\|^Closed under\|^Axioms:\|^  \|^[A-Za-z.]*$" | tail -40
[ "${PIPESTATUS[0]}" = "0" ] || exit 1
exit 0

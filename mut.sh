#!/bin/bash
# ./mut.sh '<sed expr>' <file under vector_quantize_pytorch/> <PID> : run the correspondence of PID against a mutated copy
rm -rf /dev/shm/mut && mkdir -p /dev/shm/mut && cp -r /repo/vector_quantize_pytorch /dev/shm/mut/
sed -i "$1" /dev/shm/mut/vector_quantize_pytorch/$2
diff <(cat /repo/vector_quantize_pytorch/$2) /dev/shm/mut/vector_quantize_pytorch/$2 | head -6
VQ_REPO=/dev/shm/mut /verif/dev.sh $3 2>&1 | grep -v auto_act | tail -${4:-8}
rm -rf /dev/shm/mut
